// F1 demo: groth16 Verify did not compare len(proof.Commitments) with the verifying key.
//
// Place at:  backend/groth16/bn254/F1_demo_test.go
// Run with:  go test ./backend/groth16/bn254/ -run 'TestF1' -count=1 -v
//
// Expected: FAIL on f97c049 (forged proof accepted / index-out-of-range panic), PASS after the fix.
package groth16_test

import (
	"math/big"
	"testing"

	"github.com/consensys/gnark-crypto/ecc"
	curve "github.com/consensys/gnark-crypto/ecc/bn254"
	"github.com/consensys/gnark-crypto/ecc/bn254/fr"
	"github.com/consensys/gnark/backend/groth16"
	groth16_bn254 "github.com/consensys/gnark/backend/groth16/bn254"
	"github.com/consensys/gnark/frontend"
	"github.com/consensys/gnark/frontend/cs/r1cs"
)

// f1CubicCircuit: x**3 + x + 5 == y, no commitment.
type f1CubicCircuit struct {
	X frontend.Variable
	Y frontend.Variable `gnark:",public"`
}

func (c *f1CubicCircuit) Define(api frontend.API) error {
	x3 := api.Mul(c.X, c.X, c.X)
	api.AssertIsEqual(c.Y, api.Add(x3, c.X, 5))
	return nil
}

// (a) forged proof for an arbitrary (unsatisfiable-as-claimed) public input.
func TestF1ForgedProofExtraCommitment(t *testing.T) {
	ccs, err := frontend.Compile(ecc.BN254.ScalarField(), r1cs.NewBuilder, &f1CubicCircuit{})
	if err != nil {
		t.Fatal(err)
	}
	_, vkI, err := groth16.Setup(ccs)
	if err != nil {
		t.Fatal(err)
	}
	vk := vkI.(*groth16_bn254.VerifyingKey)
	if len(vk.CommitmentKeys) != 0 || len(vk.PublicAndCommitmentCommitted) != 0 {
		t.Fatal("circuit unexpectedly has commitments")
	}

	// arbitrary public input; the forger knows no X with X^3+X+5 == Y (and needs none).
	var y fr.Element
	y.SetUint64(123456789)
	public := fr.Vector{y}
	if len(vk.G1.K) != 2 {
		t.Fatalf("expected 2 public wires (ONE, Y), got %d", len(vk.G1.K))
	}

	// C = -(K[0] + y*K[1])
	var yBig big.Int
	y.BigInt(&yBig)
	var sum, tmp curve.G1Jac
	tmp.FromAffine(&vk.G1.K[1])
	tmp.ScalarMultiplication(&tmp, &yBig)
	sum.FromAffine(&vk.G1.K[0])
	sum.AddAssign(&tmp)
	sum.Neg(&sum)
	var c curve.G1Affine
	c.FromJacobian(&sum)

	forged := &groth16_bn254.Proof{
		Ar:          vk.G1.Alpha,
		Bs:          vk.G2.Beta,
		Commitments: []curve.G1Affine{c},
		// Krs, CommitmentPok: zero value == point at infinity
	}

	err = groth16_bn254.Verify(forged, vk, public)
	if err == nil {
		t.Fatalf("F1: forged proof (no witness knowledge) was ACCEPTED for public input Y=%s", y.String())
	}
	t.Logf("forged proof rejected: %v", err)
}

// (b) proof with fewer commitments than the key prescribes.
type f1CommitCircuit struct {
	X frontend.Variable
	Y frontend.Variable `gnark:",public"`
}

func (c *f1CommitCircuit) Define(api frontend.API) error {
	cm, err := api.(frontend.Committer).Commit(c.X, c.Y)
	if err != nil {
		return err
	}
	api.AssertIsDifferent(cm, 0)
	api.AssertIsEqual(api.Mul(c.X, c.X), c.Y)
	return nil
}

func TestF1MissingCommitmentPanics(t *testing.T) {
	ccs, err := frontend.Compile(ecc.BN254.ScalarField(), r1cs.NewBuilder, &f1CommitCircuit{})
	if err != nil {
		t.Fatal(err)
	}
	pk, vkI, err := groth16.Setup(ccs)
	if err != nil {
		t.Fatal(err)
	}
	w, err := frontend.NewWitness(&f1CommitCircuit{X: 3, Y: 9}, ecc.BN254.ScalarField())
	if err != nil {
		t.Fatal(err)
	}
	proofI, err := groth16.Prove(ccs, pk, w)
	if err != nil {
		t.Fatal(err)
	}
	pw, _ := w.Public()
	if err := groth16.Verify(proofI, vkI, pw); err != nil {
		t.Fatalf("genuine proof must verify: %v", err)
	}
	proof := proofI.(*groth16_bn254.Proof)
	proof.Commitments = nil // strip

	defer func() {
		if r := recover(); r != nil {
			t.Fatalf("F1: Verify PANICKED on a proof with too few commitments: %v", r)
		}
	}()
	err = groth16_bn254.Verify(proof, vkI.(*groth16_bn254.VerifyingKey), pw.Vector().(fr.Vector))
	if err == nil {
		t.Fatal("F1: proof with stripped commitments accepted")
	}
	t.Logf("stripped proof rejected: %v", err)
}
