// F2 demo: plonk Verify indexed proof.BatchedProof.ClaimedValues before any length check.
//
// Place at:  backend/plonk/bn254/F2_demo_test.go
// Run with:  go test ./backend/plonk/bn254/ -run 'TestF2' -count=1 -v
//
// Expected: FAIL on f97c049 (index-out-of-range panic in Verify), PASS after the fix (error returned).
package plonk_test

import (
	"testing"

	"github.com/consensys/gnark-crypto/ecc"
	"github.com/consensys/gnark-crypto/ecc/bn254/fr"
	"github.com/consensys/gnark/backend/plonk"
	plonk_bn254 "github.com/consensys/gnark/backend/plonk/bn254"
	"github.com/consensys/gnark/frontend"
	"github.com/consensys/gnark/frontend/cs/scs"
	"github.com/consensys/gnark/test/unsafekzg"
)

type f2Circuit struct {
	X frontend.Variable
	Y frontend.Variable `gnark:",public"`
}

func (c *f2Circuit) Define(api frontend.API) error {
	api.AssertIsEqual(api.Mul(c.X, c.X), c.Y)
	return nil
}

func TestF2TruncatedClaimedValues(t *testing.T) {
	ccs, err := frontend.Compile(ecc.BN254.ScalarField(), scs.NewBuilder, &f2Circuit{})
	if err != nil {
		t.Fatal(err)
	}
	srs, srsLagrange, err := unsafekzg.NewSRS(ccs)
	if err != nil {
		t.Fatal(err)
	}
	pk, vk, err := plonk.Setup(ccs, srs, srsLagrange)
	if err != nil {
		t.Fatal(err)
	}
	w, err := frontend.NewWitness(&f2Circuit{X: 3, Y: 9}, ecc.BN254.ScalarField())
	if err != nil {
		t.Fatal(err)
	}
	proofI, err := plonk.Prove(ccs, pk, w)
	if err != nil {
		t.Fatal(err)
	}
	pw, _ := w.Public()
	if err := plonk.Verify(proofI, vk, pw); err != nil {
		t.Fatalf("genuine proof must verify: %v", err)
	}

	proof := proofI.(*plonk_bn254.Proof)
	proof.BatchedProof.ClaimedValues = proof.BatchedProof.ClaimedValues[:2:2]

	defer func() {
		if r := recover(); r != nil {
			t.Fatalf("F2: Verify PANICKED on a proof with truncated ClaimedValues: %v", r)
		}
	}()
	err = plonk_bn254.Verify(proof, vk.(*plonk_bn254.VerifyingKey), pw.Vector().(fr.Vector))
	if err == nil {
		t.Fatal("F2: malformed proof accepted")
	}
	t.Logf("malformed proof rejected: %v", err)
}
