// F3 demo: plonk prover (initBSB22Commitments) appended its hint override into the
// caller's solver-option slice in place (writes into the caller's spare capacity).
//
// Place at:  backend/plonk/bn254/F3_demo_test.go
// Run with:  go test ./backend/plonk/bn254/ -run 'TestF3' -count=1 -v
//
// Expected: FAIL on f97c049 (spare slot overwritten), PASS after the fix.
package plonk_test

import (
	"testing"

	"github.com/consensys/gnark-crypto/ecc"
	"github.com/consensys/gnark/backend"
	"github.com/consensys/gnark/backend/plonk"
	"github.com/consensys/gnark/constraint/solver"
	"github.com/consensys/gnark/frontend"
	"github.com/consensys/gnark/frontend/cs/scs"
	"github.com/consensys/gnark/test/unsafekzg"
)

type f3CommitCircuit struct {
	X frontend.Variable
	Y frontend.Variable `gnark:",public"`
}

func (c *f3CommitCircuit) Define(api frontend.API) error {
	cm, err := api.(frontend.Committer).Commit(c.X, c.Y)
	if err != nil {
		return err
	}
	api.AssertIsDifferent(cm, 0)
	api.AssertIsEqual(api.Mul(c.X, c.X), c.Y)
	return nil
}

func TestF3ProverMutatesCallerSolverOptions(t *testing.T) {
	ccs, err := frontend.Compile(ecc.BN254.ScalarField(), scs.NewBuilder, &f3CommitCircuit{})
	if err != nil {
		t.Fatal(err)
	}
	srs, srsLagrange, err := unsafekzg.NewSRS(ccs)
	if err != nil {
		t.Fatal(err)
	}
	pk, vk, err := plonk.Setup(ccs, srs, srsLagrange)
	if err != nil {
		t.Fatal(err)
	}
	w, err := frontend.NewWitness(&f3CommitCircuit{X: 3, Y: 9}, ecc.BN254.ScalarField())
	if err != nil {
		t.Fatal(err)
	}

	// caller-owned option slice with spare capacity (len 1, cap 4)
	sopts := make([]solver.Option, 1, 4)
	sopts[0] = solver.WithHints() // harmless
	for i, o := range sopts[:cap(sopts)][1:] {
		if o != nil {
			t.Fatalf("precondition: spare slot %d not nil", i+1)
		}
	}

	proof, err := plonk.Prove(ccs, pk, w, backend.WithSolverOptions(sopts...))
	if err != nil {
		t.Fatal(err)
	}
	pw, _ := w.Public()
	if err := plonk.Verify(proof, vk, pw); err != nil {
		t.Fatal(err)
	}

	if sopts[:cap(sopts)][1] != nil {
		t.Fatal("F3: plonk.Prove wrote its OverrideHint option into the caller's slice backing array (sopts[:cap][1] != nil)")
	}
	t.Log("caller's backing array untouched")
}
