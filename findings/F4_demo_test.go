// F4 demo (NOT repaired at HEAD): constraint.BlueprintLookupHint caches the resolved table entries
// (cachedEntries / cachedOffset) on the blueprint object, which lives inside the compiled constraint
// system. The cache is witness dependent, but the compiled system is shared by all solver runs, so
// concurrent Solve/Prove calls on ONE compiled system with different witnesses corrupt each other
// (Reset() of one run wipes / a Solve of one run fills the cache read by another run).
//
// Place at:  std/lookup/logderivlookup/F4_demo_test.go
// Run with:  go test -race ./std/lookup/logderivlookup/ -run 'TestF4' -count=1 -v
//            (also fails without -race: valid witnesses are rejected)
//
// Expected: FAIL on f97c049 AND on HEAD (data race reported and/or valid witness rejected and/or panic).
package logderivlookup_test

import (
	"fmt"
	"sync"
	"testing"

	"github.com/consensys/gnark-crypto/ecc"
	"github.com/consensys/gnark/frontend"
	"github.com/consensys/gnark/frontend/cs/scs"
	"github.com/consensys/gnark/std/lookup/logderivlookup"
)

const (
	f4TableSize = 64
	f4NbQueries = 64
)

type f4Circuit struct {
	Entries  [f4TableSize]frontend.Variable // witness-dependent table
	Queries  [f4NbQueries]frontend.Variable
	Expected [f4NbQueries]frontend.Variable
}

func (c *f4Circuit) Define(api frontend.API) error {
	tbl := logderivlookup.New(api)
	for i := range c.Entries {
		tbl.Insert(c.Entries[i])
	}
	res := tbl.Lookup(c.Queries[:]...)
	for i := range res {
		api.AssertIsEqual(res[i], c.Expected[i])
	}
	return nil
}

// f4Assignment builds a VALID assignment; table contents depend on seed.
func f4Assignment(seed int) *f4Circuit {
	var a f4Circuit
	for i := 0; i < f4TableSize; i++ {
		a.Entries[i] = 1000*(seed+1) + i
	}
	for i := 0; i < f4NbQueries; i++ {
		q := (i*7 + seed) % f4TableSize
		a.Queries[i] = q
		a.Expected[i] = 1000*(seed+1) + q
	}
	return &a
}

func TestF4ConcurrentSolveSharedLookupBlueprint(t *testing.T) {
	ccs, err := frontend.Compile(ecc.BN254.ScalarField(), scs.NewBuilder, &f4Circuit{})
	if err != nil {
		t.Fatal(err)
	}

	const nbGoroutines = 8
	const nbRounds = 50

	// sanity: every witness is valid when solved sequentially
	for g := 0; g < nbGoroutines; g++ {
		w, err := frontend.NewWitness(f4Assignment(g), ecc.BN254.ScalarField())
		if err != nil {
			t.Fatal(err)
		}
		if err := ccs.IsSolved(w); err != nil {
			t.Fatalf("sequential solve of valid witness %d failed: %v", g, err)
		}
	}

	var wg sync.WaitGroup
	errs := make(chan error, nbGoroutines*nbRounds)
	for g := 0; g < nbGoroutines; g++ {
		wg.Add(1)
		go func(g int) {
			defer wg.Done()
			defer func() {
				if r := recover(); r != nil {
					errs <- fmt.Errorf("goroutine %d: PANIC: %v", g, r)
				}
			}()
			w, err := frontend.NewWitness(f4Assignment(g), ecc.BN254.ScalarField())
			if err != nil {
				errs <- err
				return
			}
			for r := 0; r < nbRounds; r++ {
				if err := ccs.IsSolved(w); err != nil {
					errs <- fmt.Errorf("goroutine %d round %d: VALID witness rejected: %v", g, r, err)
					return
				}
			}
		}(g)
	}
	wg.Wait()
	close(errs)
	n := 0
	for err := range errs {
		if n < 5 {
			t.Errorf("F4: %v", err)
		}
		n++
	}
	if n > 0 {
		t.Fatalf("F4: %d/%d concurrent solver runs on the shared compiled system failed", n, nbGoroutines)
	}
}
