// F5 demo: scs builder GetWireConstraints / GetWiresConstraintExact (addMissing=true) added the
// placeholder constraints for otherwise-unconstrained wires while ranging over a Go map, so the
// compiled constraint system differs between compilations of the very same circuit.
//
// Place at:  frontend/cs/scs/F5_demo_test.go
// Run with:  go test ./frontend/cs/scs/ -run 'TestF5' -count=1 -v
//
// Expected: FAIL on f97c049 (several distinct serializations), PASS after the fix (all identical).
package scs_test

import (
	"bytes"
	"crypto/sha256"
	"fmt"
	"testing"

	"github.com/consensys/gnark-crypto/ecc"
	"github.com/consensys/gnark/frontend"
	"github.com/consensys/gnark/frontend/cs/scs"
)

type f5WireConstraintGetter interface {
	GetWireConstraints(wires []frontend.Variable, addMissing bool) ([][2]int, error)
}
type f5WireConstraintExactGetter interface {
	GetWiresConstraintExact(wires []frontend.Variable, addMissing bool) ([][2]int, error)
}

type f5Circuit struct {
	P     [4]frontend.Variable `gnark:",public"`
	S     [8]frontend.Variable
	exact bool
}

func (c *f5Circuit) Define(api frontend.API) error {
	// none of the inputs is used in any constraint; ask the builder to add the missing ones.
	wires := make([]frontend.Variable, 0, len(c.P)+len(c.S))
	wires = append(wires, c.P[:]...)
	wires = append(wires, c.S[:]...)
	var err error
	if c.exact {
		g, ok := api.Compiler().(f5WireConstraintExactGetter)
		if !ok {
			return fmt.Errorf("builder does not implement GetWiresConstraintExact")
		}
		_, err = g.GetWiresConstraintExact(wires, true)
	} else {
		g, ok := api.Compiler().(f5WireConstraintGetter)
		if !ok {
			return fmt.Errorf("builder does not implement GetWireConstraints")
		}
		_, err = g.GetWireConstraints(wires, true)
	}
	return err
}

func f5Run(t *testing.T, exact bool) {
	const nbCompiles = 20
	distinct := map[[32]byte]int{}
	for i := 0; i < nbCompiles; i++ {
		ccs, err := frontend.Compile(ecc.BN254.ScalarField(), scs.NewBuilder, &f5Circuit{exact: exact}, frontend.IgnoreUnconstrainedInputs())
		if err != nil {
			t.Fatal(err)
		}
		var buf bytes.Buffer
		if _, err := ccs.WriteTo(&buf); err != nil {
			t.Fatal(err)
		}
		distinct[sha256.Sum256(buf.Bytes())]++
	}
	if len(distinct) != 1 {
		t.Fatalf("F5: %d compilations of the same circuit produced %d DISTINCT serialized constraint systems", nbCompiles, len(distinct))
	}
	t.Logf("%d compilations, all serializations identical", nbCompiles)
}

func TestF5GetWireConstraintsNonDeterministic(t *testing.T)      { f5Run(t, false) }
func TestF5GetWiresConstraintExactNonDeterministic(t *testing.T) { f5Run(t, true) }
