package main

import (
	"fmt"
	"go/token"
	"go/types"
	"os"
	"sort"
	"strings"

	"golang.org/x/tools/go/ssa"
)

// ARG-ALIAS (C04): the builders hand the caller's own linear expressions around by reference
// (frontend.Variable -> expr.LinearExpression shares the backing array). A helper that, under a boolean flag, works
// on its slice argument *in place* instead of on a clone (found structurally: a phi of the slice parameter and of
// Clone() of it, selected by a branch on a bool parameter — r1cs.(*builder).mulConstant) may therefore be told to
// work in place only on an expression the builder owns: allocated by the builder (newInternalVariable,
// NewLinearExpression, make, Clone, a builder buffer field) or — inductively — the result of such a helper.
// Otherwise `api.Mul(2, 3, y)` rescales the caller's y for every later use.
// The analysis is a small abstract interpretation: ownership of a value under an environment that binds the
// parameters of the enclosing closure (one environment per call site of the closure; boolean parameters bound to the
// constants passed), with the usual coinductive treatment of the loop-carried running result.

type aliasFn struct {
	fn        *ssa.Function
	dataParam int
	flagParam int
	aliasWhen bool // value of the flag under which the parameter itself is used
}

func findAliasFns(p *Prog, scope func(string) bool) []*aliasFn {
	var out []*aliasFn
	for _, fn := range p.Funcs {
		pk := FuncPkg(fn)
		if pk == nil || fn.Blocks == nil || !scope(pk.Path()) {
			continue
		}
		for _, b := range fn.Blocks {
			for _, ins := range b.Instrs {
				phi, ok := ins.(*ssa.Phi)
				if !ok {
					break
				}
				if _, isSlice := phi.Type().Underlying().(*types.Slice); !isSlice || len(phi.Edges) != 2 {
					continue
				}
				for ei, e := range phi.Edges {
					pm, ok := e.(*ssa.Parameter)
					if !ok {
						continue
					}
					other, ok := phi.Edges[1-ei].(*ssa.Call)
					if !ok || other.Call.StaticCallee() == nil || funcBaseName(other.Call.StaticCallee()) != "Clone" || len(other.Call.Args) == 0 || other.Call.Args[0] != pm {
						continue
					}
					// the branch deciding the edge
					pred := b.Preds[ei]
					var iff *ssa.If
					var condBlk *ssa.BasicBlock
					if x, ok := lastInstr(pred).(*ssa.If); ok {
						iff, condBlk = x, pred
					} else if len(pred.Preds) == 1 {
						if x, ok := lastInstr(pred.Preds[0]).(*ssa.If); ok {
							iff, condBlk = x, pred.Preds[0]
						}
					}
					if iff == nil {
						continue
					}
					flag, ok := iff.Cond.(*ssa.Parameter)
					if !ok {
						continue
					}
					when := condBlk.Succs[0] == pred || condBlk.Succs[0] == b && condBlk == pred
					af := &aliasFn{fn: fn, aliasWhen: when}
					for i, q := range fn.Params {
						if q == pm {
							af.dataParam = i
						}
						if q == flag {
							af.flagParam = i
						}
					}
					out = append(out, af)
				}
			}
		}
	}
	return out
}

type aenv struct {
	owned map[*ssa.Parameter]bool // slice parameters known to be builder-owned
	bools map[*ssa.Parameter]int  // 1 true, 2 false
	fv    map[*ssa.FreeVar]ssa.Value
}

// lookup resolves generic instances and origins to the same helper description.
func (e *aliasEngine) lookup(fn *ssa.Function) *aliasFn {
	if fn == nil {
		return nil
	}
	if af := e.afs[fn]; af != nil {
		return af
	}
	if o := fn.Origin(); o != nil {
		if af := e.afs[o]; af != nil {
			return af
		}
	}
	return e.byName[FuncName(fn)]
}

type aliasEngine struct {
	byName  map[string]*aliasFn
	p       *Prog
	afs     map[*ssa.Function]*aliasFn
	assume  map[ssa.Value]bool
	callers map[*ssa.Function][]*ssa.Call // direct calls of closures / functions
}

func (e *aliasEngine) evalBool(v ssa.Value, en *aenv) int {
	switch x := v.(type) {
	case *ssa.Const:
		if x.Value != nil && x.Value.String() == "true" {
			return 1
		}
		if x.Value != nil && x.Value.String() == "false" {
			return 2
		}
	case *ssa.UnOp:
		if x.Op == token.NOT {
			switch e.evalBool(x.X, en) {
			case 1:
				return 2
			case 2:
				return 1
			}
		}
	case *ssa.BinOp:
		if x.Op == token.EQL || x.Op == token.NEQ {
			a, b := e.evalBool(x.X, en), e.evalBool(x.Y, en)
			if a != 0 && b != 0 {
				if (a == b) == (x.Op == token.EQL) {
					return 1
				}
				return 2
			}
		}
	case *ssa.Parameter:
		if en != nil {
			return en.bools[x]
		}
	}
	return 0
}

func calleeOf(c *ssa.Call) *ssa.Function {
	if f := c.Call.StaticCallee(); f != nil {
		return f
	}
	switch v := c.Call.Value.(type) {
	case *ssa.MakeClosure:
		f, _ := v.Fn.(*ssa.Function)
		return f
	case *ssa.UnOp:
		if al, ok := v.X.(*ssa.Alloc); ok {
			if sv := singleStore(al); sv != nil {
				if mc, ok := sv.(*ssa.MakeClosure); ok {
					f, _ := mc.Fn.(*ssa.Function)
					return f
				}
			}
		}
	}
	return nil
}

func (e *aliasEngine) envFor(c *ssa.Call, cal *ssa.Function, en *aenv, depth int) *aenv {
	e2 := &aenv{owned: map[*ssa.Parameter]bool{}, bools: map[*ssa.Parameter]int{}}
	for i, pm := range cal.Params {
		if i >= len(c.Call.Args) {
			break
		}
		a := c.Call.Args[i]
		if b, ok := pm.Type().Underlying().(*types.Basic); ok && b.Kind() == types.Bool {
			e2.bools[pm] = e.evalBool(a, en)
			continue
		}
		if _, ok := pm.Type().Underlying().(*types.Slice); ok {
			e2.owned[pm] = e.owned(a, en, depth+1)
		}
	}
	return e2
}

// owned: the slice value denotes memory allocated by the builder (not the caller's expression).
func (e *aliasEngine) owned(v ssa.Value, en *aenv, depth int) bool {
	if depth > 12 {
		return false
	}
	if a, ok := e.assume[v]; ok {
		return a
	}
	switch x := v.(type) {
	case *ssa.MakeSlice:
		return true
	case *ssa.Const:
		return true // nil
	case *ssa.Parameter:
		if en != nil {
			return en.owned[x]
		}
		return false
	case *ssa.Phi:
		e.assume[x] = true // coinduction: the loop-carried value is owned if every way of producing it is
		ok := true
		for _, ed := range x.Edges {
			if !e.owned(ed, en, depth+1) {
				ok = false
			}
		}
		delete(e.assume, x)
		return ok
	case *ssa.Slice:
		return e.owned(x.X, en, depth+1)
	case *ssa.ChangeType:
		return e.owned(x.X, en, depth+1)
	case *ssa.UnOp:
		if x.Op == token.MUL {
			// builder buffer field
			if fa, ok := x.X.(*ssa.FieldAddr); ok {
				if n := namedName(fa.X.Type()); n == "builder" {
					return true
				}
			}
			if al, ok := x.X.(*ssa.Alloc); ok {
				// local variable: every store into it is owned
				all := true
				n := 0
				for _, r := range *al.Referrers() {
					if st, ok := r.(*ssa.Store); ok && st.Addr == al {
						n++
						e.assume[x] = true
						if !e.owned(st.Val, en, depth+1) {
							all = false
						}
						delete(e.assume, x)
					}
				}
				return all && n > 0
			}
		}
	case *ssa.Call:
		if isBuiltinCall(x, "append") {
			return e.owned(x.Call.Args[0], en, depth+1)
		}
		cal := calleeOf(x)
		if cal == nil {
			return false
		}
		switch funcBaseName(cal) {
		case "Clone", "newInternalVariable", "NewLinearExpression", "NewTerm":
			return true
		}
		if af := e.lookup(cal); af != nil {
			if af.flagParam < len(x.Call.Args) {
				fl := e.evalBool(x.Call.Args[af.flagParam], en)
				aliasing := fl == 0 || (fl == 1) == af.aliasWhen
				if !aliasing {
					return true
				}
				return e.owned(x.Call.Args[af.dataParam], en, depth+1)
			}
			return false
		}
		if cal.Blocks == nil || FuncPkg(cal) == nil || !strings.HasPrefix(FuncPkg(cal).Path(), modPath+"/frontend/") {
			return false
		}
		// every returned value of the callee is owned under the environment of this call
		e2 := e.envFor(x, cal, en, depth)
		e.assume[x] = true
		ok := true
		nret := 0
		for _, b := range cal.Blocks {
			if ret, isRet := lastInstr(b).(*ssa.Return); isRet && len(ret.Results) > 0 {
				nret++
				if !e.owned(ret.Results[0], e2, depth+1) {
					ok = false
				}
			}
		}
		delete(e.assume, x)
		return ok && nret > 0
	}
	return false
}

func RunArgAlias(p *Prog, r *Report) {
	scope := func(pk string) bool { return strings.HasPrefix(pk, modPath+"/frontend/cs/") }
	afl := findAliasFns(p, scope)
	if len(afl) == 0 {
		r.Fail("UNRESOLVED", "-", "-", "arg-alias", "-", "no alias-or-clone helper found in frontend/cs (confirmed: r1cs.(*builder).mulConstant)")
		return
	}
	e := &aliasEngine{p: p, byName: map[string]*aliasFn{}, afs: map[*ssa.Function]*aliasFn{}, assume: map[ssa.Value]bool{}, callers: map[*ssa.Function][]*ssa.Call{}}
	for _, af := range afl {
		e.afs[af.fn] = af
		e.byName[FuncName(af.fn)] = af
		if os.Getenv("GNARKLINT_DEBUG") != "" {
			fmt.Println("alias fn:", FuncName(af.fn), af.dataParam, af.flagParam, af.aliasWhen)
		}
	}
	// call sites of every function / closure of the scope
	var fns []*ssa.Function
	for _, fn := range p.Funcs {
		if pk := FuncPkg(fn); pk != nil && fn.Blocks != nil && scope(pk.Path()) {
			fns = append(fns, fn)
		}
	}
	sort.Slice(fns, func(i, j int) bool { return FuncName(fns[i]) < FuncName(fns[j]) })
	for _, fn := range fns {
		for _, b := range fn.Blocks {
			for _, ins := range b.Instrs {
				if c, ok := ins.(*ssa.Call); ok {
					if cal := calleeOf(c); cal != nil {
						e.callers[cal] = append(e.callers[cal], c)
					}
				}
			}
		}
	}
	seen := map[string]bool{}
	for _, fn := range fns {
		ord := 0
		for _, b := range fn.Blocks {
			for _, ins := range b.Instrs {
				c, ok := ins.(*ssa.Call)
				if !ok {
					continue
				}
				af := e.lookup(calleeOf(c))
				if af == nil || af.flagParam >= len(c.Call.Args) {
					continue
				}
				ord++
				key := fmt.Sprintf("%s | in-place-call#%d", Abstract(FuncName(fn)), ord)
				if seen[key] {
					continue
				}
				seen[key] = true
				// environments: one per direct call site of the enclosing closure; a single empty one otherwise
				var envs []*aenv
				var envDesc []string
				if fn.Parent() != nil && len(e.callers[fn]) > 0 {
					for _, cs := range e.callers[fn] {
						envs = append(envs, e.envFor(cs, fn, nil, 0))
						envDesc = append(envDesc, p.Pos(cs.Pos()))
					}
				} else {
					envs = append(envs, &aenv{owned: map[*ssa.Parameter]bool{}, bools: map[*ssa.Parameter]int{}})
					envDesc = append(envDesc, "-")
				}
				bad := ""
				nInPlace := 0
				for i, en := range envs {
					fl := e.evalBool(c.Call.Args[af.flagParam], en)
					aliasing := fl == 0 || (fl == 1) == af.aliasWhen
					if !aliasing {
						continue
					}
					nInPlace++
					if !e.owned(c.Call.Args[af.dataParam], en, 0) {
						bad = envDesc[i]
					}
				}
				pos := p.Pos(c.Pos())
				pkg := FuncPkg(fn).Path()
				switch {
				case bad != "":
					r.Fail("ARG-ALIAS", pkg, FuncName(fn), fmt.Sprintf("in-place-call#%d", ord), pos, fmt.Sprintf("%s is told to work in place on an expression that is not provably builder-owned (context: call at %s): the caller's own variable is rescaled for every later use", funcBaseName(af.fn), bad))
				case nInPlace == 0:
					r.Pass("ARG-ALIAS", pkg, FuncName(fn), fmt.Sprintf("in-place-call#%d", ord), pos, "the in-place flag is false in every calling context: the helper clones", true)
				default:
					r.Pass("ARG-ALIAS", pkg, FuncName(fn), fmt.Sprintf("in-place-call#%d", ord), pos, fmt.Sprintf("in place in %d context(s), each time on a builder-owned expression (fresh wire, clone, builder buffer, or the running result of the same helper)", nInPlace), true)
				}
			}
		}
	}
	if len(seen) < 5 {
		r.Fail("UNRESOLVED", "-", "-", "arg-alias-sites", "-", fmt.Sprintf("%d call sites of the alias-or-clone helper, confirmed 6", len(seen)))
	}
}

func init() {
	devHooks["argalias"] = func(p *Prog, fnPat, untr string) int {
		r := NewReport("DEV", "quick", 0)
		RunArgAlias(p, r)
		for _, o := range r.Obls {
			fmt.Printf("%v %s | %s | %s | %s\n", o.OK, o.Pos, strings.TrimPrefix(o.Func, modPath+"/"), o.Key, o.Detail)
		}
		return 0
	}
}
