package main

import (
	"go/types"
	"sort"

	"golang.org/x/tools/go/ssa"
)

// CallGraph is the restricted graph of DESIGN.md §2: static callees, class-hierarchy edges only at invoke
// sites on interfaces declared in the gnark module, closure creation edges, and signature-matched edges
// for calls through function values (restricted to address-taken module functions).
type CallGraph struct {
	p     *Prog
	Out   map[*ssa.Function][]*ssa.Function
	In    map[*ssa.Function][]*ssa.Function
	impls map[string][]*ssa.Function // iface-qualified-name.method -> implementations
	// address-taken module functions by signature string
	addrTaken map[string][]*ssa.Function
	allTypes  []types.Type
}

func modIface(t types.Type) (*types.Named, bool) {
	n, ok := t.(*types.Named)
	if !ok {
		if a, ok2 := t.(*types.Alias); ok2 {
			return modIface(types.Unalias(a))
		}
		return nil, false
	}
	if n.Obj().Pkg() == nil || !inModule(n.Obj().Pkg().Path()) {
		return nil, false
	}
	if _, ok := n.Underlying().(*types.Interface); !ok {
		return nil, false
	}
	return n, true
}

func BuildCallGraph(p *Prog) *CallGraph {
	g := &CallGraph{p: p, Out: map[*ssa.Function][]*ssa.Function{}, In: map[*ssa.Function][]*ssa.Function{}, impls: map[string][]*ssa.Function{}, addrTaken: map[string][]*ssa.Function{}}
	// candidate concrete types: named types of module packages + runtime types
	seenT := map[string]bool{}
	addT := func(t types.Type) {
		k := t.String()
		if !seenT[k] {
			seenT[k] = true
			g.allTypes = append(g.allTypes, t)
		}
	}
	for path, sp := range p.SPkg {
		if !inModule(path) {
			continue
		}
		for _, m := range sp.Members {
			if tp, ok := m.(*ssa.Type); ok {
				if isGenericNamed(tp.Type()) {
					continue
				}
				if _, isI := tp.Type().Underlying().(*types.Interface); isI {
					continue
				}
				addT(tp.Type())
				addT(types.NewPointer(tp.Type()))
			}
		}
	}
	for _, t := range p.SSA.RuntimeTypes() {
		if _, isI := t.Underlying().(*types.Interface); isI {
			continue
		}
		addT(t)
	}
	// all functions including instantiations reachable syntactically: start from p.Funcs and expand
	work := append([]*ssa.Function{}, p.Funcs...)
	seen := map[*ssa.Function]bool{}
	for _, f := range work {
		seen[f] = true
	}
	// address-taken functions
	for _, fn := range p.Funcs {
		for _, b := range fn.Blocks {
			for _, ins := range b.Instrs {
				var ops []*ssa.Value
				ops = ins.Operands(ops)
				for i, op := range ops {
					f, ok := (*op).(*ssa.Function)
					if !ok {
						continue
					}
					// skip the callee position of a call
					if cc, ok := ins.(ssa.CallInstruction); ok && i == 0 && cc.Common().Value == f && !cc.Common().IsInvoke() {
						continue
					}
					g.addrTaken[f.Signature.String()] = append(g.addrTaken[f.Signature.String()], f)
				}
				if mc, ok := ins.(*ssa.MakeClosure); ok {
					f := mc.Fn.(*ssa.Function)
					g.addrTaken[f.Signature.String()] = append(g.addrTaken[f.Signature.String()], f)
				}
			}
		}
	}
	for len(work) > 0 {
		fn := work[len(work)-1]
		work = work[:len(work)-1]
		add := func(c *ssa.Function) {
			if c == nil {
				return
			}
			g.Out[fn] = append(g.Out[fn], c)
			g.In[c] = append(g.In[c], fn)
			if !seen[c] && c.Blocks != nil {
				if pk := FuncPkg(c); pk != nil && inModule(pk.Path()) {
					seen[c] = true
					work = append(work, c)
				}
			}
		}
		for _, b := range fn.Blocks {
			for _, ins := range b.Instrs {
				if mc, ok := ins.(*ssa.MakeClosure); ok {
					add(mc.Fn.(*ssa.Function))
				}
				ci, ok := ins.(ssa.CallInstruction)
				if !ok {
					continue
				}
				for _, c := range g.Callees(ci.Common()) {
					add(c)
				}
			}
		}
	}
	for f, outs := range g.Out {
		g.Out[f] = dedupFuncs(outs)
	}
	for f, ins := range g.In {
		g.In[f] = dedupFuncs(ins)
	}
	return g
}

func dedupFuncs(fs []*ssa.Function) []*ssa.Function {
	m := map[*ssa.Function]bool{}
	var out []*ssa.Function
	for _, f := range fs {
		if !m[f] {
			m[f] = true
			out = append(out, f)
		}
	}
	sort.Slice(out, func(i, j int) bool { return out[i].String() < out[j].String() })
	return out
}

// Callees resolves one call site.
func (g *CallGraph) Callees(c *ssa.CallCommon) []*ssa.Function {
	if c.IsInvoke() {
		n, ok := modIface(c.Value.Type())
		if !ok {
			return nil // foreign interface: leaf
		}
		key := n.String() + "." + c.Method.Name()
		if impl, ok := g.impls[key]; ok {
			return impl
		}
		iface := n.Underlying().(*types.Interface)
		loose := hasTypeParam(n)
		var out []*ssa.Function
		for _, t := range g.allTypes {
			if loose {
				if !looseImplements(g.p, t, iface) {
					continue
				}
			} else if !types.Implements(t, iface) {
				continue
			}
			sel := g.p.SSA.MethodSets.MethodSet(t).Lookup(c.Method.Pkg(), c.Method.Name())
			if sel == nil {
				continue
			}
			if f := g.p.SSA.MethodValue(sel); f != nil {
				out = append(out, f)
			}
		}
		out = dedupFuncs(out)
		g.impls[key] = out
		return out
	}
	if f := c.StaticCallee(); f != nil {
		return []*ssa.Function{f}
	}
	if _, ok := c.Value.(*ssa.Builtin); ok {
		return nil
	}
	// dynamic call through a function value: address-taken module functions with the same signature
	if sig, ok := c.Value.Type().Underlying().(*types.Signature); ok {
		return g.addrTaken[sig.String()]
	}
	return nil
}

// ReachableFrom returns the set of functions reachable from roots.
func (g *CallGraph) ReachableFrom(roots []*ssa.Function) map[*ssa.Function]bool {
	seen := map[*ssa.Function]bool{}
	work := append([]*ssa.Function{}, roots...)
	for _, r := range roots {
		seen[r] = true
	}
	for len(work) > 0 {
		f := work[len(work)-1]
		work = work[:len(work)-1]
		for _, c := range g.Out[f] {
			if !seen[c] {
				seen[c] = true
				work = append(work, c)
			}
		}
	}
	return seen
}

// CanReach returns the set of functions from which some function in targets is reachable (targets included).
func (g *CallGraph) CanReach(targets map[*ssa.Function]bool) map[*ssa.Function]bool {
	seen := map[*ssa.Function]bool{}
	var work []*ssa.Function
	for t := range targets {
		seen[t] = true
		work = append(work, t)
	}
	for len(work) > 0 {
		f := work[len(work)-1]
		work = work[:len(work)-1]
		for _, c := range g.In[f] {
			if !seen[c] {
				seen[c] = true
				work = append(work, c)
			}
		}
	}
	return seen
}

// hasTypeParam: the named type is instantiated with (or is) an unbound type parameter, as inside a generic body.
func hasTypeParam(n *types.Named) bool {
	if n.TypeArgs() == nil {
		return n.TypeParams().Len() > 0
	}
	for i := 0; i < n.TypeArgs().Len(); i++ {
		if _, ok := n.TypeArgs().At(i).(*types.TypeParam); ok {
			return true
		}
	}
	return false
}

// looseImplements: t has a method for every method name of iface (signatures ignored). Used only for
// interfaces instantiated with unbound type parameters, where types.Implements cannot decide; over-approximates.
func looseImplements(p *Prog, t types.Type, iface *types.Interface) bool {
	ms := p.SSA.MethodSets.MethodSet(t)
	if iface.NumMethods() == 0 {
		return false
	}
	for i := 0; i < iface.NumMethods(); i++ {
		m := iface.Method(i)
		if ms.Lookup(m.Pkg(), m.Name()) == nil {
			return false
		}
	}
	return true
}
