package main

import (
	"fmt"
	"go/token"
	"go/types"
	"sort"
	"strings"

	"golang.org/x/tools/go/ssa"
)

// codec engine (DESIGN.md 3.3): writers vs readers.

// splitTop splits "a,b{c,d},e" at top-level commas.
func splitTop(s string) []string {
	var out []string
	depth := 0
	cur := strings.Builder{}
	for _, r := range s {
		switch r {
		case '{', '(', '[':
			depth++
		case '}', ')', ']':
			depth--
		}
		if r == ',' && depth == 0 {
			out = append(out, cur.String())
			cur.Reset()
			continue
		}
		cur.WriteRune(r)
	}
	if cur.Len() > 0 {
		out = append(out, cur.String())
	}
	return out
}

// expandLiteral: "{e0,e1}[i]" -> [e0 e1]; anything else -> [s]
func expandLiteral(s string) []string {
	if strings.HasPrefix(s, "{") {
		// find matching brace
		depth := 0
		for i, r := range s {
			if r == '{' {
				depth++
			}
			if r == '}' {
				depth--
				if depth == 0 {
					rest := s[i+1:]
					if rest == "" || strings.HasPrefix(rest, "[") {
						return splitTop(s[1:i])
					}
					break
				}
			}
		}
	}
	return []string{s}
}

func normItem(s string) string {
	s = normIdx(s)
	if strings.HasPrefix(s, "$0") {
		return s
	}
	// element of a slice built by a method of the receiver (refsSlice()): shared by writer and reader
	if i := strings.Index(s, ").refsSlice($0)"); i > 0 {
		return "shared:refsSlice"
	}
	return "local"
}

var codecWriters = map[string]bool{"WriteTo": true, "WriteRawTo": true, "writeTo": true, "WriteDump": true}
var codecReaders = map[string]bool{"ReadFrom": true, "UnsafeReadFrom": true, "readFrom": true, "ReadDump": true}

// codecSeq extracts the ordered list of encoded / decoded items of fn; items that are alternatives of each
// other (same item in mutually exclusive branches, e.g. raw vs compressed) are merged.
func codecSeq(fn *ssa.Function) []string {
	seq, blks := codecSeqB(fn)
	var out []string
	for i, it := range seq {
		if i > 0 && it == seq[i-1] && blks[i] != blks[i-1] {
			noBack := func(from, to *ssa.BasicBlock) bool { return to.Dominates(from) } // skip back edges
			if !reach(blks[i-1], noBack)[blks[i]] && !reach(blks[i], noBack)[blks[i-1]] {
				continue
			}
		}
		out = append(out, it)
	}
	return out
}

var codecInlineDepth int

func codecSeqB(fn *ssa.Function) ([]string, []*ssa.BasicBlock) {
	var seq []string
	var blks []*ssa.BasicBlock
	defer func() {}()
	for _, b := range fn.Blocks {
		n0 := len(seq)
		_ = n0
		for _, ins := range b.Instrs {
			if st, ok := ins.(*ssa.Store); ok {
				// w.nbPublic = binary.BigEndian.Uint32(buf[:4])
				if vc, ok := st.Val.(*ssa.Call); ok {
					if cal := vc.Call.StaticCallee(); cal != nil && FuncPkg(cal) != nil && FuncPkg(cal).Path() == "encoding/binary" && strings.HasPrefix(cal.Name(), "Uint") {
						seq = append(seq, normItem(Desc(st.Addr)))
					}
				}
				for len(blks) < len(seq) {
					blks = append(blks, b)
				}
				continue
			}
			c, ok := ins.(*ssa.Call)
			if !ok {
				continue
			}
			cc := &c.Call
			name := ""
			if cc.IsInvoke() {
				name = cc.Method.Name()
			} else if cal := cc.StaticCallee(); cal != nil {
				name = funcBaseName(cal)
			}
			var args []ssa.Value
			if cc.IsInvoke() {
				args = append(args, cc.Value)
			}
			args = append(args, cc.Args...)
			switch {
			case (name == "Encode" || name == "Decode") && len(args) >= 2:
				for _, it := range expandLiteral(Desc(args[1])) {
					seq = append(seq, normItem(it))
				}
			case (codecWriters[name] || codecReaders[name]) && len(args) >= 2:
				// nested object: receiver rooted at $0 (not the receiver itself: that is delegation)
				d := normIdx(Desc(args[0]))
				if d == "$0" {
					seq = append(seq, "delegate:"+name)
				} else {
					for _, it := range expandLiteral(Desc(args[0])) {
						seq = append(seq, "nested:"+normItem(it))
					}
				}
			case cc.StaticCallee() != nil && !cc.IsInvoke() && cc.StaticCallee().Signature.Recv() == nil && (strings.HasPrefix(name, "Write") || strings.HasPrefix(name, "Read")) && FuncPkg(cc.StaticCallee()) != nil && inModule(FuncPkg(cc.StaticCallee()).Path()):
				// module helper such as io.WriteBytesShort(p.Challenge, w) / x, n, err := io.ReadBytesShort(r)
				if strings.HasPrefix(name, "Write") {
					for _, a := range args {
						if d := normItem(Desc(a)); d != "local" {
							seq = append(seq, "helper:"+d)
						}
					}
				} else {
					seq = append(seq, "helper:"+readSliceTarget(c))
				}
			case !cc.IsInvoke() && cc.StaticCallee() != nil && cc.StaticCallee().Blocks != nil && cc.StaticCallee() != fn && cc.StaticCallee().Signature.Recv() != nil && len(args) >= 1 && normIdx(Desc(args[0])) == "$0" && FuncPkg(cc.StaticCallee()) != nil && FuncPkg(fn) != nil && FuncPkg(cc.StaticCallee()).Path() == FuncPkg(fn).Path() && codecInlineDepth < 2:
				// a helper method of the same object (writeHeader / readHeader, a loop body extracted into a method):
				// its items are items of this codec, in place
				codecInlineDepth++
				sub := codecSeq(cc.StaticCallee())
				codecInlineDepth--
				seq = append(seq, sub...)
			case (name == "Write" || name == "Read") && len(args) == 3 && cc.StaticCallee() != nil && FuncPkg(cc.StaticCallee()) != nil && FuncPkg(cc.StaticCallee()).Path() == "encoding/binary":
				seq = append(seq, normItem(Desc(args[2])))
			case name == "WriteSlice" || name == "ReadSlice":
				// unsafe.WriteSlice(w, s) / s, n, err = unsafe.ReadSlice[T](r): recorded positionally
				if name == "WriteSlice" && len(args) >= 2 {
					seq = append(seq, "slice:"+normItem(Desc(args[1])))
				} else {
					seq = append(seq, "slice:"+readSliceTarget(c))
				}
			}
			for len(blks) < len(seq) {
				blks = append(blks, b)
			}
		}
		for len(blks) < len(seq) {
			blks = append(blks, b)
		}
	}
	return seq, blks
}

// readSliceTarget: where the result #0 of `x, n, err := ReadSlice(...)` is stored.
func readSliceTarget(c *ssa.Call) string {
	for _, r := range *c.Referrers() {
		ex, ok := r.(*ssa.Extract)
		if !ok || ex.Index != 0 {
			continue
		}
		for _, r2 := range *ex.Referrers() {
			if st, ok := r2.(*ssa.Store); ok && st.Val == ex {
				return normItem(Desc(st.Addr))
			}
		}
	}
	return "local"
}

type codecPair struct {
	typ    string
	writer *ssa.Function
	reader *ssa.Function
}

func findCodecPairs(p *Prog, scope func(string) bool) []codecPair {
	type methods map[string]*ssa.Function
	byType := map[string]methods{}
	for _, fn := range p.Funcs {
		if fn.Parent() != nil || fn.Synthetic != "" || fn.Signature.Recv() == nil {
			continue
		}
		pk := FuncPkg(fn)
		if pk == nil || !scope(pk.Path()) {
			continue
		}
		n := funcBaseName(fn)
		if !codecWriters[n] && !codecReaders[n] {
			continue
		}
		tn := pk.Path() + "." + namedName(fn.Signature.Recv().Type())
		if byType[tn] == nil {
			byType[tn] = methods{}
		}
		if _, dup := byType[tn][n]; !dup {
			byType[tn][n] = fn
		}
	}
	var out []codecPair
	var tns []string
	for tn := range byType {
		tns = append(tns, tn)
	}
	sort.Strings(tns)
	for _, tn := range tns {
		ms := byType[tn]
		for _, pr := range [][2]string{{"writeTo", "readFrom"}, {"WriteTo", "ReadFrom"}, {"WriteDump", "ReadDump"}} {
			w, r := ms[pr[0]], ms[pr[1]]
			if w != nil && r != nil {
				// skip pure delegating wrappers when the lower-case pair exists
				if pr[0] == "WriteTo" && ms["writeTo"] != nil && ms["readFrom"] != nil {
					continue
				}
				out = append(out, codecPair{tn, w, r})
			}
		}
	}
	return out
}

// RunCodecSeq compares writer and reader sequences and checks field coverage.
func RunCodecSeq(p *Prog, r *Report, scope func(string) bool) {
	for _, cp := range findCodecPairs(p, scope) {
		ws, rs := codecSeqInl(p, cp.writer), codecSeqInl(p, cp.reader)
		pkg := FuncPkg(cp.writer).Path()
		fname := FuncName(cp.writer)
		pos := p.Pos(FuncPos(cp.writer))
		key := "seq:" + funcBaseName(cp.writer) + "/" + funcBaseName(cp.reader)
		if len(ws) == 0 && len(rs) == 0 {
			r.Add(&Obligation{Rule: "CODEC-SEQ", Pkg: pkg, Func: fname, Key: key, Pos: pos, OK: true, Info: true, Detail: "no recognised encode/decode items (custom codec)"})
			continue
		}
		// writers may encode the same field twice in `raw` vs compressed branches: compare as sequences after
		// removing consecutive duplicates
		ok := len(ws) == len(rs)
		diff := ""
		if containsItem(ws, "shared:refsSlice") && containsItem(rs, "shared:refsSlice") {
			r.Pass("CODEC-SEQ", pkg, fname, key, pos, "writer and reader iterate the same refsSlice() of the receiver: symmetric by construction", true)
			continue
		}
		for i := 0; ok && i < len(ws); i++ {
			a, b := ws[i], rs[i]
			ka, kb := itemKind(a), itemKind(b)
			a, b = itemPath(a), itemPath(b)
			if strings.HasPrefix(ws[i], "delegate:") && strings.HasPrefix(rs[i], "delegate:") {
				continue
			}
			if ka == kb && (a == "local" || b == "local") {
				continue // a length / temporary on one side: position and kind agree
			}
			if a != b || ka != kb {
				ok = false
				diff = fmt.Sprintf("position %d: writer encodes %s, reader decodes %s", i, ws[i], rs[i])
			}
		}
		if !ok && diff == "" {
			diff = fmt.Sprintf("writer encodes %d items %v, reader decodes %d items %v", len(ws), ws, len(rs), rs)
		}
		if ok {
			r.Pass("CODEC-SEQ", pkg, fname, key, pos, fmt.Sprintf("%d items written and read back in the same order into the same fields", len(ws)), true)
		} else {
			r.Fail("CODEC-SEQ", pkg, fname, key, pos, "writer and reader disagree: "+diff)
		}
		// field coverage
		recvT := deref(cp.writer.Signature.Recv().Type())
		if st, isSt := recvT.Underlying().(*types.Struct); isSt {
			var leaves []string
			structLeaves("$0", recvT, st, 0, &leaves)
			covered := func(leaf string) bool {
				for _, it := range ws {
					it = itemPath(it)
					it = strings.ReplaceAll(constIdxStrip(it), "[]", "")
					if it == leaf || isPathPrefix(it, leaf) || isPathPrefix(leaf, it) {
						return true
					}
				}
				return false
			}
			hasDelegate := false
			for _, it := range ws {
				if strings.HasPrefix(it, "delegate:") {
					hasDelegate = true
				}
			}
			for _, leaf := range leaves {
				fk := "field:" + leaf
				if covered(leaf) || hasDelegate {
					r.Pass("CODEC-FIELDS", pkg, fname, fk, pos, "field is written by the encoder", !hasDelegate)
					continue
				}
				exempt := ""
				for ek, why := range codecFieldExempt {
					parts := strings.SplitN(ek, "|", 2)
					if parts[0] == Abstract(cp.typ) && (parts[1] == leaf || isPathPrefix(parts[1], leaf)) {
						exempt = why
					}
				}
				if exempt != "" {
					r.Pass("CODEC-FIELDS", pkg, fname, fk, pos, "reviewed: "+exempt, true)
					continue
				}
				// a local-encoded item may derive from the field (e.g. len, conversion): check dependence
				if writerDependsOn(cp.writer, leaf) {
					r.Pass("CODEC-FIELDS", pkg, fname, fk, pos, "field is encoded through a derived value", true)
					continue
				}
				r.Fail("CODEC-FIELDS", pkg, fname, fk, pos, "struct field "+leaf+" is neither written by the encoder nor listed as recomputed on decode")
			}
		}
	}
}

func itemKind(s string) string {
	for _, k := range []string{"nested:", "slice:", "helper:", "delegate:"} {
		if strings.HasPrefix(s, k) {
			return k
		}
	}
	return ""
}

func itemPath(s string) string { return strings.TrimPrefix(s, itemKind(s)) }

// codecSeqInl: codecSeq with pure delegation to a sibling method of the same receiver inlined.
func codecSeqInl(p *Prog, fn *ssa.Function) []string {
	seq := codecSeq(fn)
	for hop := 0; hop < 3 && len(seq) == 1 && strings.HasPrefix(seq[0], "delegate:"); hop++ {
		target := strings.TrimPrefix(seq[0], "delegate:")
		var callee *ssa.Function
		for _, b := range fn.Blocks {
			for _, ins := range b.Instrs {
				if c, ok := ins.(*ssa.Call); ok {
					if cal := c.Call.StaticCallee(); cal != nil && funcBaseName(cal) == target && cal.Blocks != nil {
						callee = cal
					}
				}
			}
		}
		if callee == nil {
			break
		}
		fn = callee
		seq = codecSeq(fn)
	}
	return seq
}

func dedupConsecutive(ss []string) []string {
	var out []string
	for i, s := range ss {
		if i > 0 && s == ss[i-1] && itemPath(s) != "local" {
			continue // the same field encoded in the raw and in the compressed branch
		}
		out = append(out, s)
	}
	return out
}

func structLeaves(prefix string, t types.Type, st *types.Struct, depth int, out *[]string) {
	for i := 0; i < st.NumFields(); i++ {
		f := st.Field(i)
		ft := f.Type()
		name := prefix + "." + f.Name()
		if inner, ok := ft.Underlying().(*types.Struct); ok && depth < 2 {
			if n, isN := ft.(*types.Named); !isN || (n.Obj().Pkg() != nil && inModule(n.Obj().Pkg().Path())) {
				structLeaves(name, ft, inner, depth+1, out)
				continue
			}
		}
		*out = append(*out, name)
	}
}

// writerDependsOn: some encoded item of the writer depends (backward slice) on the field.
func writerDependsOn(fn *ssa.Function, leaf string) bool {
	for _, b := range fn.Blocks {
		for _, ins := range b.Instrs {
			c, ok := ins.(*ssa.Call)
			if !ok {
				continue
			}
			name := ""
			if c.Call.IsInvoke() {
				name = c.Call.Method.Name()
			} else if cal := c.Call.StaticCallee(); cal != nil {
				name = funcBaseName(cal)
			}
			if name != "Encode" && name != "Write" && name != "WriteSlice" && !codecWriters[name] {
				continue
			}
			var vals []ssa.Value
			if c.Call.IsInvoke() {
				vals = append(vals, c.Call.Value)
			}
			vals = append(vals, c.Call.Args...)
			for _, d := range depsOfM(true, vals...) {
				d = strings.ReplaceAll(constIdxStrip(d), "[]", "")
				if d == leaf || isPathPrefix(leaf, d) || isPathPrefix(d, leaf) {
					return true
				}
			}
		}
	}
	return false
}

// fields deliberately not serialized (type|leaf -> reason)
var codecFieldExempt = map[string]string{
	"github.com/consensys/gnark/backend/groth16/<curve>.VerifyingKey|$0.e":           "recomputed by Precompute() on decode (CODEC-PRECOMPUTE)",
	"github.com/consensys/gnark/backend/groth16/<curve>.VerifyingKey|$0.G2.deltaNeg": "recomputed by Precompute() on decode (CODEC-PRECOMPUTE)",
	"github.com/consensys/gnark/backend/groth16/<curve>.VerifyingKey|$0.G2.gammaNeg": "recomputed by Precompute() on decode (CODEC-PRECOMPUTE)",
}

// RunCodecPrecompute: every success return of the verifying-key decoders passes Precompute().
func RunCodecPrecompute(p *Prog, r *Report) {
	fns := p.FuncsMatching("github.com/consensys/gnark/backend/groth16/<curve>.(*VerifyingKey).readFrom")
	if len(fns) < 7 {
		r.Fail("UNRESOLVED", "-", "-", "vk.readFrom", "-", fmt.Sprintf("%d instances of (*VerifyingKey).readFrom, confirmed 7", len(fns)))
	}
	for _, fn := range fns {
		pkg := FuncPkg(fn).Path()
		g := buildAccGraph(p, fn, "error")
		var pre *ssa.Call
		for _, b := range fn.Blocks {
			for _, ins := range b.Instrs {
				if c, ok := ins.(*ssa.Call); ok && strings.HasSuffix(CalleeName(&c.Call), ".(*VerifyingKey).Precompute") {
					pre = c
				}
			}
		}
		if pre == nil {
			r.Fail("CODEC-PRECOMPUTE", pkg, FuncName(fn), "precompute", p.Pos(FuncPos(fn)), "decoder no longer calls Precompute(): e(alpha,beta) and the negated G2 points stay zero / stale")
			continue
		}
		fw := g.forward(0, -1, -1, pre.Block().Index)
		bad := ""
		for _, a := range g.acceptingEnds() {
			if fw[a] {
				bad = p.Pos(lastInstr(g.nodes[a].blk).Pos())
			}
		}
		if bad == "" {
			r.Pass("CODEC-PRECOMPUTE", pkg, FuncName(fn), "precompute", p.Pos(pre.Pos()), "every successful return of the decoder passes Precompute()", true)
		} else {
			r.Fail("CODEC-PRECOMPUTE", pkg, FuncName(fn), "precompute", p.Pos(pre.Pos()), "a successful return ("+bad+") bypasses Precompute(): a decoded key can carry stale pairing / negated points")
		}
	}
}

func containsItem(ss []string, x string) bool {
	for _, s := range ss {
		if s == x {
			return true
		}
	}
	return false
}

// RunCodecCBOR: the CBOR decoder of constraint systems accepts whatever the encoder can emit (no element limits
// below the maximum), and the encoder is the deterministic core mode.
func RunCodecCBOR(p *Prog, r *Report) {
	limits := map[string]int64{}
	det := false
	var pos, dpos string
	for _, fn := range p.Funcs {
		pk := FuncPkg(fn)
		if pk == nil || pk.Path() != modPath+"/constraint" {
			continue
		}
		for _, b := range fn.Blocks {
			for _, ins := range b.Instrs {
				switch x := ins.(type) {
				case *ssa.Store:
					fa, ok := x.Addr.(*ssa.FieldAddr)
					if !ok || namedName(fa.X.Type()) != "DecOptions" {
						continue
					}
					if c, ok := x.Val.(*ssa.Const); ok && c.Value != nil {
						limits[fieldName(fa.X.Type(), fa.Field)] = c.Int64()
						pos = p.Pos(ins.Pos())
					}
				case *ssa.Call:
					if strings.HasSuffix(CalleeName(&x.Call), "cbor/v2.CoreDetEncOptions") {
						det = true
						dpos = p.Pos(ins.Pos())
					}
				}
			}
		}
	}
	for _, f := range []string{"MaxArrayElements", "MaxMapPairs"} {
		if limits[f] >= 1<<31-1 {
			r.Pass("CODEC-CBOR", modPath+"/constraint", "(*System).FromBytes", "declimit:"+f, pos, fmt.Sprintf("decoder limit %s = %d (maximum): every system the encoder can write can be read back", f, limits[f]), true)
		} else {
			r.Fail("CODEC-CBOR", modPath+"/constraint", "(*System).FromBytes", "declimit:"+f, pos, fmt.Sprintf("decoder limit %s is %d (library default 131072 when unset): a constraint system with more inputs / log entries / lookup entries is written but cannot be read back", f, limits[f]))
		}
	}
	if det {
		r.Pass("CODEC-CBOR", modPath+"/constraint", "(*System).ToBytes", "encmode:deterministic", dpos, "encoder built from cbor.CoreDetEncOptions (sorted map keys, canonical integers)", true)
	} else {
		r.Fail("CODEC-CBOR", modPath+"/constraint", "(*System).ToBytes", "encmode:deterministic", "-", "the CBOR encoder is no longer the deterministic core mode: serialized bytes may depend on map order")
	}
}

// RunCodecNoReadAhead (CODEC-EXACT): a decoder consumes exactly the bytes of its object — ReadFrom reports the
// count, and objects are written back to back on one stream. A reader function of the codec scope therefore never
// wraps the io.Reader it was given in a buffering reader (bufio.NewReader / NewReaderSize / NewScanner,
// io.ReadAll): the wrapper reads ahead and the bytes after the object are lost to the caller.
func RunCodecNoReadAhead(p *Prog, r *Report, scope func(string) bool) {
	const rule = "CODEC-EXACT"
	readAhead := map[string]bool{"bufio.NewReader": true, "bufio.NewReaderSize": true, "bufio.NewScanner": true, "io.ReadAll": true, "io/ioutil.ReadAll": true, "bufio.NewReadWriter": true}
	n := 0
	for _, fn := range p.Funcs {
		pk := FuncPkg(fn)
		if pk == nil || !scope(pk.Path()) || len(fn.Blocks) == 0 {
			continue
		}
		// functions that receive an io.Reader
		var rd *ssa.Parameter
		for _, pm := range fn.Params {
			if strings.HasSuffix(pm.Type().String(), "io.Reader") {
				rd = pm
			}
		}
		if rd == nil {
			continue
		}
		n++
		bad := ""
		var pos token.Pos
		for _, b := range fn.Blocks {
			for _, ins := range b.Instrs {
				c, ok := ins.(ssa.CallInstruction)
				if !ok {
					continue
				}
				cal := c.Common().StaticCallee()
				if cal == nil || cal.Pkg == nil {
					continue
				}
				name := cal.Pkg.Pkg.Path() + "." + cal.Name()
				if !readAhead[name] {
					continue
				}
				for _, a := range c.Common().Args {
					if dependsOnParams(a, fn, map[int]bool{paramIndex(rd): true}, nil) {
						bad, pos = name, ins.Pos()
					}
				}
			}
		}
		key := "reader:" + rd.Name()
		if bad != "" {
			r.Fail(rule, pk.Path(), FuncName(fn), key, p.Pos(pos), "the decoder wraps the caller's io.Reader with "+bad+", which reads ahead: bytes following the object on the stream are consumed and the reported byte count no longer equals what was taken from the reader")
		} else {
			r.Pass(rule, pk.Path(), FuncName(fn), key, p.Pos(FuncPos(fn)), "the io.Reader parameter is never wrapped in a read-ahead reader", false)
		}
	}
	if n < 20 {
		r.Fail("UNRESOLVED", "-", "-", "decoders with an io.Reader parameter", "-", fmt.Sprintf("%d found, confirmed at least 20", n))
	}
}
