package main

import (
	"fmt"
	"go/ast"
	"go/constant"
	"go/token"
	"go/types"
	"math/big"
	"sort"
	"strings"

	"golang.org/x/tools/go/packages"
)

// coeffid engine (DESIGN.md 3.4): every `switch` over a coefficient id whose cases name the special ids
// (CoeffIdZero/One/Two/MinusOne/MinusTwo) is interpreted symbolically on the syntax tree: the effect of each
// fast-path case must equal the effect of the default (table) case with the table coefficient replaced by the
// value the id stands for. The special slots of the coefficient tables must hold those values.

var coeffValues = map[string]int64{"CoeffIdZero": 0, "CoeffIdOne": 1, "CoeffIdTwo": 2, "CoeffIdMinusOne": -1, "CoeffIdMinusTwo": -2}

// ---- tiny polynomial algebra over symbols with integer exponents -----------------------------------------

type mono string // canonical "A^1*B^-1" (sorted); "" is the constant monomial

type poly map[mono]*big.Rat

func monoOf(exps map[string]int) mono {
	var ks []string
	for k, e := range exps {
		if e != 0 {
			ks = append(ks, fmt.Sprintf("%s^%d", k, e))
		}
	}
	sort.Strings(ks)
	return mono(strings.Join(ks, "*"))
}

func monoExps(m mono) map[string]int {
	out := map[string]int{}
	if m == "" {
		return out
	}
	for _, part := range strings.Split(string(m), "*") {
		i := strings.LastIndex(part, "^")
		var e int
		fmt.Sscanf(part[i+1:], "%d", &e)
		out[part[:i]] = e
	}
	return out
}

func pConst(n int64) poly {
	if n == 0 {
		return poly{}
	}
	return poly{"": big.NewRat(n, 1)}
}

func pSym(s string) poly { return poly{monoOf(map[string]int{s: 1}): big.NewRat(1, 1)} }

func (a poly) clone() poly {
	out := poly{}
	for k, v := range a {
		out[k] = new(big.Rat).Set(v)
	}
	return out
}

func (a poly) add(b poly, sign int64) poly {
	out := a.clone()
	for k, v := range b {
		t := new(big.Rat).Mul(v, big.NewRat(sign, 1))
		if o, ok := out[k]; ok {
			o.Add(o, t)
		} else {
			out[k] = t
		}
		if out[k].Sign() == 0 {
			delete(out, k)
		}
	}
	return out
}

func (a poly) mul(b poly) poly {
	out := poly{}
	for k1, v1 := range a {
		for k2, v2 := range b {
			e := monoExps(k1)
			for s, x := range monoExps(k2) {
				e[s] += x
			}
			m := monoOf(e)
			t := new(big.Rat).Mul(v1, v2)
			if o, ok := out[m]; ok {
				o.Add(o, t)
			} else {
				out[m] = t
			}
			if out[m].Sign() == 0 {
				delete(out, m)
			}
		}
	}
	return out
}

// inv: inverse of a single-monomial polynomial; ok=false otherwise.
func (a poly) inv() (poly, bool) {
	if len(a) != 1 {
		return nil, false
	}
	for k, v := range a {
		e := monoExps(k)
		for s := range e {
			e[s] = -e[s]
		}
		return poly{monoOf(e): new(big.Rat).Inv(v)}, true
	}
	return nil, false
}

// subst replaces symbol s by the constant n; ok=false when it would divide by zero.
func (a poly) subst(s string, n int64) (poly, bool) {
	out := poly{}
	for k, v := range a {
		e := monoExps(k)
		x := e[s]
		delete(e, s)
		c := new(big.Rat).Set(v)
		if x != 0 {
			if n == 0 {
				if x < 0 {
					return nil, false
				}
				continue // 0^x = 0
			}
			f := big.NewRat(n, 1)
			if x < 0 {
				f.Inv(f)
				x = -x
			}
			for i := 0; i < x; i++ {
				c.Mul(c, f)
			}
		}
		m := monoOf(e)
		if o, ok := out[m]; ok {
			o.Add(o, c)
		} else {
			out[m] = c
		}
		if out[m].Sign() == 0 {
			delete(out, m)
		}
	}
	return out, true
}

func (a poly) equal(b poly) bool {
	if len(a) != len(b) {
		return false
	}
	for k, v := range a {
		w, ok := b[k]
		if !ok || v.Cmp(w) != 0 {
			return false
		}
	}
	return true
}

func (a poly) String() string {
	if len(a) == 0 {
		return "0"
	}
	var ks []string
	for k, v := range a {
		m := string(k)
		if m == "" {
			m = "1"
		}
		ks = append(ks, v.RatString()+"·"+m)
	}
	sort.Strings(ks)
	return strings.Join(ks, " + ")
}

// ---- symbolic evaluation of a straight-line case body ---------------------------------------------------

type symState struct {
	info    *types.Info
	env     map[types.Object]poly // current value of identifiers (by object)
	written map[types.Object]bool
	ret     poly
	hasRet  bool
	panics  bool
	bad     string // unsupported construct
}

func (s *symState) objOf(e ast.Expr) types.Object {
	switch x := e.(type) {
	case *ast.Ident:
		if o := s.info.Uses[x]; o != nil {
			return o
		}
		return s.info.Defs[x]
	case *ast.UnaryExpr:
		if x.Op == token.AND {
			return s.objOf(x.X)
		}
	case *ast.StarExpr:
		return s.objOf(x.X)
	case *ast.ParenExpr:
		return s.objOf(x.X)
	}
	return nil
}

// symbolFor: canonical symbol of a non-local location expression (s.values[vID], X.Coefficients[cID], ...).
func (s *symState) symbolFor(e ast.Expr) (string, bool) {
	switch x := e.(type) {
	case *ast.UnaryExpr:
		if x.Op == token.AND {
			return s.symbolFor(x.X)
		}
	case *ast.ParenExpr:
		return s.symbolFor(x.X)
	case *ast.StarExpr:
		return s.symbolFor(x.X)
	case *ast.IndexExpr:
		if sel, ok := x.X.(*ast.SelectorExpr); ok {
			switch sel.Sel.Name {
			case "Coefficients":
				return "C", true
			case "values":
				return "V", true
			}
			return "F_" + sel.Sel.Name, true
		}
	}
	return "", false
}

func (s *symState) eval(e ast.Expr) poly {
	switch x := e.(type) {
	case *ast.ParenExpr:
		return s.eval(x.X)
	case *ast.CompositeLit:
		if len(x.Elts) == 0 {
			return poly{} // zero value
		}
	case *ast.CallExpr:
		return s.call(x)
	}
	if sym, ok := s.symbolFor(e); ok {
		return pSym(sym)
	}
	if o := s.objOf(e); o != nil {
		if v, ok := s.env[o]; ok {
			return v
		}
		// first read of an outer variable / parameter: its own symbol
		p := pSym("P_" + o.Name())
		s.env[o] = p
		return p
	}
	s.bad = "unsupported expression " + types.ExprString(e)
	return poly{}
}

func (s *symState) assign(target ast.Expr, v poly) {
	if o := s.objOf(target); o != nil {
		// make sure the initial symbol exists for outer variables so that "unchanged" compares equal
		if _, ok := s.env[o]; !ok {
			s.env[o] = pSym("P_" + o.Name())
		}
		s.env[o] = v
		s.written[o] = true
		return
	}
	s.bad = "unsupported assignment target " + types.ExprString(target)
}

// call evaluates recv.Method(args...) (possibly chained) and returns the new value of the receiver.
func (s *symState) call(c *ast.CallExpr) poly {
	sel, ok := c.Fun.(*ast.SelectorExpr)
	if !ok {
		if id, ok := c.Fun.(*ast.Ident); ok && id.Name == "panic" {
			s.panics = true
			return poly{}
		}
		s.bad = "unsupported call " + types.ExprString(c.Fun)
		return poly{}
	}
	// receiver may itself be a call (chaining): evaluate it first, it returns the receiver pointer
	recv := sel.X
	if inner, ok := recv.(*ast.CallExpr); ok {
		s.call(inner)
		// the receiver of the chained call is the receiver of the innermost call
		for {
			is, ok := inner.Fun.(*ast.SelectorExpr)
			if !ok {
				break
			}
			if in2, ok := is.X.(*ast.CallExpr); ok {
				inner = in2
				continue
			}
			recv = is.X
			break
		}
	}
	arg := func(i int) poly {
		if i < len(c.Args) {
			return s.eval(c.Args[i])
		}
		return poly{}
	}
	var v poly
	switch sel.Sel.Name {
	case "Set":
		v = arg(0)
	case "SetZero":
		v = poly{}
	case "SetOne":
		v = pConst(1)
	case "SetUint64", "SetInt64":
		if tv, ok := s.info.Types[c.Args[0]]; ok && tv.Value != nil {
			n, _ := constant.Int64Val(constant.ToInt(tv.Value))
			v = pConst(n)
		} else {
			s.bad = "non-constant " + sel.Sel.Name
		}
	case "Add":
		v = arg(0).add(arg(1), 1)
	case "Sub":
		v = arg(0).add(arg(1), -1)
	case "Double":
		v = arg(0).add(arg(0), 1)
	case "Neg":
		v = poly{}.add(arg(0), -1)
	case "Mul", "ScalarMultiplication":
		v = arg(0).mul(arg(1))
	case "Div":
		b, ok := arg(1).inv()
		if !ok {
			s.bad = "division by a non-monomial"
		}
		v = arg(0).mul(b)
	case "Inverse":
		b, ok := arg(0).inv()
		if !ok {
			s.bad = "inverse of a non-monomial"
		}
		v = b
	case "BigInt":
		// x.BigInt(&v): v := x ; result unused
		if len(c.Args) == 1 {
			s.assign(c.Args[0], s.eval(recv))
		}
		return s.eval(recv)
	default:
		s.bad = "unsupported method " + sel.Sel.Name
		return poly{}
	}
	s.assign(recv, v)
	return v
}

func (s *symState) stmts(list []ast.Stmt) {
	for _, st := range list {
		if s.hasRet || s.panics || s.bad != "" {
			return
		}
		switch x := st.(type) {
		case *ast.ReturnStmt:
			s.hasRet = true
			if len(x.Results) == 1 {
				s.ret = s.eval(x.Results[0])
			} else if len(x.Results) > 1 {
				s.bad = "multi-value return"
			}
		case *ast.ExprStmt:
			if c, ok := x.X.(*ast.CallExpr); ok {
				s.call(c)
			} else {
				s.bad = "unsupported expression statement"
			}
		case *ast.DeclStmt:
			gd, ok := x.Decl.(*ast.GenDecl)
			if !ok || gd.Tok != token.VAR {
				s.bad = "unsupported declaration"
				return
			}
			for _, sp := range gd.Specs {
				vs := sp.(*ast.ValueSpec)
				for i, n := range vs.Names {
					o := s.info.Defs[n]
					if i < len(vs.Values) {
						s.env[o] = s.eval(vs.Values[i])
					} else {
						s.env[o] = poly{}
					}
				}
			}
		case *ast.AssignStmt:
			if len(x.Lhs) == 1 && len(x.Rhs) == 1 {
				v := s.eval(x.Rhs[0])
				if x.Tok == token.DEFINE {
					if id, ok := x.Lhs[0].(*ast.Ident); ok {
						s.env[s.info.Defs[id]] = v
						continue
					}
				}
				s.assign(x.Lhs[0], v)
			} else {
				s.bad = "unsupported assignment"
			}
		case *ast.EmptyStmt:
		default:
			s.bad = fmt.Sprintf("unsupported statement %T", st)
		}
	}
}

type caseEffect struct {
	outer  map[string]poly // effect on outer variables (by name), only those written
	ret    poly
	hasRet bool
	panics bool
	bad    string
}

func evalCase(info *types.Info, body []ast.Stmt, locals map[types.Object]bool) *caseEffect {
	s := &symState{info: info, env: map[types.Object]poly{}, written: map[types.Object]bool{}}
	s.stmts(body)
	ce := &caseEffect{outer: map[string]poly{}, ret: s.ret, hasRet: s.hasRet && s.ret != nil, panics: s.panics, bad: s.bad}
	for o := range s.written {
		// locals declared inside the case body are not part of the effect
		if declaredIn(o, body) {
			continue
		}
		ce.outer[o.Name()] = s.env[o]
	}
	return ce
}

func declaredIn(o types.Object, body []ast.Stmt) bool {
	if len(body) == 0 {
		return false
	}
	return o.Pos() >= body[0].Pos() && o.Pos() <= body[len(body)-1].End()
}

// ---- driver ------------------------------------------------------------------------------------------------

func coeffConstName(info *types.Info, e ast.Expr) string {
	var id *ast.Ident
	switch x := e.(type) {
	case *ast.SelectorExpr:
		id = x.Sel
	case *ast.Ident:
		id = x
	}
	if id == nil {
		return ""
	}
	c, ok := info.Uses[id].(*types.Const)
	if !ok || c.Pkg() == nil || c.Pkg().Path() != modPath+"/constraint" {
		return ""
	}
	if _, ok := coeffValues[c.Name()]; ok {
		return c.Name()
	}
	return ""
}

func enclosingFuncName(pk *packages.Package, file *ast.File, pos token.Pos) string {
	name := "?"
	ast.Inspect(file, func(n ast.Node) bool {
		if fd, ok := n.(*ast.FuncDecl); ok && fd.Pos() <= pos && pos <= fd.End() {
			name = fd.Name.Name
			if fd.Recv != nil && len(fd.Recv.List) > 0 {
				name = "(" + types.ExprString(fd.Recv.List[0].Type) + ")." + name
			}
		}
		return true
	})
	return name
}

// RunCoeffSwitches checks every special-coefficient switch in packages accepted by scope.
func RunCoeffSwitches(p *Prog, r *Report, scope func(pkg string) bool) {
	var paths []string
	for path := range p.ByPth {
		if inModule(path) && scope(path) {
			paths = append(paths, path)
		}
	}
	sort.Strings(paths)
	for _, path := range paths {
		pk := p.ByPth[path]
		for _, file := range pk.Syntax {
			ord := map[string]int{}
			ast.Inspect(file, func(n ast.Node) bool {
				sw, ok := n.(*ast.SwitchStmt)
				if !ok || sw.Tag == nil {
					return true
				}
				type cc struct {
					names []string
					body  []ast.Stmt
				}
				var cases []cc
				var def []ast.Stmt
				hasDef := false
				special := false
				for _, cl := range sw.Body.List {
					clause := cl.(*ast.CaseClause)
					if clause.List == nil {
						def, hasDef = clause.Body, true
						continue
					}
					var names []string
					for _, e := range clause.List {
						if nm := coeffConstName(pk.TypesInfo, e); nm != "" {
							names = append(names, nm)
							special = true
						}
					}
					cases = append(cases, cc{names, clause.Body})
				}
				if !special {
					return true
				}
				fn := enclosingFuncName(pk, file, sw.Pos())
				ord[fn]++
				fkey := fmt.Sprintf("%s#%d", fn, ord[fn])
				pos := p.Pos(sw.Pos())
				if !hasDef {
					r.Add(&Obligation{Rule: "COEFF-SWITCH", Pkg: path, Func: fn, Key: fkey + ":no-default", Pos: pos, OK: true, Info: true, Detail: "switch without default case: not a fast-path switch"})
					return true
				}
				defEff := evalCase(pk.TypesInfo, def, nil)
				if defEff.bad != "" {
					r.Fail("COEFF-SWITCH", path, fn, fkey+":default", pos, "cannot interpret the table (default) case: "+defEff.bad)
					return true
				}
				for _, c := range cases {
					for _, nm := range c.names {
						key := fkey + ":" + nm
						eff := evalCase(pk.TypesInfo, c.body, nil)
						if eff.bad != "" {
							r.Fail("COEFF-SWITCH", path, fn, key, pos, "cannot interpret the fast path: "+eff.bad)
							continue
						}
						k := coeffValues[nm]
						if msg := compareEffects(eff, defEff, k); msg != "" {
							r.Fail("COEFF-SWITCH", path, fn, key, pos, fmt.Sprintf("fast path for %s (coefficient %d) differs from the table path: %s", nm, k, msg))
						} else {
							r.Pass("COEFF-SWITCH", path, fn, key, pos, fmt.Sprintf("fast path equals the table path with the coefficient set to %d", k), true)
						}
					}
				}
				return true
			})
		}
	}
}

func compareEffects(eff, def *caseEffect, k int64) string {
	if eff.panics {
		// acceptable only when the table path divides by the coefficient and k == 0
		for _, pv := range def.outer {
			if _, ok := pv.subst("C", k); !ok {
				return ""
			}
		}
		if def.hasRet {
			if _, ok := def.ret.subst("C", k); !ok {
				return ""
			}
		}
		return "fast path panics although the table path is defined"
	}
	if eff.hasRet != def.hasRet {
		return "one path returns a value, the other does not"
	}
	if def.hasRet {
		want, ok := def.ret.subst("C", k)
		if !ok {
			return "table path undefined for this coefficient"
		}
		if !eff.ret.equal(want) {
			return fmt.Sprintf("returns %s, table path gives %s", eff.ret, want)
		}
	}
	names := map[string]bool{}
	for n := range eff.outer {
		names[n] = true
	}
	for n := range def.outer {
		names[n] = true
	}
	for n := range names {
		have, ok1 := eff.outer[n]
		if !ok1 {
			have = pSym("P_" + n)
		}
		w, ok2 := def.outer[n]
		if !ok2 {
			w = pSym("P_" + n)
		}
		want, ok := w.subst("C", k)
		if !ok {
			return "table path undefined for this coefficient"
		}
		if !have.equal(want) {
			return fmt.Sprintf("%s becomes %s, table path gives %s", n, have, want)
		}
	}
	return ""
}

// RunCoeffTables checks the special slots of the coefficient tables and the predicate -> id mapping of AddCoeff.
func RunCoeffTables(p *Prog, r *Report) {
	var paths []string
	for path := range p.ByPth {
		if inModule(path) {
			paths = append(paths, path)
		}
	}
	sort.Strings(paths)
	predID := map[string]string{"IsZero": "CoeffIdZero", "IsOne": "CoeffIdOne", "Equal(&two)": "CoeffIdTwo", "Equal(&minusOne)": "CoeffIdMinusOne", "Equal(&minusTwo)": "CoeffIdMinusTwo"}
	for _, path := range paths {
		pk := p.ByPth[path]
		for _, file := range pk.Syntax {
			for _, d := range file.Decls {
				fd, ok := d.(*ast.FuncDecl)
				if !ok || fd.Body == nil {
					continue
				}
				fname := fd.Name.Name
				ast.Inspect(fd.Body, func(n ast.Node) bool {
					switch x := n.(type) {
					case *ast.CallExpr:
						// T[constraint.CoeffIdX].SetXxx(v)
						sel, ok := x.Fun.(*ast.SelectorExpr)
						if !ok {
							return true
						}
						ix, ok := sel.X.(*ast.IndexExpr)
						if !ok {
							return true
						}
						nm := coeffConstName(pk.TypesInfo, ix.Index)
						if nm == "" {
							return true
						}
						var got int64
						switch sel.Sel.Name {
						case "SetOne":
							got = 1
						case "SetZero":
							got = 0
						case "SetUint64", "SetInt64":
							tv, ok := pk.TypesInfo.Types[x.Args[0]]
							if !ok || tv.Value == nil {
								return true
							}
							got, _ = constant.Int64Val(constant.ToInt(tv.Value))
						default:
							return true
						}
						key := fname + ":slot:" + nm
						if got == coeffValues[nm] {
							r.Pass("COEFF-TABLE", path, fname, key, p.Pos(x.Pos()), fmt.Sprintf("slot %s initialised to %d", nm, got), true)
						} else {
							r.Fail("COEFF-TABLE", path, fname, key, p.Pos(x.Pos()), fmt.Sprintf("slot %s initialised to %d, the id stands for %d", nm, got, coeffValues[nm]))
						}
					case *ast.AssignStmt:
						// M[n] = constraint.CoeffIdX  (reverse map int64 -> id)
						if len(x.Lhs) == 1 && len(x.Rhs) == 1 {
							nm := coeffConstName(pk.TypesInfo, x.Rhs[0])
							if ix, ok := x.Lhs[0].(*ast.IndexExpr); ok && nm != "" {
								if tv, ok := pk.TypesInfo.Types[ix.Index]; ok && tv.Value != nil {
									got, _ := constant.Int64Val(constant.ToInt(tv.Value))
									key := fname + ":revmap:" + nm
									if got == coeffValues[nm] {
										r.Pass("COEFF-TABLE", path, fname, key, p.Pos(x.Pos()), fmt.Sprintf("reverse map %d -> %s", got, nm), true)
									} else {
										r.Fail("COEFF-TABLE", path, fname, key, p.Pos(x.Pos()), fmt.Sprintf("reverse map sends %d to %s, which stands for %d", got, nm, coeffValues[nm]))
									}
								}
							}
						}
					case *ast.IfStmt:
						// if c.IsZero() { cID = constraint.CoeffIdZero } ...
						call, ok := x.Cond.(*ast.CallExpr)
						if !ok || len(x.Body.List) != 1 {
							return true
						}
						as, ok := x.Body.List[0].(*ast.AssignStmt)
						if !ok || len(as.Rhs) != 1 {
							return true
						}
						nm := coeffConstName(pk.TypesInfo, as.Rhs[0])
						if nm == "" {
							return true
						}
						sel, ok := call.Fun.(*ast.SelectorExpr)
						if !ok {
							return true
						}
						pred := sel.Sel.Name
						if len(call.Args) == 1 {
							pred += "(" + types.ExprString(call.Args[0]) + ")"
						}
						key := fname + ":pred:" + nm
						want, known := predID[pred]
						switch {
						case known && want == nm:
							r.Pass("COEFF-TABLE", path, fname, key, p.Pos(x.Pos()), "predicate "+pred+" selects "+nm, true)
						case known:
							r.Fail("COEFF-TABLE", path, fname, key, p.Pos(x.Pos()), "predicate "+pred+" selects "+nm+" instead of "+want)
						default:
							r.Fail("COEFF-TABLE", path, fname, key, p.Pos(x.Pos()), "unrecognised predicate "+pred+" selects special id "+nm)
						}
					}
					return true
				})
			}
		}
	}
}
