package main

import (
	"fmt"
	"go/token"
	"go/types"
	"sort"
	"strings"

	"golang.org/x/tools/go/ssa"
)

// conc engine (DESIGN.md 3.6): channel protocol of the provers.

// instChanField: v is (a load of) a channel-typed field of the PLONK `instance`; returns the field name.
func instChanField(v ssa.Value) (string, bool) {
	for d := 0; d < 6 && v != nil; d++ {
		switch x := v.(type) {
		case *ssa.UnOp:
			if x.Op == token.MUL {
				v = x.X
				continue
			}
		case *ssa.FieldAddr:
			if namedName(x.X.Type()) == "instance" {
				if _, ok := deref(x.Type()).Underlying().(*types.Chan); ok {
					return fieldName(x.X.Type(), x.Field), true
				}
			}
			return "", false
		case *ssa.ChangeType:
			v = x.X
			continue
		}
		break
	}
	return "", false
}

func isCtxDone(v ssa.Value) bool {
	c, ok := v.(*ssa.Call)
	if !ok {
		return false
	}
	return c.Call.IsInvoke() && c.Call.Method.Name() == "Done" && strings.HasSuffix(namedQual(c.Call.Value.Type()), "context.Context")
}

type stageInfo struct {
	fn     *ssa.Function
	waits  map[string][]ssa.Instruction // chan field -> wait sites (own body)
	closes map[string][]ssa.Instruction
	callee []*ssa.Function // same-package static callees and closures
}

func collectStage(fn *ssa.Function) *stageInfo {
	si := &stageInfo{fn: fn, waits: map[string][]ssa.Instruction{}, closes: map[string][]ssa.Instruction{}}
	for _, b := range fn.Blocks {
		for _, ins := range b.Instrs {
			switch x := ins.(type) {
			case *ssa.Select:
				for _, st := range x.States {
					if st.Dir == types.RecvOnly {
						if f, ok := instChanField(st.Chan); ok {
							si.waits[f] = append(si.waits[f], ins)
						}
					}
				}
			case *ssa.UnOp:
				if x.Op == token.ARROW {
					if f, ok := instChanField(x.X); ok {
						si.waits[f] = append(si.waits[f], ins)
					}
				}
			case *ssa.Call:
				if bi, ok := x.Call.Value.(*ssa.Builtin); ok && bi.Name() == "close" {
					if f, ok := instChanField(x.Call.Args[0]); ok {
						si.closes[f] = append(si.closes[f], ins)
					}
				}
				if cal := x.Call.StaticCallee(); cal != nil && cal.Blocks != nil && FuncPkg(cal) == FuncPkg(fn) {
					si.callee = append(si.callee, cal)
					// a wait helper: select { case <-ctx.Done(): return err; case <-ch: } on its channel parameter,
					// called with a stage channel of the instance
					if pi := ctxWaitHelperParam(cal); pi >= 0 && pi < len(x.Call.Args) {
						if f, ok := instChanField(x.Call.Args[pi]); ok {
							si.waits[f] = append(si.waits[f], ins)
						}
					}
				}
			case *ssa.MakeClosure:
				si.callee = append(si.callee, x.Fn.(*ssa.Function))
			case *ssa.Go:
				if cal := x.Call.StaticCallee(); cal != nil && cal.Blocks != nil && FuncPkg(cal) == FuncPkg(fn) {
					si.callee = append(si.callee, cal)
				}
			}
		}
	}
	return si
}

// RunPlonkConc checks CONC-CTX, CONC-CLOSE and CONC-DAG on every backend/plonk/<curve> package.
func RunPlonkConc(p *Prog, r *Report) {
	concProg = p
	pkgs := map[string][]*ssa.Function{}
	for _, fn := range p.Funcs {
		pk := FuncPkg(fn)
		if pk != nil && Abstract(pk.Path()) == "github.com/consensys/gnark/backend/plonk/<curve>" {
			pkgs[pk.Path()] = append(pkgs[pk.Path()], fn)
		}
	}
	if len(pkgs) < 7 {
		r.Fail("UNRESOLVED", "-", "-", "plonk-packages", "-", fmt.Sprintf("found %d plonk backend packages, confirmed 7", len(pkgs)))
	}
	var paths []string
	for k := range pkgs {
		paths = append(paths, k)
	}
	sort.Strings(paths)
	for _, path := range paths {
		fns := pkgs[path]
		stages := map[*ssa.Function]*stageInfo{}
		for _, fn := range fns {
			stages[fn] = collectStage(fn)
		}
		// channel fields of instance
		chanFields := map[string]bool{}
		for _, fn := range fns {
			for f := range stages[fn].waits {
				chanFields[f] = true
			}
			for f := range stages[fn].closes {
				chanFields[f] = true
			}
		}
		// CONC-CTX
		nWaits := 0
		for _, fn := range fns {
			si := stages[fn]
			var fs []string
			for f := range si.waits {
				fs = append(fs, f)
			}
			sort.Strings(fs)
			for _, f := range fs {
				for i, ins := range si.waits[f] {
					nWaits++
					key := fmt.Sprintf("wait:%s#%d", f, i+1)
					if hc, isCall := ins.(*ssa.Call); isCall {
						// wait through a helper: the helper's own select was checked by ctxWaitHelperParam; the
						// error it returns on cancellation must be used by the stage
						if hasRealUse(hc) {
							r.Pass("CONC-CTX", path, FuncName(fn), key, p.Pos(ins.Pos()), "wait on instance."+f+" through "+funcBaseName(hc.Call.StaticCallee())+": a select with a ctx.Done() case that returns an error, whose result the stage tests", true)
						} else {
							r.Fail("CONC-CTX", path, FuncName(fn), key, p.Pos(ins.Pos()), "the error returned by the wait helper on cancellation is discarded: the stage continues after cancellation")
						}
						continue
					}
					sel, isSel := ins.(*ssa.Select)
					ok := false
					doneIdx := -1
					if isSel && sel.Blocking {
						for k, st := range sel.States {
							if st.Dir == types.RecvOnly && isCtxDone(st.Chan) {
								ok = true
								doneIdx = k
							}
						}
					}
					if ok && !selectCaseRejects(p, sel, doneIdx) {
						r.Fail("CONC-CTX", path, FuncName(fn), key, p.Pos(ins.Pos()), "the ctx.Done() case of the wait does not return an error: the stage continues after cancellation")
						continue
					}
					if ok {
						r.Pass("CONC-CTX", path, FuncName(fn), key, p.Pos(ins.Pos()), "wait on instance."+f+" is a select with a ctx.Done() case that returns an error", true)
					} else {
						r.Fail("CONC-CTX", path, FuncName(fn), key, p.Pos(ins.Pos()), "wait on instance."+f+" does not watch the cancellation context: if the producing stage failed, this stage blocks forever and Prove hangs")
					}
				}
			}
		}
		// CONC-CLOSE: every channel field is closed, in exactly one function, on every accepting exit of that function
		var cfs []string
		for f := range chanFields {
			cfs = append(cfs, f)
		}
		sort.Strings(cfs)
		closer := map[string]*ssa.Function{}
		for _, f := range cfs {
			var closers []*ssa.Function
			for _, fn := range fns {
				if len(stages[fn].closes[f]) > 0 {
					closers = append(closers, fn)
				}
			}
			key := "close:" + f
			if len(closers) == 0 {
				r.Fail("CONC-CLOSE", path, "-", key, "-", "instance."+f+" is waited on but never closed: its waiters can only be released by cancellation")
				continue
			}
			if len(closers) > 1 {
				r.Fail("CONC-CLOSE", path, FuncName(closers[1]), key, p.Pos(FuncPos(closers[1])), "instance."+f+" is closed in more than one function (double close panics)")
				continue
			}
			fn := closers[0]
			closer[f] = fn
			si := stages[fn]
			if len(si.closes[f]) != 1 {
				r.Fail("CONC-CLOSE", path, FuncName(fn), key, p.Pos(si.closes[f][1].Pos()), "instance."+f+" closed at more than one site in the same function")
				continue
			}
			cl := si.closes[f][0]
			// must-pass: no accepting exit reachable from entry while avoiding the close block
			kind := resultKind(fn)
			if kind == "" {
				// closure without result (goroutine body): every return must pass the close
				kind = "none"
			}
			okAll := true
			bad := ""
			if kind == "none" {
				seen := reach(fn.Blocks[0], func(from, to *ssa.BasicBlock) bool { return from == cl.Block() })
				if fn.Blocks[0] == cl.Block() {
					seen = map[*ssa.BasicBlock]bool{}
				}
				for b := range seen {
					if b == cl.Block() {
						continue
					}
					if _, isRet := lastInstr(b).(*ssa.Return); isRet {
						okAll = false
						bad = p.Pos(lastInstr(b).Pos())
					}
				}
			} else {
				g := buildAccGraph(p, fn, kind)
				fw := g.forward(0, -1, -1, cl.Block().Index)
				for _, a := range g.acceptingEnds() {
					if fw[a] {
						okAll = false
						bad = p.Pos(lastInstr(g.nodes[a].blk).Pos())
					}
				}
			}
			if okAll {
				r.Pass("CONC-CLOSE", path, FuncName(fn), key, p.Pos(cl.Pos()), "single close site, passed on every successful exit of the closing stage", true)
			} else {
				r.Fail("CONC-CLOSE", path, FuncName(fn), key, p.Pos(cl.Pos()), "a successful exit of the stage ("+bad+") does not pass close(instance."+f+"): waiters hang with no error to cancel them")
			}
		}
		// CONC-DAG: X depends on Y if the function closing X (or a same-package callee / closure of it) waits on Y
		waitsOf := func(fn *ssa.Function) map[string]bool {
			out := map[string]bool{}
			seen := map[*ssa.Function]bool{}
			var rec func(f *ssa.Function)
			rec = func(f *ssa.Function) {
				if seen[f] || stages[f] == nil {
					if seen[f] {
						return
					}
					seen[f] = true
					if f.Blocks != nil {
						st := collectStage(f)
						for w := range st.waits {
							out[w] = true
						}
						for _, c := range st.callee {
							rec(c)
						}
					}
					return
				}
				seen[f] = true
				for w := range stages[f].waits {
					out[w] = true
				}
				for _, c := range stages[f].callee {
					rec(c)
				}
			}
			rec(fn)
			return out
		}
		dep := map[string][]string{}
		for _, f := range cfs {
			if closer[f] == nil {
				continue
			}
			top := closer[f]
			for top.Parent() != nil {
				top = top.Parent()
			}
			for w := range waitsOf(closer[f]) {
				if w != f {
					dep[f] = append(dep[f], w)
				}
			}
			sort.Strings(dep[f])
		}
		// cycle detection
		color := map[string]int{}
		var cyc []string
		var dfs func(x string, stack []string) bool
		dfs = func(x string, stack []string) bool {
			color[x] = 1
			for _, y := range dep[x] {
				if color[y] == 1 {
					cyc = append(append([]string{}, stack...), x, y)
					return true
				}
				if color[y] == 0 && dfs(y, append(stack, x)) {
					return true
				}
			}
			color[x] = 2
			return false
		}
		found := false
		for _, f := range cfs {
			if color[f] == 0 && dfs(f, nil) {
				found = true
				break
			}
		}
		if found {
			r.Fail("CONC-DAG", path, "-", "stage-graph", "-", "wait-for cycle between prover stages: "+strings.Join(cyc, " -> "))
		} else {
			var es []string
			for _, f := range cfs {
				if len(dep[f]) > 0 {
					es = append(es, f+"<-{"+strings.Join(dep[f], ",")+"}")
				}
			}
			r.Pass("CONC-DAG", path, "-", "stage-graph", "-", fmt.Sprintf("wait-for graph over %d stage channels is acyclic: %s", len(cfs), strings.Join(es, " ")), true)
		}
		_ = nWaits
	}
}

// selectCaseRejects: the branch taken when select index == idx leads only to error returns.
func selectCaseRejects(p *Prog, sel *ssa.Select, idx int) bool {
	fn := sel.Parent()
	kind := resultKind(fn)
	if kind == "" {
		return true
	}
	g := buildAccGraph(p, fn, kind)
	canAccept := g.backward(g.acceptingEnds())
	// find `if index == idx` on the extracted index
	for _, ref := range *sel.Referrers() {
		ex, ok := ref.(*ssa.Extract)
		if !ok || ex.Index != 0 {
			continue
		}
		for _, r2 := range *ex.Referrers() {
			bo, ok := r2.(*ssa.BinOp)
			if !ok || bo.Op != token.EQL {
				continue
			}
			c, ok := bo.Y.(*ssa.Const)
			if !ok || c.Int64() != int64(idx) {
				continue
			}
			for _, r3 := range *bo.Referrers() {
				if iff, ok := r3.(*ssa.If); ok {
					t := g.edgeTo[iff.Block().Index][0]
					return !canAccept[t]
				}
			}
		}
	}
	// single remaining case / compiled differently: be lenient
	return true
}

// ---------------------------------------------------------------------------
// CONC-SIGNAL (Groth16 Prove, solver.run and other goroutine bodies with local channels):
// a goroutine that signals a local channel does so on every exit path.

func RunSignal(p *Prog, r *Report, pattern string, minInst int) {
	fns := p.FuncsMatching(pattern)
	if len(fns) < minInst {
		r.Fail("UNRESOLVED", "-", pattern, "anchor", "-", fmt.Sprintf("%d instance(s), confirmed %d", len(fns), minInst))
	}
	for _, top := range fns {
		pkg := FuncPkg(top).Path()
		// local channel cells
		cells := map[ssa.Value]string{}
		ord := 0
		var all []*ssa.Function
		var collect func(f *ssa.Function)
		collect = func(f *ssa.Function) {
			all = append(all, f)
			for _, a := range f.AnonFuncs {
				collect(a)
			}
		}
		collect(top)
		for _, f := range all {
			for _, b := range f.Blocks {
				for _, ins := range b.Instrs {
					if mc, ok := ins.(*ssa.MakeChan); ok {
						ord++
						c := chanCell(mc)
						cells[c] = fmt.Sprintf("chan#%d", ord)
					}
				}
			}
		}
		signalsIn := func(f *ssa.Function, cell ssa.Value) []ssa.Instruction {
			var out []ssa.Instruction
			for _, b := range f.Blocks {
				for _, ins := range b.Instrs {
					switch x := ins.(type) {
					case *ssa.Send:
						if chanCell(x.Chan) == cell {
							out = append(out, ins)
						}
					case *ssa.Call:
						if bi, ok := x.Call.Value.(*ssa.Builtin); ok && bi.Name() == "close" && chanCell(x.Call.Args[0]) == cell {
							out = append(out, ins)
						}
					case *ssa.Defer:
						if bi, ok := x.Call.Value.(*ssa.Builtin); ok && bi.Name() == "close" && chanCell(x.Call.Args[0]) == cell {
							out = append(out, ins)
						}
					}
				}
			}
			return out
		}
		var cellList []ssa.Value
		for c := range cells {
			cellList = append(cellList, c)
		}
		sort.Slice(cellList, func(i, j int) bool { return cells[cellList[i]] < cells[cellList[j]] })
		for _, cell := range cellList {
			name := cells[cell]
			producers := 0
			for _, f := range all {
				if f == top {
					continue
				}
				sig := signalsIn(f, cell)
				if len(sig) == 0 {
					continue
				}
				producers++
				sigBlocks := map[*ssa.BasicBlock]bool{}
				deferred := false
				for _, s := range sig {
					sigBlocks[s.Block()] = true
					if _, ok := s.(*ssa.Defer); ok && s.Block() == f.Blocks[0] {
						deferred = true
					}
				}
				bad := ""
				if !deferred {
					if !sigBlocks[f.Blocks[0]] {
						seen := reach(f.Blocks[0], func(from, to *ssa.BasicBlock) bool { return sigBlocks[from] })
						for b := range seen {
							if sigBlocks[b] {
								continue
							}
							if _, isRet := lastInstr(b).(*ssa.Return); isRet {
								bad = p.Pos(lastInstr(b).Pos())
							}
						}
					}
				}
				key := fmt.Sprintf("signal:%s in %s", name, strings.TrimPrefix(FuncName(f), FuncName(top)))
				if bad == "" {
					r.Pass("CONC-SIGNAL", pkg, FuncName(top), key, p.Pos(sig[0].Pos()), "every exit of the goroutine body sends on / closes its channel", true)
				} else {
					r.Fail("CONC-SIGNAL", pkg, FuncName(top), key, bad, "goroutine returns without signalling its channel: the receiver blocks forever")
				}
			}
			_ = producers
		}
	}
}

var ctxWaitMemo = map[*ssa.Function]int{}
var concProg *Prog

// ctxWaitHelperParam: index of the channel parameter of fn if fn is a context-aware wait helper (its only receive is
// a blocking select on that parameter with a ctx.Done() case that returns an error); -1 otherwise.
func ctxWaitHelperParam(fn *ssa.Function) int {
	if v, ok := ctxWaitMemo[fn]; ok {
		return v
	}
	ctxWaitMemo[fn] = -1
	res := fn.Signature.Results()
	if res.Len() != 1 || !isErrorType(res.At(0).Type()) {
		return -1
	}
	found := -1
	for _, b := range fn.Blocks {
		for _, ins := range b.Instrs {
			switch x := ins.(type) {
			case *ssa.UnOp:
				if x.Op == token.ARROW {
					return -1 // a bare receive
				}
			case *ssa.Select:
				if !x.Blocking || found >= 0 {
					return -1
				}
				done := -1
				chanParam := -1
				for k, st := range x.States {
					if st.Dir != types.RecvOnly {
						return -1
					}
					if isCtxDone(st.Chan) {
						done = k
						continue
					}
					if pm, ok := st.Chan.(*ssa.Parameter); ok {
						for i, q := range fn.Params {
							if q == pm {
								chanParam = i
							}
						}
					}
				}
				if done < 0 || chanParam < 0 || !selectCaseRejects(concProg, x, done) {
					return -1
				}
				found = chanParam
			}
		}
	}
	ctxWaitMemo[fn] = found
	return found
}
