package main

import (
	"fmt"
	"sort"
	"strings"

	"golang.org/x/tools/go/ssa"
)

// COPY-NOOP (flow areas): `copy(dst[lo:], src)` where dst was made in the same function with *length* lo (only its
// capacity is larger) copies nothing: the destination is an empty slice. Values that the surrounding code means to
// bind (commitment inputs, transcript data, claimed values) are then silently dropped while every test that runs the
// honest prover and verifier against each other still passes. The rule compares the canonical descriptors of the
// slice's low bound and of the make's length operand (go/ssa has no CSE, so `2*n` twice is two values with the same
// descriptor); it fires only when they are equal and the slice expression has no high bound beyond the length.
func RunCopyNoop(p *Prog, r *Report, scope func(string) bool) {
	type item struct {
		fn  *ssa.Function
		c   *ssa.Call
		bad bool
		why string
	}
	var items []item
	for _, fn := range p.Funcs {
		pk := FuncPkg(fn)
		if pk == nil || fn.Blocks == nil || !scope(pk.Path()) {
			continue
		}
		for _, b := range fn.Blocks {
			for _, ins := range b.Instrs {
				c, ok := ins.(*ssa.Call)
				if !ok || !isBuiltinCall(c, "copy") || len(c.Call.Args) != 2 {
					continue
				}
				sl, ok := c.Call.Args[0].(*ssa.Slice)
				if !ok || sl.Low == nil {
					continue
				}
				mk := madeSlice(sl.X, 0)
				if mk == nil {
					continue
				}
				lo, ln := exprKey(sl.Low), exprKey(mk.Len)
				it := item{fn: fn, c: c}
				if lo != "" && lo == ln {
					hi := ""
					if sl.High != nil {
						hi = exprKey(sl.High)
					}
					if sl.High == nil || hi == ln {
						it.bad = true
						it.why = fmt.Sprintf("destination made with length %s and sliced from %s: it is empty, the copy moves nothing", ln, lo)
					}
				}
				items = append(items, it)
			}
		}
	}
	sort.Slice(items, func(i, j int) bool { return items[i].c.Pos() < items[j].c.Pos() })
	seen := map[string]bool{}
	for _, it := range items {
		pos := p.Pos(it.c.Pos())
		if seen[pos] {
			continue
		}
		seen[pos] = true
		key := "copy@" + strings.TrimPrefix(Abstract(FuncName(it.fn)), modPath+"/")
		if it.bad {
			r.Fail("COPY-NOOP", FuncPkg(it.fn).Path(), FuncName(it.fn), key, pos, it.why+" — the source values are silently left out of what this buffer feeds (commitment / transcript / assertion)")
		} else {
			r.Pass("COPY-NOOP", FuncPkg(it.fn).Path(), FuncName(it.fn), key, pos, "copy into a sub-slice of a locally made buffer: the low bound differs from the buffer's length", true)
		}
	}
}

// madeSlice: the MakeSlice a value denotes (through re-slicing that keeps the base and local single-store cells).
func madeSlice(v ssa.Value, d int) *ssa.MakeSlice {
	if d > 4 {
		return nil
	}
	switch x := v.(type) {
	case *ssa.MakeSlice:
		return x
	case *ssa.UnOp:
		if al, ok := x.X.(*ssa.Alloc); ok {
			if sv := singleStore(al); sv != nil {
				return madeSlice(sv, d+1)
			}
		}
	}
	return nil
}

// exprKey: canonical descriptor of an integer expression; "" when it contains a call other than len/cap.
func exprKey(v ssa.Value) string {
	switch x := v.(type) {
	case *ssa.Const:
		return x.Value.ExactString()
	case *ssa.Convert:
		return exprKey(x.X)
	case *ssa.BinOp:
		a, b := exprKey(x.X), exprKey(x.Y)
		if a == "" || b == "" {
			return ""
		}
		return "(" + a + x.Op.String() + b + ")"
	case *ssa.Call:
		if isBuiltinCall(x, "len") || isBuiltinCall(x, "cap") {
			return x.Call.Value.Name() + "(" + normIdx(Desc(x.Call.Args[0])) + ")"
		}
		return ""
	case *ssa.Parameter:
		return "$" + x.Name()
	case *ssa.Phi:
		return ""
	}
	d := Desc(v)
	if strings.Contains(d, "call:") || strings.Contains(d, "invoke:") || strings.Contains(d, "phi(") {
		return ""
	}
	return d
}
