package main

import (
	"encoding/json"
	"fmt"
	"go/ast"
	"go/token"
	"go/types"
	"os"
	"path/filepath"
	"sort"
	"strings"

	"golang.org/x/tools/go/ssa"
)

// ---------------------------------------------------------------------------
// scope

func compileScopePkg(path string) bool {
	if !inModule(path) {
		return false
	}
	rel := strings.TrimPrefix(strings.TrimPrefix(path, modPath), "/")
	for _, ex := range []string{"profile", "internal/stats", "internal/generator", "logger", "test", "backend", "examples", "internal/regression_tests", "internal/security_tests", "debug", "io"} {
		if rel == ex || strings.HasPrefix(rel, ex+"/") {
			return false
		}
	}
	for _, in := range []string{"frontend", "std", "constraint", "internal"} {
		if rel == in || strings.HasPrefix(rel, in+"/") {
			return true
		}
	}
	return rel == ""
}

// builder-state types: writing them during a map iteration makes the compiled system depend on iteration order
var stateTypeNames = map[string]bool{
	"github.com/consensys/gnark/constraint.System":                        true,
	"github.com/consensys/gnark/constraint/<curve>.system":                true,
	"github.com/consensys/gnark/constraint/<field>.system":                true,
	"github.com/consensys/gnark/constraint/<curve>.CoeffTable":            true,
	"github.com/consensys/gnark/constraint/<field>.CoeffTable":            true,
	"github.com/consensys/gnark/frontend/cs.CoeffTable":                   true,
	"github.com/consensys/gnark/frontend/cs/r1cs.builder":                 true,
	"github.com/consensys/gnark/frontend/cs/scs.builder":                  true,
	"github.com/consensys/gnark/internal/kvstore.genericStore":            true,
	"github.com/consensys/gnark/constraint.DebugInfo":                     true,
	"github.com/consensys/gnark/internal/circuitdefer.deferKey":           false,
	"github.com/consensys/gnark/std/multicommit.multicommitter":           true,
	"github.com/consensys/gnark/std/rangecheck.commitChecker":             true,
	"github.com/consensys/gnark/std/math/emulated.Field":                  true,
	"github.com/consensys/gnark/std/lookup/logderivlookup.Table":          true,
	"github.com/consensys/gnark/std/internal/logderivprecomp.Precomputed": true,
}

func isStateType(t types.Type) bool {
	t = deref(t)
	n, ok := t.(*types.Named)
	if !ok {
		return false
	}
	if n.Obj().Pkg() == nil {
		return false
	}
	q := Abstract(n.Obj().Pkg().Path() + "." + n.Obj().Name())
	return stateTypeNames[q]
}

// addrTouchesState: the address expression passes through a builder-state object.
func addrTouchesState(v ssa.Value, depth int) bool {
	if depth > 12 || v == nil {
		return false
	}
	if isStateType(v.Type()) {
		return true
	}
	switch x := v.(type) {
	case *ssa.FieldAddr:
		return addrTouchesState(x.X, depth+1)
	case *ssa.IndexAddr:
		return addrTouchesState(x.X, depth+1)
	case *ssa.UnOp:
		if x.Op == token.MUL {
			return addrTouchesState(x.X, depth+1)
		}
	case *ssa.Slice:
		return addrTouchesState(x.X, depth+1)
	case *ssa.Field:
		return addrTouchesState(x.X, depth+1)
	}
	return false
}

type detEngine struct {
	p       *Prog
	cg      *CallGraph
	prim    map[*ssa.Function]bool // primitive mutators of builder state
	effect  map[*ssa.Function]bool // functions that can reach a primitive mutator
	allowed *detAllow
}

type detAllow struct {
	Comment  string            `json:"comment"`
	MapRange map[string]string `json:"maprange"` // key -> reason
	Globals  map[string]string `json:"globals"`  // key -> reason
	Sources  map[string]string `json:"sources"`  // key -> reason
}

func loadDetAllow() (*detAllow, error) {
	b, err := os.ReadFile(filepath.Join(verifDir, "rules", "determinism.json"))
	if err != nil {
		return nil, err
	}
	var a detAllow
	if err := json.Unmarshal(b, &a); err != nil {
		return nil, err
	}
	return &a, nil
}

func newDetEngine(p *Prog) (*detEngine, error) {
	a, err := loadDetAllow()
	if err != nil {
		return nil, err
	}
	e := &detEngine{p: p, cg: BuildCallGraph(p), prim: map[*ssa.Function]bool{}, allowed: a}
	for _, fn := range p.Funcs {
		if e.writesState(fn) {
			e.prim[fn] = true
		}
	}
	// instantiations that are not in p.Funcs
	for fn := range e.cg.Out {
		if !e.prim[fn] && fn.Blocks != nil && e.writesState(fn) {
			e.prim[fn] = true
		}
	}
	e.effect = e.cg.CanReach(e.prim)
	return e, nil
}

func (e *detEngine) writesState(fn *ssa.Function) bool {
	for _, b := range fn.Blocks {
		for _, ins := range b.Instrs {
			switch x := ins.(type) {
			case *ssa.Store:
				if addrTouchesState(x.Addr, 0) {
					return true
				}
			case *ssa.MapUpdate:
				if addrTouchesState(x.Map, 0) {
					return true
				}
			}
		}
	}
	return false
}

// ---------------------------------------------------------------------------
// DET-MAPRANGE

type mapLoop struct {
	fn     *ssa.Function
	rng    *ssa.Range
	header *ssa.BasicBlock
	body   map[*ssa.BasicBlock]bool
	ord    int
}

func findMapLoops(fn *ssa.Function) []*mapLoop {
	var out []*mapLoop
	ord := 0
	for _, b := range fn.Blocks {
		for _, ins := range b.Instrs {
			r, ok := ins.(*ssa.Range)
			if !ok {
				continue
			}
			if _, isMap := r.X.Type().Underlying().(*types.Map); !isMap {
				continue
			}
			ord++
			ml := &mapLoop{fn: fn, rng: r, ord: ord, body: map[*ssa.BasicBlock]bool{}}
			for _, ref := range *r.Referrers() {
				if nx, ok := ref.(*ssa.Next); ok {
					ml.header = nx.Block()
				}
			}
			if ml.header != nil {
				// natural loop of the header: back-edge sources (predecessors dominated by the header) and
				// everything that reaches them without passing through the header
				var work []*ssa.BasicBlock
				for _, pr := range ml.header.Preds {
					if pr != ml.header && ml.header.Dominates(pr) && !ml.body[pr] {
						ml.body[pr] = true
						work = append(work, pr)
					}
				}
				for len(work) > 0 {
					x := work[len(work)-1]
					work = work[:len(work)-1]
					for _, pr := range x.Preds {
						if pr == ml.header || ml.body[pr] || !ml.header.Dominates(pr) {
							continue
						}
						ml.body[pr] = true
						work = append(work, pr)
					}
				}
			}
			out = append(out, ml)
		}
	}
	return out
}

type loopEffect struct {
	kind string
	pos  token.Pos
	desc string
}

func (e *detEngine) loopEffects(ml *mapLoop) []loopEffect {
	var effs []loopEffect
	fn := ml.fn
	for _, b := range fn.Blocks {
		if !ml.body[b] {
			continue
		}
		for _, ins := range b.Instrs {
			switch x := ins.(type) {
			case ssa.CallInstruction:
				cc := x.Common()
				if bi, ok := cc.Value.(*ssa.Builtin); ok {
					if bi.Name() == "append" {
						if v, ok := ins.(ssa.Value); ok && e.appendEscapesUnsorted(ml, v) {
							effs = append(effs, loopEffect{"unsorted-append", ins.Pos(), "append to a slice that outlives the loop and is not sorted afterwards: " + Desc(cc.Args[0])})
						}
					}
					continue
				}
				for _, c := range e.cg.Callees(cc) {
					if e.effect[c] {
						effs = append(effs, loopEffect{"compile-effect-call", ins.Pos(), "call to " + Abstract(FuncName(c)) + " which can modify the constraint system / builder state"})
						break
					}
				}
				// writes to an io.Writer / encoder inside the loop
				name := CalleeName(cc)
				if strings.HasPrefix(name, "invoke:io.Writer.") || strings.HasPrefix(name, "fmt.Fprint") || strings.Contains(name, "Encoder).Encode") {
					effs = append(effs, loopEffect{"ordered-output", ins.Pos(), "write to an output stream: " + name})
				}
			case *ssa.Send:
				effs = append(effs, loopEffect{"chan-send", ins.Pos(), "channel send"})
			case *ssa.Store:
				if addrTouchesState(x.Addr, 0) {
					effs = append(effs, loopEffect{"state-store", ins.Pos(), "store into builder state " + Desc(x.Addr)})
				}
			case *ssa.Return:
				// return from inside the loop of a value taken from the iteration (first match wins)
				for _, rv := range x.Results {
					if isErrorType(rv.Type()) {
						continue
					}
					if dependsOnValue(rv, ml.rng) {
						effs = append(effs, loopEffect{"first-match-return", ins.Pos(), "returns a value taken from the current map entry: " + Desc(rv)})
						break
					}
				}
			}
		}
	}
	return effs
}

// dependsOnValue: v's backward slice reaches instruction `on`.
func dependsOnValue(v ssa.Value, on ssa.Value) bool {
	s := newSlicer()
	s.noObj = true
	s.visit(v)
	if s.seen[on] {
		return true
	}
	// Next/Extract of the range
	for w := range s.seen {
		if nx, ok := w.(*ssa.Next); ok && nx.Iter == on {
			return true
		}
	}
	return false
}

// appendEscapesUnsorted: the appended slice flows (through phis / stores) to a use after the loop
// and no sort call receives it in the function.
func (e *detEngine) appendEscapesUnsorted(ml *mapLoop, app ssa.Value) bool {
	fn := ml.fn
	// collect the alias set of the slice variable: phis and stores connected to app
	alias := map[ssa.Value]bool{app: true}
	cells := map[ssa.Value]bool{}
	work := []ssa.Value{app}
	for len(work) > 0 {
		v := work[len(work)-1]
		work = work[:len(work)-1]
		refs := v.Referrers()
		if refs == nil {
			continue
		}
		for _, r := range *refs {
			switch x := r.(type) {
			case *ssa.Phi:
				if !alias[x] {
					alias[x] = true
					work = append(work, x)
				}
			case *ssa.Store:
				if x.Val == v {
					cells[x.Addr] = true
				}
			case *ssa.Slice:
				if !alias[x] {
					alias[x] = true
					work = append(work, x)
				}
			case *ssa.ChangeType:
				if !alias[x] {
					alias[x] = true
					work = append(work, x)
				}
			}
		}
	}
	// loads from the cells outside/inside
	for c := range cells {
		if refs := c.Referrers(); refs != nil {
			for _, r := range *refs {
				if u, ok := r.(*ssa.UnOp); ok && u.Op == token.MUL {
					alias[u] = true
				}
			}
		}
		// the cell itself being a field of builder state is handled by state-store
	}
	escapes := false
	sorted := false
	for v := range alias {
		refs := v.Referrers()
		if refs == nil {
			continue
		}
		for _, r := range *refs {
			if ml.body[r.Block()] {
				// uses inside the loop other than feeding the next append do not matter here
				if ci, ok := r.(ssa.CallInstruction); ok {
					if isSortCall(ci.Common()) {
						sorted = true
					}
				}
				continue
			}
			switch x := r.(type) {
			case ssa.CallInstruction:
				if isSortCall(x.Common()) {
					sorted = true
				} else if bi, ok := x.Common().Value.(*ssa.Builtin); ok && (bi.Name() == "len" || bi.Name() == "cap") {
				} else {
					escapes = true
				}
			case *ssa.Return, *ssa.Store, *ssa.Range, *ssa.IndexAddr, *ssa.Index, *ssa.MakeInterface, *ssa.Send, *ssa.MapUpdate:
				escapes = true
			}
		}
	}
	// cells that are fields (not local allocs) escape by definition
	for c := range cells {
		if _, ok := c.(*ssa.Alloc); !ok {
			escapes = true
		} else {
			// sort.Slice(x, ...) on a load of the cell handled through alias; closures capturing the cell
			for _, r := range *c.Referrers() {
				if _, ok := r.(*ssa.MakeClosure); ok {
					escapes = true
				}
			}
		}
	}
	if !sorted {
		// sort call anywhere in the function on a value loaded from one of the cells / alias
		for _, b := range fn.Blocks {
			for _, ins := range b.Instrs {
				ci, ok := ins.(ssa.CallInstruction)
				if !ok || !isSortCall(ci.Common()) {
					continue
				}
				for _, a := range ci.Common().Args {
					base := a
					if mi, ok := base.(*ssa.MakeInterface); ok {
						base = mi.X
					}
					if ct, ok := base.(*ssa.ChangeType); ok {
						base = ct.X
					}
					if alias[base] {
						sorted = true
					}
					if u, ok := base.(*ssa.UnOp); ok && cells[u.X] {
						sorted = true
					}
				}
			}
		}
	}
	return escapes && !sorted
}

func isSortCall(c *ssa.CallCommon) bool {
	f := c.StaticCallee()
	if f == nil {
		return false
	}
	pk := FuncPkg(f)
	if pk == nil {
		return false
	}
	switch pk.Path() {
	case "sort":
		return true
	case "slices":
		return strings.HasPrefix(f.Name(), "Sort")
	}
	return false
}

func (e *detEngine) RunMapRange(r *Report, rule string, scope func(string) bool) {
	for _, fn := range e.p.Funcs {
		pk := FuncPkg(fn)
		if pk == nil || !scope(pk.Path()) {
			continue
		}
		for _, ml := range findMapLoops(fn) {
			effs := e.loopEffects(ml)
			fname := FuncName(fn)
			key := fmt.Sprintf("maprange#%d:%s", ml.ord, Desc(ml.rng.X))
			pos := e.p.Pos(ml.rng.Pos())
			if len(effs) == 0 {
				r.Pass(rule, pk.Path(), fname, key, pos, "loop body is order-insensitive: no call reaching builder/constraint-system mutators, no escaping unsorted append, no ordered output, no send, no entry-dependent return", false)
				continue
			}
			kinds := map[string]bool{}
			var descs []string
			for _, ef := range effs {
				kinds[ef.kind] = true
				descs = append(descs, fmt.Sprintf("%s at %s (%s)", ef.kind, e.p.Pos(ef.pos), ef.desc))
			}
			var ks []string
			for k := range kinds {
				ks = append(ks, k)
			}
			sort.Strings(ks)
			key += " effects=" + strings.Join(ks, ",")
			ak := Abstract(fname) + "|" + Abstract(key)
			if why, ok := e.allowed.MapRange[ak]; ok {
				r.Pass(rule, pk.Path(), fname, key, pos, "reviewed exception: "+why, true)
				continue
			}
			if len(descs) > 4 {
				descs = descs[:4]
			}
			if os.Getenv("GNARKLINT_ALLOWKEYS") != "" {
				fmt.Printf("ALLOWKEY maprange %s\n", ak)
			}
			r.Fail(rule, pk.Path(), fname, key, pos, "order-sensitive effect under range over map: "+strings.Join(descs, "; "))
		}
	}
}

// ---------------------------------------------------------------------------
// DET-GLOBAL: package-level mutable state touched by compile-time code

type globalUse struct {
	g    *ssa.Global
	kind string // store | mapupdate | escape | mutcall
	ins  ssa.Instruction
	desc string
}

var mutatingMethods = map[string]bool{
	"Store": true, "LoadOrStore": true, "Delete": true, "Swap": true, "CompareAndSwap": true, "LoadAndDelete": true, "Add": true, "Put": true, "Range": false,
}

func globalUses(fn *ssa.Function) []globalUse {
	var out []globalUse
	// values derived from a global by pure address arithmetic / loads
	var rootGlobal func(v ssa.Value, depth int) *ssa.Global
	rootGlobal = func(v ssa.Value, depth int) *ssa.Global {
		if depth > 10 || v == nil {
			return nil
		}
		switch x := v.(type) {
		case *ssa.Global:
			return x
		case *ssa.FieldAddr:
			return rootGlobal(x.X, depth+1)
		case *ssa.IndexAddr:
			return rootGlobal(x.X, depth+1)
		case *ssa.UnOp:
			if x.Op == token.MUL {
				return rootGlobal(x.X, depth+1)
			}
		case *ssa.Field:
			return rootGlobal(x.X, depth+1)
		case *ssa.Slice:
			return rootGlobal(x.X, depth+1)
		}
		return nil
	}
	for _, b := range fn.Blocks {
		for _, ins := range b.Instrs {
			switch x := ins.(type) {
			case *ssa.Store:
				if g := rootGlobal(x.Addr, 0); g != nil {
					out = append(out, globalUse{g, "store", ins, "store to " + Desc(x.Addr)})
				}
				if g, ok := x.Val.(*ssa.Global); ok {
					out = append(out, globalUse{g, "escape", ins, "address stored"})
				}
			case *ssa.MapUpdate:
				if g := rootGlobal(x.Map, 0); g != nil {
					out = append(out, globalUse{g, "mapupdate", ins, "map update of " + Desc(x.Map)})
				}
			case *ssa.Return:
				for _, rv := range x.Results {
					if g, ok := rv.(*ssa.Global); ok {
						out = append(out, globalUse{g, "escape", ins, "address returned"})
					}
				}
			case ssa.CallInstruction:
				cc := x.Common()
				if cc.IsInvoke() {
					// a stateful object (hasher, writer, buffer) kept in a package-level variable and driven through
					// its interface: Write / Reset / Sum sequences of different compilations interleave
					if g := rootGlobal(cc.Value, 0); g != nil {
						switch cc.Method.Name() {
						case "Write", "WriteString", "WriteByte", "Reset", "Sum", "Read", "Seek":
							out = append(out, globalUse{g, "mutcall", ins, "stateful interface method " + cc.Method.Name() + " on an object held in a package-level variable"})
						}
					}
				}
				for i, a := range cc.Args {
					g := rootGlobal(a, 0)
					if g == nil {
						continue
					}
					// only addresses (pointers) matter; a loaded value passed by value is a read
					if _, isPtr := a.Type().Underlying().(*types.Pointer); !isPtr {
						if _, isMap := a.Type().Underlying().(*types.Map); !isMap {
							continue
						}
					}
					callee := cc.StaticCallee()
					if callee == nil {
						if cc.IsInvoke() {
							continue // interface method on a value stored in a global: contents, not the variable
						}
						out = append(out, globalUse{g, "escape", ins, "address passed to a dynamic call"})
						continue
					}
					cpk := FuncPkg(callee)
					if cpk != nil && inModule(cpk.Path()) && callee.Blocks != nil {
						// module callee: a mutation only if it writes through that parameter
						if i < len(callee.Params) && writesThroughParam(callee, callee.Params[i]) {
							out = append(out, globalUse{g, "mutcall", ins, "passed to " + Abstract(FuncName(callee)) + " which writes through it"})
						}
						continue
					}
					// foreign callee: receiver position with a mutating method name
					if i == 0 && callee.Signature.Recv() != nil {
						n := callee.Name()
						mut := mutatingMethods[n] || strings.HasPrefix(n, "Set") || strings.HasPrefix(n, "Write") || n == "Reset" || n == "Grow" || n == "Neg" || n == "Mul" || n == "Sub" || n == "Exp" || n == "Inverse" || n == "Double" || n == "Square" || n == "Mod" || n == "Lsh" || n == "Rsh"
						if cpk != nil && cpk.Path() == "sync" && (n == "Put" || n == "Get") {
							mut = false // sync.Pool: buffers carry no result-relevant state (reviewed: constraint.bufPool buffers are re-sliced to length 0)
						}
						if mut {
							out = append(out, globalUse{g, "mutcall", ins, "method " + shortFuncName(callee) + " on package-level object"})
						}
					}
				}
			}
		}
	}
	return out
}

func (e *detEngine) RunGlobals(r *Report, rule string, inScope map[*ssa.Function]bool) {
	for _, fn := range e.p.Funcs {
		if !inScope[fn] {
			continue
		}
		if pk0 := FuncPkg(fn); pk0 == nil || !compileScopePkg(pk0.Path()) {
			continue
		}
		if fn.Name() == "init" || strings.HasPrefix(fn.Name(), "init#") {
			continue
		}
		// closures of init are initialisation too
		top := fn
		for top.Parent() != nil {
			top = top.Parent()
		}
		if top.Name() == "init" || strings.HasPrefix(top.Name(), "init#") {
			continue
		}
		pk := FuncPkg(fn)
		ord := map[string]int{}
		for _, u := range globalUses(fn) {
			gname := u.g.Pkg.Pkg.Path() + "." + u.g.Name()
			k := u.kind + ":" + gname
			ord[k]++
			key := k
			ak := Abstract(FuncName(fn)) + "|" + Abstract(key)
			pos := e.p.Pos(u.ins.Pos())
			if why, ok := e.allowed.Globals[ak]; ok {
				r.Pass(rule, pk.Path(), FuncName(fn), key, pos, "reviewed: "+why, true)
				continue
			}
			if why, ok := e.allowed.Globals["*|"+Abstract(key)]; ok {
				r.Pass(rule, pk.Path(), FuncName(fn), key, pos, "reviewed: "+why, true)
				continue
			}
			if os.Getenv("GNARKLINT_ALLOWKEYS") != "" {
				fmt.Printf("ALLOWKEY globals %s\n", ak)
			}
			r.Fail(rule, pk.Path(), FuncName(fn), key, pos, "compile-time code mutates or leaks package-level state ("+u.desc+"): the result of a compilation can depend on earlier or concurrent compilations")
		}
	}
}

// ---------------------------------------------------------------------------
// DET-SOURCE: nondeterminism sources called from compile-time code

var detSources = map[string]string{
	"time.Now": "wall clock", "time.Since": "wall clock",
	"math/rand.Int": "PRNG", "math/rand.Intn": "PRNG", "math/rand.Uint64": "PRNG", "math/rand.Read": "PRNG", "math/rand.Perm": "PRNG", "math/rand.Shuffle": "PRNG",
	"crypto/rand.Read": "CSPRNG", "crypto/rand.Int": "CSPRNG",
	"os.Getpid": "process id", "os.Hostname": "host", "os.Getenv": "environment",
	"runtime.NumGoroutine": "scheduler", "runtime.NumCPU": "host",
	"reflect.(Value).MapKeys": "map order", "reflect.(Value).MapRange": "map order",
}

func (e *detEngine) RunSources(r *Report, rule string, inScope map[*ssa.Function]bool) {
	for _, fn := range e.p.Funcs {
		if !inScope[fn] {
			continue
		}
		if pk0 := FuncPkg(fn); pk0 == nil || !compileScopePkg(pk0.Path()) {
			continue
		}
		pk := FuncPkg(fn)
		ord := map[string]int{}
		for _, b := range fn.Blocks {
			for _, ins := range b.Instrs {
				var name string
				var why string
				switch x := ins.(type) {
				case ssa.CallInstruction:
					cc := x.Common()
					if f := cc.StaticCallee(); f != nil {
						n := FuncName(f)
						if w, ok := detSources[n]; ok {
							name, why = n, w
						}
						if fp := FuncPkg(f); fp != nil && (fp.Path() == "math/rand" || fp.Path() == "math/rand/v2") && name == "" {
							name, why = n, "PRNG"
						}
						if strings.HasSuffix(n, ".SetRandom") || strings.HasSuffix(n, ".MustSetRandom") {
							name, why = Abstract(n), "random field element"
						}
					}
					if _, isGo := ins.(*ssa.Go); isGo && name == "" {
						name, why = "go-statement", "goroutine whose completion order may be observed"
					}
				}
				if name == "" {
					continue
				}
				ord[name]++
				key := "source:" + name
				ak := Abstract(FuncName(fn)) + "|" + key
				pos := e.p.Pos(ins.Pos())
				if reason, ok := e.allowed.Sources[ak]; ok {
					r.Pass(rule, pk.Path(), FuncName(fn), key, pos, "reviewed: "+reason, true)
					continue
				}
				if os.Getenv("GNARKLINT_ALLOWKEYS") != "" {
					fmt.Printf("ALLOWKEY sources %s\n", ak)
				}
				r.Fail(rule, pk.Path(), FuncName(fn), key, pos, "compile-time code calls a nondeterminism source ("+why+")")
			}
		}
	}
}

// compileRoots: frontend.Compile* and every exported function / method of frontend/... and std/...
func (e *detEngine) compileRoots() []*ssa.Function {
	var roots []*ssa.Function
	for _, fn := range e.p.Funcs {
		if fn.Parent() != nil {
			continue
		}
		pk := FuncPkg(fn)
		if pk == nil {
			continue
		}
		rel := strings.TrimPrefix(strings.TrimPrefix(pk.Path(), modPath), "/")
		if !(rel == "frontend" || strings.HasPrefix(rel, "frontend/") || strings.HasPrefix(rel, "std/") || rel == "std") {
			continue
		}
		if !ast.IsExported(fn.Name()) {
			continue
		}
		roots = append(roots, fn)
	}
	return roots
}

// writesThroughParam: fn contains a store whose address is derived from parameter pm.
func writesThroughParam(fn *ssa.Function, pm *ssa.Parameter) bool {
	var root func(v ssa.Value, d int) ssa.Value
	root = func(v ssa.Value, d int) ssa.Value {
		if d > 10 {
			return nil
		}
		switch x := v.(type) {
		case *ssa.Parameter:
			return x
		case *ssa.FieldAddr:
			return root(x.X, d+1)
		case *ssa.IndexAddr:
			return root(x.X, d+1)
		case *ssa.UnOp:
			if x.Op == token.MUL {
				return root(x.X, d+1)
			}
		case *ssa.Slice:
			return root(x.X, d+1)
		}
		return nil
	}
	for _, b := range fn.Blocks {
		for _, ins := range b.Instrs {
			switch x := ins.(type) {
			case *ssa.Store:
				if root(x.Addr, 0) == pm {
					return true
				}
			case *ssa.MapUpdate:
				if root(x.Map, 0) == pm {
					return true
				}
			}
		}
	}
	return false
}
