package main

import (
	"encoding/json"
	"fmt"
	"go/token"
	"go/types"
	"os"
	"path/filepath"
	"sort"
	"strings"

	"golang.org/x/tools/go/ssa"
)

// ---------------------------------------------------------------------------
// EFF-SHARED: nothing reachable from Solve / Prove / Verify writes memory that belongs to the shared
// compiled system, keys or blueprints.

type effRules struct {
	Comment     string            `json:"comment"`
	Allowed     map[string]string `json:"allowed"`      // abstract func | key -> reason (reviewed benign writes)
	GuardedBy   []guardedBy       `json:"guarded_by"`   // package-level variable / mutex pairs
	GlobalRefOK map[string]string `json:"globalref_ok"` // abstract func | global -> reason (reviewed hand-outs of package-level containers)
}

type guardedBy struct {
	Var   string `json:"var"`   // pkgpath.Name (abstract)
	Mutex string `json:"mutex"` // pkgpath.Name (abstract)
	Min   int    `json:"min_accesses"`
}

func loadEffRules() (*effRules, error) {
	b, err := os.ReadFile(filepath.Join(verifDir, "rules", "effects.json"))
	if err != nil {
		return nil, err
	}
	var r effRules
	if err := json.Unmarshal(b, &r); err != nil {
		return nil, err
	}
	return &r, nil
}

func isSharedType(p *Prog, t types.Type, blueprintIface *types.Interface) (string, bool) {
	t = deref(t)
	n, ok := t.(*types.Named)
	if !ok || n.Obj().Pkg() == nil {
		return "", false
	}
	pp := n.Obj().Pkg().Path()
	if !inModule(pp) {
		return "", false
	}
	q := Abstract(pp + "." + n.Obj().Name())
	switch q {
	case "github.com/consensys/gnark/constraint.System",
		"github.com/consensys/gnark/constraint/<curve>.system", "github.com/consensys/gnark/constraint/<field>.system",
		"github.com/consensys/gnark/constraint/<curve>.CoeffTable", "github.com/consensys/gnark/constraint/<field>.CoeffTable",
		"github.com/consensys/gnark/backend/groth16/<curve>.ProvingKey", "github.com/consensys/gnark/backend/groth16/<curve>.VerifyingKey",
		"github.com/consensys/gnark/backend/plonk/<curve>.ProvingKey", "github.com/consensys/gnark/backend/plonk/<curve>.VerifyingKey",
		"github.com/consensys/gnark/backend/plonk/<curve>.Trace",
		"github.com/consensys/gnark/constraint.Groth16Commitments", "github.com/consensys/gnark/constraint.PlonkCommitments":
		return q, true
	}
	if pp == modPath+"/constraint" && blueprintIface != nil {
		// any blueprint implementation
		if looseImplementsNames(p, types.NewPointer(n), blueprintIface) {
			return q, true
		}
	}
	return "", false
}

func looseImplementsNames(p *Prog, t types.Type, iface *types.Interface) bool {
	ms := p.SSA.MethodSets.MethodSet(t)
	if iface.NumMethods() == 0 {
		return false
	}
	for i := 0; i < iface.NumMethods(); i++ {
		if ms.Lookup(iface.Method(i).Pkg(), iface.Method(i).Name()) == nil {
			return false
		}
	}
	return true
}

type effEngine struct {
	p         *Prog
	cg        *CallGraph
	rules     *effRules
	blueprint *types.Interface
}

func newEffEngine(p *Prog, cg *CallGraph) (*effEngine, error) {
	r, err := loadEffRules()
	if err != nil {
		return nil, err
	}
	e := &effEngine{p: p, cg: cg, rules: r}
	if pk := p.ByPth[modPath+"/constraint"]; pk != nil {
		if o := pk.Types.Scope().Lookup("Blueprint"); o != nil {
			if it, ok := o.Type().Underlying().(*types.Interface); ok {
				e.blueprint = it
			}
		}
	}
	return e, nil
}

// sharedWrite: the written location lies inside an object of a shared type (the *container* of a field /
// element address has a shared type) and that object was not allocated by this function.
// Returns the shared type, the field path and the root value of the address chain.
func (e *effEngine) sharedWrite(addr ssa.Value) (string, string, ssa.Value, bool) {
	v := addr
	shared := ""
	path := ""
	steps := 0
	var root ssa.Value
	for d := 0; d < 16 && v != nil; d++ {
		root = v
		switch x := v.(type) {
		case *ssa.FieldAddr:
			path = "." + fieldName(x.X.Type(), x.Field) + path
			if q, ok := isSharedType(e.p, x.X.Type(), e.blueprint); ok {
				shared = q
			}
			steps++
			v = x.X
			continue
		case *ssa.IndexAddr:
			path = "[]" + path
			steps++
			v = x.X
			continue
		case *ssa.UnOp:
			if x.Op == token.MUL {
				v = x.X
				continue
			}
		case *ssa.Slice:
			v = x.X
			continue
		case *ssa.Alloc:
			if sv := singleStore(x); sv != nil {
				if _, isP := sv.(*ssa.Parameter); isP {
					v = sv
					continue
				}
			}
			return "", "", nil, false // local object
		case *ssa.MakeSlice, *ssa.MakeMap:
			return "", "", nil, false
		case *ssa.Call:
			if cal := x.Call.StaticCallee(); cal != nil && (strings.HasPrefix(cal.Name(), "new") || strings.HasPrefix(cal.Name(), "New")) {
				return "", "", nil, false
			}
		case *ssa.TypeAssert:
			v = x.X
			continue
		case *ssa.Phi:
			for _, ed := range x.Edges {
				if q, p2, rt, ok := e.sharedWrite(ed); ok {
					return q, p2 + path, rt, true
				}
			}
			return "", "", nil, false
		}
		break
	}
	if shared == "" || steps == 0 {
		return "", "", nil, false
	}
	return shared, path, root, true
}

// argIsLocal: at every call site of fn, argument i is an object allocated by the caller (directly or, one level up,
// by the caller's caller).
func (e *effEngine) argIsLocal(fn *ssa.Function, i int, depth int) bool {
	callers := e.cg.In[fn]
	if len(callers) == 0 || depth > 2 {
		return false
	}
	found := false
	for _, c := range callers {
		for _, b := range c.Blocks {
			for _, ins := range b.Instrs {
				ci, ok := ins.(ssa.CallInstruction)
				if !ok {
					continue
				}
				cc := ci.Common()
				if cc.StaticCallee() != fn {
					continue
				}
				if i >= len(cc.Args) {
					return false
				}
				found = true
				if !e.valueIsLocal(cc.Args[i], depth) {
					return false
				}
			}
		}
	}
	return found
}

func (e *effEngine) valueIsLocal(v ssa.Value, depth int) bool {
	for d := 0; d < 10 && v != nil; d++ {
		switch x := v.(type) {
		case *ssa.Alloc:
			if sv := singleStore(x); sv != nil {
				if pm, isP := sv.(*ssa.Parameter); isP {
					return e.argIsLocal(pm.Parent(), paramIndex(pm), depth+1)
				}
			}
			return true
		case *ssa.MakeSlice, *ssa.MakeMap:
			return true
		case *ssa.FieldAddr:
			v = x.X
			continue
		case *ssa.IndexAddr:
			v = x.X
			continue
		case *ssa.UnOp:
			if x.Op == token.MUL {
				v = x.X
				continue
			}
			return false
		case *ssa.Call:
			if cal := x.Call.StaticCallee(); cal != nil && (strings.HasPrefix(cal.Name(), "new") || strings.HasPrefix(cal.Name(), "New")) {
				return true
			}
			return false
		case *ssa.Parameter:
			return e.argIsLocal(x.Parent(), paramIndex(x), depth+1)
		}
		return false
	}
	return false
}

func (e *effEngine) entryPoints() map[string][]*ssa.Function {
	out := map[string][]*ssa.Function{}
	for _, pat := range []string{
		"github.com/consensys/gnark/constraint/<curve>.(*system).Solve",
		"github.com/consensys/gnark/constraint/<field>.(*system).Solve",
		"github.com/consensys/gnark/backend/groth16/<curve>.Prove",
		"github.com/consensys/gnark/backend/groth16/<curve>.Verify",
		"github.com/consensys/gnark/backend/plonk/<curve>.Prove",
		"github.com/consensys/gnark/backend/plonk/<curve>.Verify",
	} {
		out[pat] = e.p.FuncsMatching(pat)
	}
	return out
}

func (e *effEngine) RunShared(r *Report) {
	eps := e.entryPoints()
	var roots []*ssa.Function
	var pats []string
	for pat := range eps {
		pats = append(pats, pat)
	}
	sort.Strings(pats)
	for _, pat := range pats {
		fns := eps[pat]
		min := 7
		if strings.Contains(pat, "<field>") {
			min = 2
		}
		if len(fns) < min {
			r.Fail("UNRESOLVED", "-", pat, "entry", "-", fmt.Sprintf("entry point resolves to %d instance(s), confirmed %d", len(fns), min))
		}
		roots = append(roots, fns...)
	}
	reach := e.cg.ReachableFrom(roots)
	r.Extra["functions_reachable_from_solve_prove_verify"] = len(reach)
	var fns []*ssa.Function
	for fn := range reach {
		pk := FuncPkg(fn)
		if pk == nil || !inModule(pk.Path()) || fn.Blocks == nil {
			continue
		}
		rel := strings.TrimPrefix(pk.Path(), modPath+"/")
		// compile-time packages reached only through hint / interface over-approximation are out of scope
		if strings.HasPrefix(rel, "frontend") || strings.HasPrefix(rel, "std/") || strings.HasPrefix(rel, "test") || strings.HasPrefix(rel, "profile") || strings.HasPrefix(rel, "logger") {
			continue
		}
		fns = append(fns, fn)
	}
	sort.Slice(fns, func(i, j int) bool { return fns[i].String() < fns[j].String() })
	seenFn := map[string]bool{}
	for _, fn := range fns {
		fname := FuncName(fn)
		if seenFn[fn.String()] {
			continue
		}
		seenFn[fn.String()] = true
		pk := FuncPkg(fn).Path()
		nWrites := 0
		for _, b := range fn.Blocks {
			for _, ins := range b.Instrs {
				var addr ssa.Value
				switch x := ins.(type) {
				case *ssa.Store:
					addr = x.Addr
				case *ssa.MapUpdate:
					addr = x.Map
				}
				if addr == nil {
					continue
				}
				q, path, root, ok := e.sharedWrite(addr)
				if !ok {
					continue
				}
				if pm, isP := root.(*ssa.Parameter); isP && pm.Parent() == fn && e.argIsLocal(fn, paramIndex(pm), 0) {
					continue // every caller passes an object it allocated itself
				}
				nWrites++
				key := "write:" + q + path
				ak := Abstract(fname) + "|" + Abstract(key)
				if why, ok := e.rules.Allowed[ak]; ok {
					r.Pass("EFF-SHARED", pk, fname, key, e.p.Pos(ins.Pos()), "reviewed: "+why, true)
					continue
				}
				if os.Getenv("GNARKLINT_ALLOWKEYS") != "" {
					fmt.Printf("ALLOWKEY allowed %s\n", ak)
				}
				r.Fail("EFF-SHARED", pk, fname, key, e.p.Pos(ins.Pos()), "code reachable from Solve/Prove/Verify writes "+q+path+", which lives in an object shared by concurrent and successive calls")
			}
		}
		if nWrites == 0 {
			r.Add(&Obligation{Rule: "EFF-SHARED", Pkg: pk, Func: fname, Key: "no-shared-write:" + fn.String(), Pos: e.p.Pos(FuncPos(fn)), OK: true, Detail: "no store into a shared system / key / blueprint object"})
		}
	}
}

// ---------------------------------------------------------------------------
// EFF-OPTSLICE: appends to the caller's solver-option slice must work on a capped copy

func isOptSliceField(v ssa.Value, depth int) bool {
	if depth > 10 || v == nil {
		return false
	}
	switch x := v.(type) {
	case *ssa.FieldAddr:
		n := fieldName(x.X.Type(), x.Field)
		return n == "SolverOpts" && strings.HasSuffix(namedQual(x.X.Type()), "backend.ProverConfig")
	case *ssa.Field:
		n := fieldName(x.X.Type(), x.Field)
		return n == "SolverOpts" && strings.HasSuffix(namedQual(x.X.Type()), "backend.ProverConfig")
	case *ssa.UnOp:
		if x.Op == token.MUL {
			return isOptSliceField(x.X, depth+1)
		}
	case *ssa.Phi:
		for _, e := range x.Edges {
			if isOptSliceField(e, depth+1) {
				return true
			}
		}
	case *ssa.Slice:
		if x.Max != nil {
			return false // capped: append reallocates
		}
		return isOptSliceField(x.X, depth+1)
	case *ssa.Alloc:
		if sv := singleStore(x); sv != nil {
			return isOptSliceField(sv, depth+1)
		}
	}
	return false
}

func (e *effEngine) RunOptSlice(r *Report) {
	n := 0
	for _, fn := range e.p.Funcs {
		pk := FuncPkg(fn)
		if pk == nil {
			continue
		}
		ap := Abstract(pk.Path())
		if ap != "github.com/consensys/gnark/backend/groth16/<curve>" && ap != "github.com/consensys/gnark/backend/plonk/<curve>" && !strings.HasPrefix(ap, "github.com/consensys/gnark/backend/groth16/<curve>/icicle") {
			continue
		}
		ord := 0
		for _, b := range fn.Blocks {
			for _, ins := range b.Instrs {
				c, ok := ins.(*ssa.Call)
				if !ok {
					continue
				}
				bi, ok := c.Call.Value.(*ssa.Builtin)
				if !ok || bi.Name() != "append" {
					continue
				}
				base := c.Call.Args[0]
				// is the base (transitively) the option field or a slice of it?
				touches := false
				capped := false
				var walk func(v ssa.Value, d int)
				walk = func(v ssa.Value, d int) {
					if d > 10 || v == nil {
						return
					}
					switch x := v.(type) {
					case *ssa.Slice:
						if x.Max != nil {
							capped = true
						}
						walk(x.X, d+1)
					case *ssa.UnOp:
						if x.Op == token.MUL {
							walk(x.X, d+1)
						}
					case *ssa.FieldAddr:
						if fieldName(x.X.Type(), x.Field) == "SolverOpts" && strings.HasSuffix(namedQual(x.X.Type()), "backend.ProverConfig") {
							touches = true
						}
					case *ssa.Field:
						if fieldName(x.X.Type(), x.Field) == "SolverOpts" && strings.HasSuffix(namedQual(x.X.Type()), "backend.ProverConfig") {
							touches = true
						}
					case *ssa.Phi:
						for _, ed := range x.Edges {
							walk(ed, d+1)
						}
					case *ssa.Alloc:
						if sv := singleStore(x); sv != nil {
							walk(sv, d+1)
						}
					}
				}
				walk(base, 0)
				if !touches {
					continue
				}
				ord++
				n++
				key := fmt.Sprintf("append-to-SolverOpts#%d", ord)
				if capped && !isOptSliceField(base, 0) {
					r.Pass("EFF-OPTSLICE", pk.Path(), FuncName(fn), key, e.p.Pos(ins.Pos()), "append works on a three-index slice with cap==len of the caller's option slice: the caller's backing array is never written", true)
				} else {
					r.Fail("EFF-OPTSLICE", pk.Path(), FuncName(fn), key, e.p.Pos(ins.Pos()), "append into the caller-provided solver-option slice in place: concurrent Prove calls sharing an option slice with spare capacity overwrite each other's hint override")
				}
			}
		}
	}
}

// isOptionSliceParam: v derives, without a capping three-index slice in between, from a parameter of type
// []Option / []ProverOption / ... (a slice of a named func type whose name ends in "Option").
func isOptionSliceParam(v ssa.Value, depth int, seen map[ssa.Value]bool) (*ssa.Parameter, bool) {
	if depth > 12 || v == nil || seen[v] {
		return nil, false
	}
	seen[v] = true
	switch x := v.(type) {
	case *ssa.Parameter:
		sl, ok := x.Type().Underlying().(*types.Slice)
		if !ok {
			return nil, false
		}
		n, ok := sl.Elem().(*types.Named)
		if !ok || !strings.HasSuffix(n.Obj().Name(), "Option") {
			return nil, false
		}
		if _, isFn := n.Underlying().(*types.Signature); !isFn {
			return nil, false
		}
		return x, true
	case *ssa.Slice:
		if x.Max != nil {
			return nil, false
		}
		return isOptionSliceParam(x.X, depth+1, seen)
	case *ssa.Phi:
		for _, e := range x.Edges {
			if pm, ok := isOptionSliceParam(e, depth+1, seen); ok {
				return pm, true
			}
		}
	case *ssa.UnOp:
		if x.Op == token.MUL {
			return isOptionSliceParam(x.X, depth+1, seen)
		}
	case *ssa.Alloc:
		// a spilled parameter: every store into the cell is looked at
		if refs := x.Referrers(); refs != nil {
			for _, rf := range *refs {
				if st, ok := rf.(*ssa.Store); ok && st.Addr == x {
					if pm, ok := isOptionSliceParam(st.Val, depth+1, seen); ok {
						return pm, true
					}
				}
			}
		}
	}
	return nil, false
}

// RunOptParam: EFF-OPTSLICE on option slices received as (variadic) parameters: `f(w, shared...)` hands the
// caller's backing array to the callee, so an append in place writes memory that concurrent calls share.
func (e *effEngine) RunOptParam(r *Report) {
	for _, fn := range e.p.Funcs {
		pk := FuncPkg(fn)
		if pk == nil || !inModule(pk.Path()) {
			continue
		}
		rel := strings.TrimPrefix(pk.Path(), modPath+"/")
		if !(strings.HasPrefix(rel, "constraint") || strings.HasPrefix(rel, "backend")) {
			continue
		}
		ord := 0
		for _, b := range fn.Blocks {
			for _, ins := range b.Instrs {
				c, ok := ins.(*ssa.Call)
				if !ok {
					continue
				}
				bi, ok := c.Call.Value.(*ssa.Builtin)
				if !ok || bi.Name() != "append" || len(c.Call.Args) == 0 {
					continue
				}
				sl, ok := c.Call.Args[0].Type().Underlying().(*types.Slice)
				if !ok {
					continue
				}
				if n, ok := sl.Elem().(*types.Named); !ok || !strings.HasSuffix(n.Obj().Name(), "Option") {
					continue
				}
				ord++
				key := fmt.Sprintf("append-to-option-slice#%d", ord)
				if pm, bad := isOptionSliceParam(c.Call.Args[0], 0, map[ssa.Value]bool{}); bad {
					r.Fail("EFF-OPTSLICE", pk.Path(), FuncName(fn), key, e.p.Pos(ins.Pos()), fmt.Sprintf("append in place into the option slice received as parameter %s: a caller passing `shared...` hands over its backing array, and concurrent calls sharing an option slice with spare capacity overwrite each other's entries", pm.Name()))
				} else {
					r.Pass("EFF-OPTSLICE", pk.Path(), FuncName(fn), key, e.p.Pos(ins.Pos()), "the base of the append is not a caller-provided option slice (own slice, or capped with a three-index slice)", true)
				}
			}
		}
	}
}

// ---------------------------------------------------------------------------
// EFF-RESET: stateful blueprints are reset before the solver runs

func (e *effEngine) RunResetOrder(r *Report) {
	for _, pat := range []string{"github.com/consensys/gnark/constraint/<curve>.(*system).Solve", "github.com/consensys/gnark/constraint/<field>.(*system).Solve"} {
		for _, fn := range e.p.FuncsMatching(pat) {
			var resetBlk, runBlk *ssa.BasicBlock
			var resetPos, runPos token.Pos
			viaHelper := false
			for _, b := range fn.Blocks {
				for _, ins := range b.Instrs {
					c, ok := ins.(*ssa.Call)
					if !ok {
						continue
					}
					n := CalleeName(&c.Call)
					if strings.HasPrefix(n, "invoke:") && strings.HasSuffix(n, ".Reset") && strings.Contains(n, "BlueprintStateful") {
						resetBlk, resetPos = b, ins.Pos()
					} else if cal := c.Call.StaticCallee(); cal != nil && FuncPkg(cal) != nil && FuncPkg(cal).Path() == FuncPkg(fn).Path() && containsStatefulReset(cal, 0) {
						// the reset loop extracted into a helper of the same package: the helper call is the site
						resetBlk, resetPos = b, ins.Pos()
						viaHelper = true
					}
					if strings.HasSuffix(n, ".(*solver).run") {
						runBlk, runPos = b, ins.Pos()
					}
				}
			}
			pkg := FuncPkg(fn).Path()
			if resetBlk == nil || runBlk == nil {
				r.Fail("EFF-RESET", pkg, FuncName(fn), "reset-before-run", e.p.Pos(FuncPos(fn)), fmt.Sprintf("Solve no longer resets the stateful blueprints (found=%v) before running the solver (found=%v)", resetBlk != nil, runBlk != nil))
				continue
			}
			fromReset := reach(resetBlk, nil)
			fromRun := reach(runBlk, nil)
			// the reset loop header must dominate the run call: every path to run passes the loop
			loopHeaderDominates := viaHelper && (resetBlk == runBlk || resetBlk.Dominates(runBlk))
			for d := resetBlk; d != nil && !viaHelper; d = d.Idom() {
				if d.Dominates(runBlk) && d != runBlk {
					loopHeaderDominates = true
					break
				}
			}
			if viaHelper && resetBlk == runBlk {
				// same block: the helper call must come first
				fromReset[runBlk] = resetPos < runPos
				fromRun[resetBlk] = false
			}
			if fromReset[runBlk] && !fromRun[resetBlk] && loopHeaderDominates {
				r.Pass("EFF-RESET", pkg, FuncName(fn), "reset-before-run", e.p.Pos(resetPos), "blueprint Reset loop precedes solver.run on every path (run at "+e.p.Pos(runPos)+")", true)
			} else {
				r.Fail("EFF-RESET", pkg, FuncName(fn), "reset-before-run", e.p.Pos(resetPos), "stateful blueprints are not reset before solver.run on every path: state cached by a previous (possibly failed) solve leaks into the next one")
			}
		}
	}
}

// ---------------------------------------------------------------------------
// EFF-LOCK: lock-guarded package-level variables

func (e *effEngine) RunLocks(r *Report) {
	for _, gb := range e.rules.GuardedBy {
		count := 0
		for _, fn := range e.p.Funcs {
			if fn.Name() == "init" || strings.HasPrefix(fn.Name(), "init#") {
				continue
			}
			for _, b := range fn.Blocks {
				for _, ins := range b.Instrs {
					var ops []*ssa.Value
					ops = ins.Operands(ops)
					touches := false
					for _, op := range ops {
						if g, ok := (*op).(*ssa.Global); ok && Abstract(g.Pkg.Pkg.Path()+"."+g.Name()) == gb.Var {
							touches = true
						}
					}
					if !touches {
						continue
					}
					count++
					// a dominating Lock/RLock call on the mutex
					locked := false
					for d := b; d != nil && !locked; d = d.Idom() {
						for _, i2 := range d.Instrs {
							if d == b && i2 == ins {
								break
							}
							c, ok := i2.(*ssa.Call)
							if !ok {
								continue
							}
							cal := c.Call.StaticCallee()
							if cal == nil || (cal.Name() != "Lock" && cal.Name() != "RLock") || len(c.Call.Args) == 0 {
								continue
							}
							if g, ok := c.Call.Args[0].(*ssa.Global); ok && Abstract(g.Pkg.Pkg.Path()+"."+g.Name()) == gb.Mutex {
								locked = true
							}
						}
					}
					pk := FuncPkg(fn).Path()
					key := fmt.Sprintf("access:%s", gb.Var)
					if locked {
						r.Pass("EFF-LOCK", pk, FuncName(fn), key, e.p.Pos(ins.Pos()), "access dominated by "+gb.Mutex+".Lock/RLock", true)
					} else {
						r.Fail("EFF-LOCK", pk, FuncName(fn), key, e.p.Pos(ins.Pos()), "package-level "+gb.Var+" accessed without holding "+gb.Mutex)
					}
				}
			}
		}
		if count < gb.Min {
			r.Fail("UNRESOLVED", "-", "-", "guarded:"+gb.Var, "-", fmt.Sprintf("only %d accesses of %s found, confirmed %d", count, gb.Var, gb.Min))
		}
	}
}

// ---------------------------------------------------------------------------
// EFF-DCL: no check-then-act on mutex-guarded fields (double-checked locking).
// For a method whose receiver struct has a sync.Mutex / RWMutex field: fields of the receiver stored while the
// mutex is held are guarded; a branch whose condition reads a guarded field outside the locked region and that
// dominates the Lock call is a racy pre-check (another worker can observe the field between append and store).

func mutexFieldOf(v ssa.Value) (recv ssa.Value, field string, ok bool) {
	fa, isFA := v.(*ssa.FieldAddr)
	if !isFA {
		return nil, "", false
	}
	ft := deref(fa.Type())
	n, isN := ft.(*types.Named)
	if !isN || n.Obj().Pkg() == nil || n.Obj().Pkg().Path() != "sync" || (n.Obj().Name() != "Mutex" && n.Obj().Name() != "RWMutex") {
		return nil, "", false
	}
	return fa.X, fieldName(fa.X.Type(), fa.Field), true
}

func RunDoubleChecked(p *Prog, r *Report, scope func(pkg string) bool) {
	n := 0
	for _, fn := range p.Funcs {
		pk := FuncPkg(fn)
		if pk == nil || !scope(pk.Path()) {
			continue
		}
		// lock / unlock calls on a mutex field of some object
		type lk struct {
			call *ssa.Call
			recv ssa.Value
		}
		var locks, unlocks []lk
		for _, b := range fn.Blocks {
			for _, ins := range b.Instrs {
				c, ok := ins.(*ssa.Call)
				if !ok || len(c.Call.Args) == 0 {
					continue
				}
				cal := c.Call.StaticCallee()
				if cal == nil {
					continue
				}
				recv, _, ok := mutexFieldOf(c.Call.Args[0])
				if !ok {
					continue
				}
				switch cal.Name() {
				case "Lock", "RLock":
					locks = append(locks, lk{c, recv})
				case "Unlock", "RUnlock":
					unlocks = append(unlocks, lk{c, recv})
				}
			}
		}
		if len(locks) == 0 {
			continue
		}
		for _, l := range locks {
			n++
			// locked region: blocks reachable from the lock call without passing an unlock of the same object
			unlockBlk := map[*ssa.BasicBlock]bool{}
			for _, u := range unlocks {
				if u.recv == l.recv || Desc(u.recv) == Desc(l.recv) {
					unlockBlk[u.call.Block()] = true
				}
			}
			region := reach(l.call.Block(), func(from, to *ssa.BasicBlock) bool { return unlockBlk[from] && from != l.call.Block() })
			// guarded fields: fields of the same object stored in the region
			guarded := map[string]bool{}
			for b := range region {
				for _, ins := range b.Instrs {
					if st, ok := ins.(*ssa.Store); ok {
						for v, d := st.Addr, 0; v != nil && d < 6; d++ {
							if fa, ok := v.(*ssa.FieldAddr); ok && (fa.X == l.recv || Desc(fa.X) == Desc(l.recv)) {
								guarded[fieldName(fa.X.Type(), fa.Field)] = true
								break
							} else if ia, ok := v.(*ssa.IndexAddr); ok {
								v = ia.X
							} else if u, ok := v.(*ssa.UnOp); ok {
								v = u.X
							} else {
								break
							}
						}
					}
				}
			}
			bad := ""
			for d := l.call.Block().Idom(); d != nil; d = d.Idom() {
				iff, ok := lastInstr(d).(*ssa.If)
				if !ok {
					continue
				}
				s := newSlicer()
				s.noObj = true
				s.visit(iff.Cond)
				all := map[ssa.Value]bool{}
				for v := range s.seen {
					all[v] = true
				}
				for v := range s.seenA {
					all[v] = true
				}
				for v := range all {
					if fa, ok := v.(*ssa.FieldAddr); ok && (fa.X == l.recv || Desc(fa.X) == Desc(l.recv)) && guarded[fieldName(fa.X.Type(), fa.Field)] {
						bad = fmt.Sprintf("condition at %s reads guarded field %s before the lock is taken", p.Pos(iff.Cond.Pos()), fieldName(fa.X.Type(), fa.Field))
					}
				}
			}
			key := fmt.Sprintf("lock:%s", normIdx(Desc(l.call.Call.Args[0])))
			if bad == "" {
				r.Pass("EFF-DCL", pk.Path(), FuncName(fn), key, p.Pos(l.call.Pos()), "no unlocked pre-check of the fields written under this lock", len(guarded) > 0)
			} else {
				r.Fail("EFF-DCL", pk.Path(), FuncName(fn), key, p.Pos(l.call.Pos()), "double-checked locking: "+bad+"; a parallel worker can take the unlocked path while the field is being updated")
			}
		}
	}
	r.Extra["lock_sites_checked"] = n
}

// containsStatefulReset: fn (or a same-package callee, two levels) invokes BlueprintStateful.Reset.
func containsStatefulReset(fn *ssa.Function, depth int) bool {
	if fn.Blocks == nil || depth > 2 {
		return false
	}
	for _, b := range fn.Blocks {
		for _, ins := range b.Instrs {
			c, ok := ins.(*ssa.Call)
			if !ok {
				continue
			}
			n := CalleeName(&c.Call)
			if strings.HasPrefix(n, "invoke:") && strings.HasSuffix(n, ".Reset") && strings.Contains(n, "BlueprintStateful") {
				return true
			}
			if cal := c.Call.StaticCallee(); cal != nil && FuncPkg(cal) != nil && FuncPkg(fn) != nil && FuncPkg(cal).Path() == FuncPkg(fn).Path() && containsStatefulReset(cal, depth+1) {
				return true
			}
		}
	}
	return false
}

// ---------------------------------------------------------------------------
// EFF-GLOBALREF: solver-time code hands out copies of package-level containers, never the containers themselves

// RunGlobalRef: in the solver / prover packages, a map or slice held in a package-level variable is not returned
// by a function nor stored into another object: whoever receives it shares it with every concurrent and later
// call (the hint registry is cloned per solver configuration for exactly this reason).
func (e *effEngine) RunGlobalRef(r *Report) {
	isContainer := func(t types.Type) bool {
		switch t.Underlying().(type) {
		case *types.Map, *types.Slice:
			return true
		}
		return false
	}
	var globalLoad func(v ssa.Value, d int) *ssa.Global
	globalLoad = func(v ssa.Value, d int) *ssa.Global {
		if d > 6 || v == nil {
			return nil
		}
		switch x := v.(type) {
		case *ssa.UnOp:
			if x.Op == token.MUL {
				switch a := x.X.(type) {
				case *ssa.Global:
					return a
				case *ssa.FieldAddr:
					if g, ok := a.X.(*ssa.Global); ok {
						return g
					}
				case *ssa.Alloc:
					// local cell (results are spilled when the function defers): what was stored into it
					if refs := a.Referrers(); refs != nil {
						for _, rf := range *refs {
							if st, ok := rf.(*ssa.Store); ok && st.Addr == a {
								if g := globalLoad(st.Val, d+1); g != nil {
									return g
								}
							}
						}
					}
				}
			}
		case *ssa.Phi:
			for _, ed := range x.Edges {
				if g := globalLoad(ed, d+1); g != nil {
					return g
				}
			}
		case *ssa.Slice:
			return globalLoad(x.X, d+1)
		case *ssa.ChangeType:
			return globalLoad(x.X, d+1)
		}
		return nil
	}
	n := 0
	for _, fn := range e.p.Funcs {
		pk := FuncPkg(fn)
		if pk == nil || !inModule(pk.Path()) {
			continue
		}
		rel := strings.TrimPrefix(pk.Path(), modPath+"/")
		if !(strings.HasPrefix(rel, "constraint") || strings.HasPrefix(rel, "backend")) {
			continue
		}
		top := fn
		for top.Parent() != nil {
			top = top.Parent()
		}
		if top.Name() == "init" || strings.HasPrefix(top.Name(), "init#") {
			continue
		}
		ord := 0
		for _, b := range fn.Blocks {
			for _, ins := range b.Instrs {
				var g *ssa.Global
				how := ""
				switch x := ins.(type) {
				case *ssa.Return:
					for _, rv := range x.Results {
						if isContainer(rv.Type()) {
							if gg := globalLoad(rv, 0); gg != nil {
								g, how = gg, "returned"
							}
						}
					}
				case *ssa.Store:
					if isContainer(x.Val.Type()) {
						if gg := globalLoad(x.Val, 0); gg != nil {
							// storing back into a global (the same registry) is not an escape
							if _, toGlobal := x.Addr.(*ssa.Global); !toGlobal {
								if _, isAlloc := x.Addr.(*ssa.Alloc); !isAlloc {
									g, how = gg, "stored into another object"
								}
							}
						}
					}
				}
				if g == nil {
					continue
				}
				ord++
				n++
				gname := g.Pkg.Pkg.Path() + "." + g.Name()
				key := fmt.Sprintf("globalref:%s#%d", gname, ord)
				if why, ok := e.rules.GlobalRefOK[Abstract(FuncName(fn))+"|"+gname]; ok {
					r.Pass("EFF-GLOBALREF", pk.Path(), FuncName(fn), key, e.p.Pos(ins.Pos()), "reviewed: "+why, true)
					continue
				}
				r.Fail("EFF-GLOBALREF", pk.Path(), FuncName(fn), key, e.p.Pos(ins.Pos()), fmt.Sprintf("the %s held in package-level variable %s is %s itself, not a copy: every caller shares one mutable object with all concurrent and later Solve / Prove calls", strings.ToLower(fmt.Sprintf("%T", g.Type().(*types.Pointer).Elem().Underlying())[7:]), gname, how))
			}
		}
	}
	r.Pass("EFF-GLOBALREF", "-", "-", "scan", "-", fmt.Sprintf("%d hand-outs of package-level containers examined in constraint/... and backend/...", n), false)
}
