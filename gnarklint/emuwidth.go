package main

import (
	"fmt"
	"go/token"
	"go/types"
	"sort"
	"strings"

	"golang.org/x/tools/go/ssa"
)

// EMU-WIDTH (C12): every group of limbs that a hint hands to the emulated-arithmetic code must be width-constrained.
// The overflow bookkeeping of std/math/emulated and the random-point polynomial identities assume that each limb is a
// small integer; a limb that is an arbitrary native field element makes the identity hold only modulo the native
// field. The rule takes every hint call inside std/math/emulated, splits its result into the pieces the code itself
// slices out (ret[a:b], or the whole result when it is used unsliced) and follows each piece forward with the flow
// engine: the piece itself (label raw, i.e. not merely a value computed from it) must reach a range check
// (rangecheck Check through enforceWidth / packLimbs) or a booleanity assertion.

type hintPiece struct {
	fn    *ssa.Function
	call  *ssa.Call
	val   ssa.Value
	label string
	piece string
	bound string
}

func hintResultValue(c *ssa.Call) ssa.Value {
	if _, ok := c.Type().(*types.Tuple); !ok {
		return c
	}
	for _, r := range *c.Referrers() {
		if ex, ok := r.(*ssa.Extract); ok && ex.Index == 0 {
			return ex
		}
	}
	return nil
}

// emulatedHintPieces lists the slices taken from hint results in the functions of pkg.
func emulatedHintPieces(p *Prog, pkgPath string) []hintPiece {
	var out []hintPiece
	for _, fn := range p.Funcs {
		pk := FuncPkg(fn)
		if pk == nil || pk.Path() != pkgPath {
			continue
		}
		for _, b := range fn.Blocks {
			for _, ins := range b.Instrs {
				c, ok := ins.(*ssa.Call)
				if !ok {
					continue
				}
				cc := &c.Call
				name := ""
				argi := 0
				if cc.IsInvoke() && frontendIface(cc.Value.Type()) && hintCallNames[cc.Method.Name()] {
					name = cc.Method.Name()
				} else if cal := cc.StaticCallee(); cal != nil && strings.HasPrefix(funcBaseName(cal), "NewHint") && cal.Signature.Recv() != nil {
					name = funcBaseName(cal)
					argi = 1
				}
				if name == "" || len(cc.Args) <= argi {
					continue
				}
				lbl := Abstract(strings.TrimPrefix(Desc(cc.Args[argi]), "func:"))
				res := hintResultValue(c)
				if res == nil {
					continue
				}
				res = throughSpill(res)
				whole := false
				n := 0
				for _, r := range *res.Referrers() {
					switch x := r.(type) {
					case *ssa.Slice:
						if x.X == res {
							n++
							out = append(out, hintPiece{fn, c, x, lbl, fmt.Sprintf("piece#%d", n), fmt.Sprintf("ret[%s:%s]", boundStr(x.Low), boundStr(x.High))})
						}
					case *ssa.DebugRef:
					default:
						whole = true
					}
				}
				if whole || n == 0 {
					out = append(out, hintPiece{fn, c, res, lbl, "whole", "ret"})
				}
			}
		}
	}
	sort.SliceStable(out, func(i, j int) bool {
		if out[i].call.Pos() != out[j].call.Pos() {
			return out[i].call.Pos() < out[j].call.Pos()
		}
		return out[i].piece < out[j].piece
	})
	return out
}

// throughSpill: when the hint result is stored into a local cell (named result / captured variable) and loaded
// again, the pieces are slices of the loads; keep the value itself otherwise.
func throughSpill(v ssa.Value) ssa.Value { return v }

func boundStr(v ssa.Value) string {
	if v == nil {
		return ""
	}
	if c, ok := v.(*ssa.Const); ok {
		return c.Value.ExactString()
	}
	d := Desc(v)
	if len(d) > 40 {
		d = d[:40]
	}
	return d
}

// pieceConstrained: the value itself reaches a range check / booleanity assertion in fn (through callees), or it is
// returned and every same-package call site constrains the returned value; results of exported functions are API
// outputs (native variables handed to the caller) and are not limbs of this package any more.
func pieceConstrained(e *flowEngine, fn *ssa.Function, v ssa.Value, idx int, depth int) (bool, string) {
	sum := e.forwardFrom(fn, v, idx, lRaw, 0)
	facts := map[string]flabel{}
	e.collectLocal(facts, sum)
	if facts["Check"] == lRaw || facts["AssertIsBoolean"] == lRaw {
		return true, strings.Join(sinkFacts(facts), " ")
	}
	var rets []int
	for k, l := range facts {
		if strings.HasPrefix(k, "escape:ret") && l == lRaw {
			var j int
			fmt.Sscanf(k, "escape:ret%d", &j)
			rets = append(rets, j)
		}
	}
	sort.Ints(rets)
	if len(rets) == 0 || depth >= 3 {
		return false, strings.Join(sinkFacts(facts), " ")
	}
	top := fn
	for top.Parent() != nil {
		top = top.Parent()
	}
	if fn.Parent() == nil && token.IsExported(funcBaseName(fn)) {
		return true, "returned by the exported function " + funcBaseName(fn) + ": API output"
	}
	n := 0
	for _, j := range rets {
		for _, rs := range e.RetSources(fn, j) {
			n++
			if ok, why := pieceConstrained(e, rs.fn, rs.call, rs.idx, depth+1); !ok {
				return false, "returned to " + funcBaseName(rs.fn) + " where it reaches only: " + why
			}
		}
	}
	if n == 0 {
		return false, "returned, but no call site found"
	}
	return true, fmt.Sprintf("returned to %d call site(s), each of which range-checks it", n)
}

// callerOrd: ordinal of the hint call among the calls of the same hint function in the package (source order), so
// that two callers of one hint stay distinct without naming them.
func callerOrd(hp hintPiece, all []hintPiece) string {
	n := 0
	seen := map[token.Pos]bool{}
	for _, o := range all {
		if o.label != hp.label || seen[o.call.Pos()] {
			continue
		}
		seen[o.call.Pos()] = true
		n++
		if o.call.Pos() == hp.call.Pos() {
			return fmt.Sprintf("call%d", n)
		}
	}
	return "call?"
}

func RunEmuWidth(p *Prog, r *Report, e *flowEngine) {
	pkgPath := modPath + "/std/math/emulated"
	pieces := emulatedHintPieces(p, pkgPath)
	type agg struct {
		ok   bool
		fact string
		pos  token.Pos
		fn   *ssa.Function
		n    int
	}
	res := map[string]*agg{}
	var keys []string
	for _, hp := range pieces {
		ok, fact := pieceConstrained(e, hp.fn, hp.val, 0, 0)
		// whole results that are only sliced further are covered by their pieces
		// identity = hint function + piece; the calling function is reported in the detail only (renaming an
		// unexported caller must not change the identity of a known finding)
		k := "hint:" + hp.label + " | " + hp.piece + "@" + callerOrd(hp, pieces)
		a := res[k]
		if a == nil {
			a = &agg{ok: true, pos: hp.val.Pos(), fn: hp.fn}
			if !a.pos.IsValid() {
				a.pos = hp.call.Pos()
			}
			res[k] = a
			keys = append(keys, k)
		}
		a.n++
		if !ok {
			a.ok = false
		}
		a.fact = "in " + funcBaseName(hp.fn) + ", " + hp.bound + ": " + fact
	}
	sort.Strings(keys)
	for _, k := range keys {
		a := res[k]
		parts := strings.SplitN(k, " | ", 2)
		if a.ok {
			r.Pass("EMU-WIDTH", pkgPath, parts[0], parts[1], p.Pos(a.pos), "limbs taken from the hint result are width-constrained: "+a.fact, true)
		} else {
			r.Fail("EMU-WIDTH", pkgPath, parts[0], parts[1], p.Pos(a.pos), "limbs taken from the hint result are used without any width constraint on the limbs themselves (reaches only: "+a.fact+"): a dishonest prover may choose arbitrary native field elements for them")
		}
	}
	if len(keys) < 8 {
		r.Fail("UNRESOLVED", "-", "-", "emu-width-pieces", "-", fmt.Sprintf("%d hint-result pieces found in std/math/emulated, confirmed minimum 8", len(keys)))
	}
}

func init() {
	devHooks["emuwidth"] = func(p *Prog, fnPat, untr string) int {
		cg := BuildCallGraph(p)
		e := newFlowEngine(p, cg)
		r := NewReport("DEV", "quick", 0)
		RunEmuWidth(p, r, e)
		for _, o := range r.Obls {
			fmt.Printf("%v %s | %s | %s | %s\n", o.OK, o.Pos, strings.TrimPrefix(o.Func, modPath+"/"), strings.Replace(o.Key, modPath+"/", "", -1), o.Detail)
		}
		return 0
	}
}

// EMU-FLAG (C12): `Element.modReduced` is a trust flag — AssertIsInRange returns at once and reduce() takes its
// fast path when it is set — so it may only be *set* behind the comparison that justifies it. Every store into the
// field is one of: the constant false; a copy of another element's flag; or any other value, in which case the store
// must be dominated by a call of Field.AssertIsLessOrEqual on the same element.
func RunEmuFlag(p *Prog, r *Report) {
	pkgPath := modPath + "/std/math/emulated"
	n := 0
	seen := map[string]bool{}
	for _, fn := range p.Funcs {
		pk := FuncPkg(fn)
		if pk == nil || pk.Path() != pkgPath || fn.Blocks == nil {
			continue
		}
		ord := 0
		for _, b := range fn.Blocks {
			for _, ins := range b.Instrs {
				st, ok := ins.(*ssa.Store)
				if !ok {
					continue
				}
				fa, ok := st.Addr.(*ssa.FieldAddr)
				if !ok || fieldName(fa.X.Type(), fa.Field) != "modReduced" || namedName(fa.X.Type()) != "Element" {
					continue
				}
				ord++
				key := fmt.Sprintf("%s | modReduced-store#%d", Abstract(FuncName(fn)), ord)
				if seen[key] {
					continue
				}
				seen[key] = true
				n++
				why := ""
				if c, ok := st.Val.(*ssa.Const); ok && c.Value != nil && c.Value.String() == "false" {
					why = "stores the constant false"
				} else if u, ok := st.Val.(*ssa.UnOp); ok && u.Op == token.MUL {
					if fa2, ok := u.X.(*ssa.FieldAddr); ok && fieldName(fa2.X.Type(), fa2.Field) == "modReduced" {
						why = "copies the flag of another element"
					}
				}
				if why == "" {
					want := normIdx(Desc(fa.X))
					for _, b2 := range fn.Blocks {
						for _, i2 := range b2.Instrs {
							c, ok := i2.(*ssa.Call)
							if !ok {
								continue
							}
							cal := c.Call.StaticCallee()
							if cal == nil || funcBaseName(cal) != "AssertIsLessOrEqual" || len(c.Call.Args) < 2 {
								continue
							}
							if normIdx(Desc(c.Call.Args[1])) != want {
								continue
							}
							if b2 == b && instrIndex(i2) < instrIndex(ins) || b2 != b && b2.Dominates(b) {
								why = "dominated by AssertIsLessOrEqual on the same element at " + p.Pos(c.Pos())
							}
						}
					}
				}
				if why != "" {
					r.Pass("EMU-FLAG", pkgPath, FuncName(fn), fmt.Sprintf("modReduced-store#%d", ord), p.Pos(st.Pos()), why, true)
				} else {
					r.Fail("EMU-FLAG", pkgPath, FuncName(fn), fmt.Sprintf("modReduced-store#%d", ord), p.Pos(st.Pos()), "the trust flag modReduced is set without a dominating comparison of the element with the modulus: AssertIsInRange / ReduceStrict / ToBitsCanonical then skip the comparison for a value that is only width-constrained")
				}
			}
		}
	}
	if n < 3 {
		r.Fail("UNRESOLVED", "-", "-", "emu-flag", "-", fmt.Sprintf("%d stores into Element.modReduced found, confirmed 3", n))
	}
}
