package main

import (
	"fmt"
	"go/token"
	"go/types"
	"sort"
	"strings"

	"golang.org/x/tools/go/ssa"
)

// flow engine (DESIGN.md 3.8): which constraint-emitting API sinks does a free wire (hint output,
// internal variable) or a gadget parameter reach? Compositional summaries per (function, seed).

type flabel int

const (
	lNone    flabel = 0
	lDerived flabel = 1
	lRaw     flabel = 2
)

func (l flabel) String() string {
	switch l {
	case lRaw:
		return "raw"
	case lDerived:
		return "derived"
	}
	return "-"
}

func minLabel(a, b flabel) flabel {
	if a < b {
		return a
	}
	return b
}

// API primitives by method name (invoke on an interface declared in package frontend or constraint)
var sinkMethods = map[string]bool{
	"AssertIsEqual": true, "AssertIsDifferent": true, "AssertIsBoolean": true, "AssertIsCrumb": true, "AssertIsLessOrEqual": true,
	"Check": true, "Commit": true, "MustBeLessOrEqCst": true,
	"AddR1C": true, "AddSparseR1C": true,
}

// arithmetic-like API methods: the result is derived from the operands; some also constrain an operand
var alsoSink = map[string]bool{"ToBinary": true}

type flowSummary struct {
	sites  map[string]map[string]siteCnt // "Kind" -> local site (instruction of this function) -> number of distinct call paths from that site to a sink of this kind
	sinks  map[string]flabel             // "Kind" -> strongest label
	rets   map[int]flabel
	outs   map[int]flabel    // flows into the object of another parameter
	stores map[string]flabel // "T.F" field-based heap stores
}

func newSummary() *flowSummary {
	return &flowSummary{sites: map[string]map[string]siteCnt{}, sinks: map[string]flabel{}, rets: map[int]flabel{}, outs: map[int]flabel{}, stores: map[string]flabel{}}
}

func up(m map[string]flabel, k string, l flabel) bool {
	if l > m[k] {
		m[k] = l
		return true
	}
	return false
}

func upi(m map[int]flabel, k int, l flabel) bool {
	if l > m[k] {
		m[k] = l
		return true
	}
	return false
}

type sumKey struct {
	fn  *ssa.Function
	idx int // parameter index; nParams+k for free variable k
}

type flowEngine struct {
	p         *Prog
	cg        *CallGraph
	memo      map[sumKey]*flowSummary
	inProg    map[sumKey]bool
	ctxMemo   map[types.Type]bool
	fieldMemo map[string]map[string]flabel
	fieldProg map[string]bool
	fieldLoad map[string][]ssa.Value // "T.F" -> load / address values in module functions
	callSites map[*ssa.Function][]*ssa.Call
	indexed   bool
	cuts      int
	fieldDir  map[string]map[string]flabel // field -> sinks reached directly from its reads
	fieldEdge map[string]map[string]bool   // field -> fields its read values are stored into
}

func newFlowEngine(p *Prog, cg *CallGraph) *flowEngine {
	return &flowEngine{p: p, cg: cg, memo: map[sumKey]*flowSummary{}, inProg: map[sumKey]bool{}, ctxMemo: map[types.Type]bool{},
		fieldMemo: map[string]map[string]flabel{}, fieldProg: map[string]bool{}, fieldLoad: map[string][]ssa.Value{}, callSites: map[*ssa.Function][]*ssa.Call{}}
}

func frontendIface(t types.Type) bool {
	n, ok := t.(*types.Named)
	if !ok {
		if a, ok2 := t.(*types.Alias); ok2 {
			return frontendIface(types.Unalias(a))
		}
		return false
	}
	it, isI := n.Underlying().(*types.Interface)
	if !isI || n.Obj().Pkg() == nil || it.NumMethods() == 0 {
		return false
	}
	pp := n.Obj().Pkg().Path()
	return pp == modPath+"/frontend" || pp == modPath+"/constraint" || pp == modPath+"/frontend/cs/r1cs" || pp == modPath+"/frontend/cs/scs"
}

// isContextType: a struct that carries the circuit API / builder (gadget state), as opposed to a data object.
func (e *flowEngine) isContextType(t types.Type) bool {
	t = deref(t)
	if v, ok := e.ctxMemo[t]; ok {
		return v
	}
	e.ctxMemo[t] = false
	res := e.ctxRec(t, 0)
	e.ctxMemo[t] = res
	return res
}

func (e *flowEngine) ctxRec(t types.Type, depth int) bool {
	st, ok := deref(t).Underlying().(*types.Struct)
	if !ok || depth > 2 {
		return false
	}
	for i := 0; i < st.NumFields(); i++ {
		ft := st.Field(i).Type()
		if frontendIface(ft) {
			return true
		}
		if n, ok := ft.(*types.Named); ok && n.Obj().Pkg() != nil {
			q := n.Obj().Pkg().Path() + "." + n.Obj().Name()
			if q == modPath+"/frontend.API" || q == modPath+"/frontend.Compiler" || q == modPath+"/frontend.Builder" {
				return true
			}
		}
		if _, isPtr := ft.Underlying().(*types.Pointer); isPtr {
			if _, isSt := deref(ft).Underlying().(*types.Struct); isSt && e.ctxRec(ft, depth+1) {
				return true
			}
		}
	}
	return false
}

func structFieldKey(x *ssa.FieldAddr) string {
	return Abstract(namedQual(x.X.Type())) + "." + fieldName(x.X.Type(), x.Field)
}

// ---------------------------------------------------------------------------
// intra-procedural propagation

type fstate struct {
	e        *flowEngine
	fn       *ssa.Function
	taint    map[ssa.Value]flabel
	tup      map[ssa.Value]map[int]flabel // call -> per-result taint
	sum      *flowSummary
	change   bool
	depth    int
	cur      ssa.Instruction
	curParam int
}

func (s *fstate) get(v ssa.Value) flabel {
	if v == nil {
		return lNone
	}
	return s.taint[v]
}

func (s *fstate) set(v ssa.Value, l flabel) {
	if v == nil || l == lNone {
		return
	}
	if l > s.taint[v] {
		s.taint[v] = l
		s.change = true
	}
}

// chainLabel: taint of a loaded/addressed location = strongest taint along the address chain.
func (s *fstate) chainLabel(v ssa.Value) flabel {
	best := lNone
	for d := 0; d < 12 && v != nil; d++ {
		if l := s.taint[v]; l > best {
			best = l
		}
		switch x := v.(type) {
		case *ssa.FieldAddr:
			v = x.X
		case *ssa.IndexAddr:
			v = x.X
		case *ssa.UnOp:
			if x.Op != token.MUL {
				return best
			}
			v = x.X
		case *ssa.Slice:
			v = x.X
		case *ssa.Field:
			v = x.X
		case *ssa.Index:
			v = x.X
		default:
			return best
		}
	}
	return best
}

// storeInto handles `*addr = val` (or an out-parameter write) with label l.
func (s *fstate) storeInto(addr ssa.Value, l flabel) {
	s.storeIntoV(addr, l, map[ssa.Value]bool{})
}

func (s *fstate) storeIntoV(addr ssa.Value, l flabel, seen map[ssa.Value]bool) {
	if l == lNone || seen[addr] {
		return
	}
	seen[addr] = true
	v := addr
	var firstField *ssa.FieldAddr
	ctxField := ""
	modField := ""
	for d := 0; d < 14 && v != nil; d++ {
		switch x := v.(type) {
		case *ssa.FieldAddr:
			if firstField == nil {
				firstField = x
			}
			if ctxField == "" && s.e.isContextType(x.X.Type()) {
				ctxField = structFieldKey(x)
			}
			if modField == "" && isModuleStruct(x.X.Type()) {
				modField = structFieldKey(x)
			}
			v = x.X
			continue
		case *ssa.IndexAddr:
			v = x.X
			continue
		case *ssa.UnOp:
			if x.Op == token.MUL {
				v = x.X
				continue
			}
		case *ssa.Slice:
			v = x.X
			continue
		case *ssa.ChangeType:
			v = x.X
			continue
		case *ssa.Convert:
			v = x.X
			continue
		case *ssa.Phi:
			for _, ed := range x.Edges {
				s.storeIntoV(ed, l, seen)
			}
			return
		}
		break
	}
	root := v
	if ctxField != "" {
		if up(s.sum.stores, ctxField, l) {
			s.change = true
		}
		return // gadget-state object: field-based only
	}
	if modField != "" {
		local := false
		switch x := root.(type) {
		case *ssa.Alloc:
			if sv := singleStore(x); sv == nil {
				local = true
			} else if _, isP := sv.(*ssa.Parameter); !isP {
				local = true
			}
		case *ssa.MakeSlice, *ssa.MakeMap:
			local = true
		}
		if !local {
			// the object outlives this function or is shared: also a field-based heap store
			if up(s.sum.stores, modField, l) {
				s.change = true
			}
		}
	}
	switch x := root.(type) {
	case *ssa.Parameter:
		if x.Parent() == s.fn {
			if upi(s.sum.outs, paramIndex(x), l) {
				s.change = true
			}
		}
		s.set(x, l)
	case *ssa.FreeVar:
		s.set(x, l)
		// free variable cell: writes are visible to the parent; modelled as out-flow nParams+k
		for k, fv := range s.fn.FreeVars {
			if fv == x {
				if upi(s.sum.outs, len(s.fn.Params)+k, l) {
					s.change = true
				}
			}
		}
	case *ssa.Global:
		if up(s.sum.stores, "global:"+x.Name(), l) {
			s.change = true
		}
	default:
		if root != nil {
			s.set(root, l)
			// also the intermediate address values, so that later loads through the same SSA values see it
			s.set(addr, l)
		}
	}
}

func (s *fstate) sink(kind string, l flabel) { s.sinkAt(kind, l, siteKey(s.cur)) }

// siteKey identifies a sink instruction.
func siteKey(ins ssa.Instruction) string {
	if ins == nil {
		return ""
	}
	// the enclosing function is part of the identity: every instantiation of a generic function has its own copy of
	// the instruction at the same source position (and its own blocks, which siteTotals relies on)
	fn := ""
	if p := ins.Parent(); p != nil {
		fn = p.String()
	}
	if ins.Pos().IsValid() {
		return fmt.Sprintf("%d@%s", ins.Pos(), fn)
	}
	return fmt.Sprintf("%p@%s", ins, fn)
}

// siteCnt: distinct call paths from a local site to sinks: all of them, and those reached by the wire itself (raw).
// Path counts are invariant under extracting / inlining helpers and wrappers (paths only get longer or shorter).
type siteCnt struct{ all, raw int }

const siteCntMax = 1 << 30

func (s *fstate) sinkAt(kind string, l flabel, site string) {
	if l == lNone {
		return
	}
	c := siteCnt{all: 1}
	if l == lRaw {
		c.raw = 1
	}
	s.sinkCnt(kind, l, site, c)
}

func (s *fstate) sinkCnt(kind string, l flabel, site string, c siteCnt) {
	if l == lNone {
		return
	}
	if up(s.sum.sinks, kind, l) {
		s.change = true
	}
	if site != "" {
		if s.cur != nil && s.cur.Block() != nil {
			siteBlock[site] = s.cur.Block()
		}
		m := s.sum.sites[kind]
		if m == nil {
			m = map[string]siteCnt{}
			s.sum.sites[kind] = m
		}
		old := m[site]
		if c.all > old.all || c.raw > old.raw {
			if c.all < old.all {
				c.all = old.all
			}
			if c.raw < old.raw {
				c.raw = old.raw
			}
			m[site] = c
			s.change = true
		}
	}
}

// siteBlock remembers the basic block of every recorded site (site keys are unique per instruction and parameter).
var siteBlock = map[string]*ssa.BasicBlock{}

// siteTotals: the number of call paths to sinks of one kind. Sites in mutually exclusive branches are alternatives,
// not additions: per function the total is the heaviest acyclic path through the CFG (block weight = sum of the
// counts of its sites, back edges ignored), so merging two duplicated assertions of an if/else into one — or
// splitting one into two exclusive copies — does not change it; totals of different functions add up.
func siteTotals(m map[string]siteCnt) siteCnt {
	type bw struct{ all, raw int }
	perFn := map[*ssa.Function]map[*ssa.BasicBlock]*bw{}
	var loose siteCnt
	for site, c := range m {
		b := siteBlock[site]
		if b == nil {
			loose.all += c.all
			loose.raw += c.raw
			continue
		}
		f := b.Parent()
		if perFn[f] == nil {
			perFn[f] = map[*ssa.BasicBlock]*bw{}
		}
		w := perFn[f][b]
		if w == nil {
			w = &bw{}
			perFn[f][b] = w
		}
		w.all += c.all
		w.raw += c.raw
	}
	t := loose
	for f, ws := range perFn {
		bestAll, bestRaw := 0, 0
		distAll := map[*ssa.BasicBlock]int{}
		distRaw := map[*ssa.BasicBlock]int{}
		// blocks in reverse post order: predecessors (except through back edges) come first
		for _, b := range rpo(f) {
			da, dr := 0, 0
			for _, pr := range b.Preds {
				if b.Dominates(pr) {
					continue // back edge
				}
				if distAll[pr] > da {
					da = distAll[pr]
				}
				if distRaw[pr] > dr {
					dr = distRaw[pr]
				}
			}
			if w := ws[b]; w != nil {
				da += w.all
				dr += w.raw
			}
			distAll[b], distRaw[b] = da, dr
			if da > bestAll {
				bestAll = da
			}
			if dr > bestRaw {
				bestRaw = dr
			}
		}
		t.all += bestAll
		t.raw += bestRaw
	}
	if t.all > siteCntMax {
		t.all = siteCntMax
	}
	if t.raw > siteCntMax {
		t.raw = siteCntMax
	}
	return t
}

var rpoMemo = map[*ssa.Function][]*ssa.BasicBlock{}

func rpo(f *ssa.Function) []*ssa.BasicBlock {
	if r, ok := rpoMemo[f]; ok {
		return r
	}
	seen := map[*ssa.BasicBlock]bool{}
	var post []*ssa.BasicBlock
	var dfs func(b *ssa.BasicBlock)
	dfs = func(b *ssa.BasicBlock) {
		seen[b] = true
		for _, s := range b.Succs {
			if !seen[s] {
				dfs(s)
			}
		}
		post = append(post, b)
	}
	if len(f.Blocks) > 0 {
		dfs(f.Blocks[0])
	}
	for i, j := 0, len(post)-1; i < j; i, j = i+1, j-1 {
		post[i], post[j] = post[j], post[i]
	}
	rpoMemo[f] = post
	return post
}

func (s *fstate) applySummary(sum *flowSummary, argLabel flabel, call ssa.Value, args []ssa.Value, nParams int, closure *ssa.MakeClosure) {
	for k, l := range sum.sinks {
		s.sinkAt(k, minLabel(argLabel, l), "")
	}
	// call-path sensitivity: the call site contributes as many paths as the callee's parameter has
	// one entry per (call site, parameter): the same operand handed over through two parameters takes two paths
	ctx := fmt.Sprintf("%s#p%d", siteKey(s.cur), s.curParam)
	for k, m := range sum.sites {
		t := siteTotals(m)
		if argLabel != lRaw {
			t.raw = 0
		}
		l := lDerived
		if t.raw > 0 {
			l = lRaw
		}
		s.sinkCnt(k, minLabel(argLabel, l), ctx, t)
	}
	for k, l := range sum.stores {
		if up(s.sum.stores, k, minLabel(argLabel, l)) {
			s.change = true
		}
	}
	if call != nil {
		for j, l := range sum.rets {
			s.setResult(call, j, minLabel(argLabel, l))
		}
	}
	for k, l := range sum.outs {
		if k < len(args) && k < nParams {
			s.storeInto(args[k], minLabel(argLabel, l))
			s.set(args[k], minLabel(argLabel, l))
		} else if closure != nil && k-nParams >= 0 && k-nParams < len(closure.Bindings) {
			b := closure.Bindings[k-nParams]
			s.storeInto(b, minLabel(argLabel, l))
			s.set(b, minLabel(argLabel, l))
		}
	}
}

func (s *fstate) setResult(call ssa.Value, idx int, l flabel) {
	if l == lNone {
		return
	}
	sig, _ := call.Type().(*types.Tuple)
	if sig == nil {
		if idx == 0 {
			s.set(call, l)
		}
		return
	}
	m := s.tup[call]
	if m == nil {
		m = map[int]flabel{}
		s.tup[call] = m
	}
	if l > m[idx] {
		m[idx] = l
		s.change = true
	}
}

func isVariableLike(t types.Type) bool {
	// frontend.Variable, slices/arrays/pointers/structs thereof: anything but plain scalars, strings, errors, funcs
	switch u := t.Underlying().(type) {
	case *types.Basic:
		return false
	case *types.Signature:
		return false
	case *types.Interface:
		return !isErrorType(t)
	case *types.Tuple:
		return true
	default:
		_ = u
		return true
	}
}

func (s *fstate) step(ins ssa.Instruction) {
	s.cur = ins
	switch x := ins.(type) {
	case *ssa.Phi:
		for _, ed := range x.Edges {
			s.set(x, s.get(ed))
		}
	case *ssa.UnOp:
		if x.Op == token.MUL {
			s.set(x, s.chainLabel(x.X))
		} else if x.Op == token.ARROW {
			s.set(x, s.get(x.X))
		} else if s.get(x.X) != lNone {
			s.set(x, lDerived)
		}
	case *ssa.BinOp:
		if s.get(x.X) != lNone || s.get(x.Y) != lNone {
			s.set(x, lDerived)
		}
	case *ssa.Convert:
		s.set(x, s.get(x.X))
	case *ssa.ChangeType:
		s.set(x, s.get(x.X))
	case *ssa.ChangeInterface:
		s.set(x, s.get(x.X))
	case *ssa.MakeInterface:
		s.set(x, s.get(x.X))
	case *ssa.TypeAssert:
		if x.CommaOk {
			s.setResult(x, 0, s.get(x.X))
		} else {
			s.set(x, s.get(x.X))
		}
	case *ssa.Slice:
		s.set(x, s.chainLabel(x.X))
	case *ssa.SliceToArrayPointer:
		s.set(x, s.get(x.X))
	case *ssa.Field:
		s.set(x, s.get(x.X))
	case *ssa.FieldAddr:
		s.set(x, s.get(x.X))
	case *ssa.Index:
		s.set(x, s.get(x.X))
	case *ssa.IndexAddr:
		s.set(x, s.get(x.X))
	case *ssa.Lookup:
		if x.CommaOk {
			s.setResult(x, 0, s.get(x.X))
		} else {
			s.set(x, s.get(x.X))
		}
	case *ssa.Range:
		s.set(x, s.get(x.X))
	case *ssa.Next:
		l := s.get(x.Iter)
		s.setResult(x, 1, l)
		s.setResult(x, 2, l)
	case *ssa.Extract:
		if m := s.tup[x.Tuple]; m != nil {
			s.set(x, m[x.Index])
		}
	case *ssa.Store:
		s.storeInto(x.Addr, s.get(x.Val))
	case *ssa.MapUpdate:
		l := s.get(x.Value)
		if s.get(x.Key) > l {
			l = s.get(x.Key)
		}
		s.storeInto(x.Map, l)
		s.set(x.Map, l)
	case *ssa.Send:
		s.storeInto(x.Chan, s.get(x.X))
		s.set(x.Chan, s.get(x.X))
	case *ssa.MakeClosure:
		fn := x.Fn.(*ssa.Function)
		for k, b := range x.Bindings {
			l := s.chainLabel(b)
			if l == lNone {
				continue
			}
			sum := s.e.summary(fn, len(fn.Params)+k, s.depth+1)
			s.curParam = len(fn.Params) + k
			s.applySummary(sum, l, nil, nil, len(fn.Params), x)
		}
	case *ssa.Return:
		for j, rv := range x.Results {
			if l := s.get(rv); l != lNone {
				if upi(s.sum.rets, j, l) {
					s.change = true
				}
			}
		}
	case ssa.CallInstruction:
		s.call(x)
	}
}

func (s *fstate) call(ci ssa.CallInstruction) {
	cc := ci.Common()
	callVal, _ := ci.(ssa.Value)
	var args []ssa.Value
	if cc.IsInvoke() {
		args = append(args, cc.Value)
	}
	args = append(args, cc.Args...)
	labels := make([]flabel, len(args))
	any := lNone
	for i, a := range args {
		labels[i] = s.chainLabel(a)
		if labels[i] > any {
			any = labels[i]
		}
	}
	if bi, ok := cc.Value.(*ssa.Builtin); ok {
		switch bi.Name() {
		case "append":
			if callVal != nil {
				for _, l := range labels {
					s.set(callVal, l)
				}
			}
		case "copy":
			if len(args) == 2 {
				s.storeInto(args[0], labels[1])
				s.set(args[0], labels[1])
			}
		}
		return
	}
	if any == lNone {
		return
	}
	if cc.IsInvoke() && (frontendIface(cc.Value.Type()) || (isAnonIface(cc.Value.Type()) && sinkMethods[cc.Method.Name()])) {
		name := cc.Method.Name()
		if sinkMethods[name] {
			for i := 1; i < len(args); i++ {
				s.sink(name, labels[i])
			}
			return
		}
		if alsoSink[name] && len(args) > 1 {
			s.sink(name, labels[1])
		}
		if name == "NewHint" || name == "NewHintForId" || name == "Defer" || name == "MarkBoolean" || name == "IsBoolean" || name == "Println" || name == "AddInstruction" && false {
			return
		}
		if name == "AddInstruction" {
			// lookup / custom instruction: the calldata encodes the wires it constrains
			for i := 1; i < len(args); i++ {
				s.sink("AddInstruction", labels[i])
			}
			return
		}
		// arithmetic-like: results derived from operands (receiver excluded)
		l := lNone
		for i := 1; i < len(args); i++ {
			if labels[i] != lNone {
				l = lDerived
			}
		}
		if callVal != nil && l != lNone {
			if tup, ok := callVal.Type().(*types.Tuple); ok {
				for j := 0; j < tup.Len(); j++ {
					if !isErrorType(tup.At(j).Type()) {
						s.setResult(callVal, j, l)
					}
				}
			} else {
				s.set(callVal, l)
			}
		}
		return
	}
	// direct call of a closure value created in this function: parameters and captured variables are both mapped
	if mc, ok := cc.Value.(*ssa.MakeClosure); ok {
		callee := mc.Fn.(*ssa.Function)
		for i, l := range labels {
			if l == lNone || i >= len(callee.Params) {
				continue
			}
			sum := s.e.summary(callee, i, s.depth+1)
			s.curParam = i
			s.applySummary(sum, l, callVal, args, len(callee.Params), mc)
		}
		// what the captured variables flow to inside the closure was applied where the closure was created, except
		// for flows into the parameters and results of this particular call (selectInto(&res, i) writing captured
		// bits into res): apply those here
		for k, b := range mc.Bindings {
			l := s.chainLabel(b)
			if l == lNone {
				continue
			}
			sum := s.e.summary(callee, len(callee.Params)+k, s.depth+1)
			if callVal != nil {
				for j, rl := range sum.rets {
					s.setResult(callVal, j, minLabel(l, rl))
				}
			}
			for pk, ol := range sum.outs {
				if pk < len(args) && pk < len(callee.Params) {
					s.storeInto(args[pk], minLabel(l, ol))
					s.set(args[pk], minLabel(l, ol))
				}
			}
		}
		return
	}
	callees := s.e.cg.Callees(cc)
	handled := false
	for _, callee := range callees {
		pk := FuncPkg(callee)
		if callee.Blocks == nil || pk == nil || !inModule(pk.Path()) {
			continue
		}
		handled = true
		for i, l := range labels {
			if l == lNone || i >= len(callee.Params) {
				continue
			}
			sum := s.e.summary(callee, i, s.depth+1)
			s.curParam = i
			s.applySummary(sum, l, callVal, args, len(callee.Params), nil)
		}
	}
	if handled {
		return
	}
	// foreign / unresolved call: results derived from any tainted argument
	if callVal != nil {
		if tup, ok := callVal.Type().(*types.Tuple); ok {
			for j := 0; j < tup.Len(); j++ {
				if !isErrorType(tup.At(j).Type()) {
					s.setResult(callVal, j, lDerived)
				}
			}
		} else if !isErrorType(callVal.Type()) {
			s.set(callVal, lDerived)
		}
	}
}

// forward propagates from the seeds through fn (and its callees through summaries).
func (e *flowEngine) forward(fn *ssa.Function, seeds map[ssa.Value]flabel, depth int) *flowSummary {
	s := &fstate{e: e, fn: fn, taint: map[ssa.Value]flabel{}, tup: map[ssa.Value]map[int]flabel{}, sum: newSummary(), depth: depth}
	for v, l := range seeds {
		s.taint[v] = l
		// tuple-typed seeds (call results) are seeded per index by the caller through tup
	}
	for iter := 0; iter < 12; iter++ {
		s.change = false
		for _, b := range fn.Blocks {
			for _, ins := range b.Instrs {
				s.step(ins)
			}
		}
		if !s.change {
			break
		}
	}
	return s.sum
}

// forwardTuple seeds result index idx of a call.
func (e *flowEngine) forwardFrom(fn *ssa.Function, call ssa.Value, idx int, l flabel, depth int) *flowSummary {
	s := &fstate{e: e, fn: fn, taint: map[ssa.Value]flabel{}, tup: map[ssa.Value]map[int]flabel{}, sum: newSummary(), depth: depth}
	if _, ok := call.Type().(*types.Tuple); ok {
		s.tup[call] = map[int]flabel{idx: l}
	} else {
		s.taint[call] = l
	}
	for iter := 0; iter < 12; iter++ {
		s.change = false
		for _, b := range fn.Blocks {
			for _, ins := range b.Instrs {
				s.step(ins)
			}
		}
		if !s.change {
			break
		}
	}
	return s.sum
}

func (e *flowEngine) summary(fn *ssa.Function, idx int, depth int) *flowSummary {
	k := sumKey{fn, idx}
	if m, ok := e.memo[k]; ok {
		return m
	}
	if e.inProg[k] || depth > 40 {
		e.cuts++ // recursion cut: whatever is being computed up the stack is incomplete
		return newSummary()
	}
	e.inProg[k] = true
	cutsBefore := e.cuts
	var seed ssa.Value
	if idx < len(fn.Params) {
		seed = fn.Params[idx]
	} else if idx-len(fn.Params) < len(fn.FreeVars) {
		seed = fn.FreeVars[idx-len(fn.Params)]
	}
	var sum *flowSummary
	if seed == nil || fn.Blocks == nil {
		sum = newSummary()
	} else {
		sum = e.forward(fn, map[ssa.Value]flabel{seed: lRaw}, depth)
	}
	delete(e.inProg, k)
	_ = cutsBefore
	// summaries are memoised even when a recursion cycle was cut; every place that issues queries iterates in a
	// sorted order, so the memo contents (and therefore the facts) are the same on every run
	e.memo[k] = sum
	return sum
}

// ---------------------------------------------------------------------------
// field-based heap: sinks reachable from loads of a gadget-state field

func (e *flowEngine) index() {
	if e.indexed {
		return
	}
	e.indexed = true
	for _, fn := range e.p.Funcs {
		for _, b := range fn.Blocks {
			for _, ins := range b.Instrs {
				switch x := ins.(type) {
				case *ssa.FieldAddr:
					if isModuleStruct(x.X.Type()) && fieldIsRead(x) {
						k := structFieldKey(x)
						e.fieldLoad[k] = append(e.fieldLoad[k], x)
					}
				case *ssa.Call:
					if cal := x.Call.StaticCallee(); cal != nil {
						e.callSites[cal] = append(e.callSites[cal], x)
						if o := cal.Origin(); o != nil && o != cal {
							e.callSites[o] = append(e.callSites[o], x)
						}
					}
				}
			}
		}
	}
}

// fieldInfo: sinks reached directly from the reads of field key, and the fields those values are stored into.
func (e *flowEngine) fieldInfo(key string) (map[string]flabel, map[string]bool) {
	e.index()
	if e.fieldDir == nil {
		e.fieldDir, e.fieldEdge = map[string]map[string]flabel{}, map[string]map[string]bool{}
	}
	if d, ok := e.fieldDir[key]; ok {
		return d, e.fieldEdge[key]
	}
	dir := map[string]flabel{}
	edges := map[string]bool{}
	e.fieldDir[key], e.fieldEdge[key] = dir, edges
	for _, fa := range e.fieldLoad[key] {
		ins := fa.(ssa.Instruction)
		fn := ins.Parent()
		sum := e.forward(fn, map[ssa.Value]flabel{fa: lRaw}, 1)
		for k, l := range sum.sinks {
			up(dir, k, l)
		}
		for sk := range sum.stores {
			if sk != key {
				edges[sk] = true
			}
		}
		for _, j := range sortedInts(sum.rets) {
			l := sum.rets[j]
			es, est := e.escapeInfo(fn, j, l, 1)
			for k, l2 := range es {
				up(dir, k, l2)
			}
			for sk := range est {
				if sk != key {
					edges[sk] = true
				}
			}
		}
	}
	return dir, edges
}

// fieldSinks: sink kinds reachable from any read of field key, transitively through the fields the read values are
// stored into (closure over the field graph: complete and independent of evaluation order).
func (e *flowEngine) fieldSinks(key string, depth int) map[string]flabel {
	if m, ok := e.fieldMemo[key]; ok {
		return m
	}
	out := map[string]flabel{}
	seen := map[string]bool{key: true}
	work := []string{key}
	for len(work) > 0 {
		k := work[len(work)-1]
		work = work[:len(work)-1]
		dir, edges := e.fieldInfo(k)
		for s, l := range dir {
			up(out, s, l)
		}
		var es []string
		for sk := range edges {
			es = append(es, sk)
		}
		sort.Strings(es)
		for _, sk := range es {
			if !seen[sk] {
				seen[sk] = true
				work = append(work, sk)
			}
		}
	}
	e.fieldMemo[key] = out
	return out
}

// escapeInfo: sinks and field stores reached in the callers of fn by its result idx (bounded depth).
func (e *flowEngine) escapeInfo(fn *ssa.Function, idx int, l flabel, depth int) (map[string]flabel, map[string]bool) {
	e.index()
	sinks := map[string]flabel{}
	stores := map[string]bool{}
	if depth > 3 {
		return sinks, stores
	}
	sites := append([]*ssa.Call{}, e.callSites[fn]...)
	if o := fn.Origin(); o != nil && o != fn {
		sites = append(sites, e.callSites[o]...)
	}
	seen := map[*ssa.Call]bool{}
	for _, cs := range sites {
		if seen[cs] {
			continue
		}
		seen[cs] = true
		caller := cs.Parent()
		sum := e.forwardFrom(caller, cs, idx, l, 1)
		for k, l2 := range sum.sinks {
			up(sinks, k, l2)
		}
		for sk := range sum.stores {
			stores[sk] = true
		}
		for _, j := range sortedInts(sum.rets) {
			l2 := sum.rets[j]
			s2, st2 := e.escapeInfo(caller, j, l2, depth+1)
			for k, l3 := range s2 {
				up(sinks, k, l3)
			}
			for sk := range st2 {
				stores[sk] = true
			}
		}
	}
	return sinks, stores
}

// ---------------------------------------------------------------------------
// sources

type flowSource struct {
	fn    *ssa.Function
	call  ssa.Value
	idx   int    // result index carrying the wires
	kind  string // hint | internal
	label string // hint function descriptor
	ord   int
}

func (s *flowSource) Key() string {
	return fmt.Sprintf("%s:%s#%d", s.kind, s.label, s.ord)
}

var hintCallNames = map[string]bool{"NewHint": true, "NewHintForId": true}

// findSources lists hint-output and internal-variable sources in fn.
func (e *flowEngine) findSources(fn *ssa.Function) []*flowSource {
	var out []*flowSource
	ord := map[string]int{}
	for _, b := range fn.Blocks {
		for _, ins := range b.Instrs {
			c, ok := ins.(*ssa.Call)
			if !ok {
				continue
			}
			cc := &c.Call
			if cal := cc.StaticCallee(); cal != nil && cal.Signature.Recv() != nil && namedName(cal.Signature.Recv().Type()) == "Field" && strings.HasPrefix(funcBaseName(cal), "NewHint") &&
				FuncPkg(cal) != nil && FuncPkg(cal).Path() == modPath+"/std/math/emulated" && FuncPkg(fn).Path() != modPath+"/std/math/emulated" {
				lbl := "?"
				if len(cc.Args) > 1 {
					lbl = Abstract(strings.TrimPrefix(Desc(cc.Args[1]), "func:"))
				}
				ord[lbl]++
				out = append(out, &flowSource{fn: fn, call: c, idx: 0, kind: "hint", label: "emulated:" + lbl, ord: ord[lbl]})
				continue
			}
			if cal := cc.StaticCallee(); cal != nil && cal.Signature.Recv() != nil && namedName(cal.Signature.Recv().Type()) == "builder" {
				switch funcBaseName(cal) {
				case "NewHint", "NewHintForId", "newHint":
					lbl := "?"
					if len(cc.Args) > 1 {
						lbl = Abstract(strings.TrimPrefix(Desc(cc.Args[1]), "func:"))
					}
					ord[lbl]++
					out = append(out, &flowSource{fn: fn, call: c, idx: 0, kind: "hint", label: lbl, ord: ord[lbl]})
				case "newInternalVariable":
					ord["internal"]++
					out = append(out, &flowSource{fn: fn, call: c, idx: 0, kind: "internal", label: "newInternalVariable", ord: ord["internal"]})
				}
				continue
			}
			if cc.IsInvoke() && frontendIface(cc.Value.Type()) {
				name := cc.Method.Name()
				switch {
				case hintCallNames[name]:
					lbl := "?"
					if len(cc.Args) > 0 {
						lbl = Abstract(strings.TrimPrefix(Desc(cc.Args[0]), "func:"))
					}
					ord[lbl]++
					out = append(out, &flowSource{fn: fn, call: c, idx: 0, kind: "hint", label: lbl, ord: ord[lbl]})
				case name == "InternalVariable":
					ord["internal"]++
					out = append(out, &flowSource{fn: fn, call: c, idx: 0, kind: "internal", label: "InternalVariable", ord: ord["internal"]})
				}
			}
		}
	}
	return out
}

// Facts computes the *local* fact set of one source: sinks reached inside its function and the callees
// (through summaries), sinks reached through gadget-state fields it is stored into ("heap:Kind"), the
// fields themselves ("store:T.F", informational) and "escape:retN" markers. Facts of callers are not
// included: a value that leaves the function is a new source at each call site (RetSources).
func (e *flowEngine) Facts(src *flowSource) map[string]flabel {
	out, _ := e.FactsSites(src)
	return out
}

// FactsSites additionally returns the identities of the sink sites reached, per kind.
func (e *flowEngine) FactsSites(src *flowSource) (map[string]flabel, map[string]map[string]siteCnt) {
	out := map[string]flabel{}
	sum := e.forwardFrom(src.fn, src.call, src.idx, lRaw, 0)
	e.collectLocal(out, sum)
	sites := map[string]map[string]siteCnt{}
	for k, m := range sum.sites {
		sites[k] = map[string]siteCnt{}
		for st, c := range m {
			sites[k][st] = c
		}
	}
	return out, sites
}

func (e *flowEngine) collectLocal(out map[string]flabel, sum *flowSummary) {
	for k, l := range sum.sinks {
		up(out, k, l)
	}
	for k, m := range sum.sites {
		t := siteTotals(m)
		// counts are carried as pseudo-facts "Kind#n" (all call paths) and "Kind#raw#n"
		out[fmt.Sprintf("%s#%d", k, t.all)] = lDerived
		if t.raw > 0 {
			out[fmt.Sprintf("%s#raw#%d", k, t.raw)] = lRaw
		}
	}
	var sks []string
	for sk := range sum.stores {
		sks = append(sks, sk)
	}
	sort.Strings(sks)
	for _, sk := range sks {
		up(out, "store:"+sk, sum.stores[sk])
		for k := range e.fieldSinks(sk, 0) {
			if !strings.HasPrefix(k, "store:") {
				up(out, heapKey(k), lDerived)
			}
		}
	}
	for j, l := range sum.rets {
		up(out, fmt.Sprintf("escape:ret%d", j), l)
	}
}

// ParamFacts computes the local fact set of parameter idx of fn.
func (e *flowEngine) ParamFacts(fn *ssa.Function, idx int) map[string]flabel {
	out := map[string]flabel{}
	e.collectLocal(out, e.summary(fn, idx, 0))
	return out
}

// RetSources: call sites of fn (static calls from module functions) as derived sources for result idx.
func (e *flowEngine) RetSources(fn *ssa.Function, idx int) []*flowSource {
	e.index()
	sites := append([]*ssa.Call{}, e.callSites[fn]...)
	if o := fn.Origin(); o != nil && o != fn {
		sites = append(sites, e.callSites[o]...)
	}
	seen := map[*ssa.Call]bool{}
	ord := map[*ssa.Function]int{}
	var out []*flowSource
	sort.Slice(sites, func(i, j int) bool { return sites[i].Pos() < sites[j].Pos() })
	for _, cs := range sites {
		if seen[cs] {
			continue
		}
		seen[cs] = true
		caller := cs.Parent()
		if FuncPkg(caller) != FuncPkg(fn) {
			continue // a value crossing a package boundary is an API output; only package-internal helpers are followed
		}
		ord[caller]++
		out = append(out, &flowSource{fn: caller, call: cs, idx: idx, kind: "ret", label: fmt.Sprintf("%s.%d", Abstract(FuncName(fn)), idx), ord: ord[caller]})
	}
	return out
}

func factsString(m map[string]flabel) string {
	var ks []string
	for k, l := range m {
		ks = append(ks, k+":"+l.String())
	}
	sort.Strings(ks)
	return strings.Join(ks, " ")
}

// heapKey flattens nested heap prefixes: a sink reached through any number of fields is "heap:Kind".
func heapKey(k string) string {
	for strings.HasPrefix(k, "heap:") {
		k = strings.TrimPrefix(k, "heap:")
	}
	if strings.HasPrefix(k, "store:") {
		return k
	}
	return "heap:" + k
}

func isModuleStruct(t types.Type) bool {
	n, ok := deref(t).(*types.Named)
	if !ok || n.Obj().Pkg() == nil || !inModule(n.Obj().Pkg().Path()) {
		return false
	}
	_, isSt := n.Underlying().(*types.Struct)
	return isSt
}

// fieldIsRead: the field address is loaded or passed on (not merely the target of a store).
func fieldIsRead(fa *ssa.FieldAddr) bool {
	refs := fa.Referrers()
	if refs == nil {
		return false
	}
	for _, r := range *refs {
		switch x := r.(type) {
		case *ssa.Store:
			if x.Addr == fa {
				continue
			}
			return true
		case *ssa.DebugRef:
			continue
		default:
			return true
		}
	}
	return false
}

func isAnonIface(t types.Type) bool {
	_, ok := t.(*types.Interface)
	return ok
}

// funcBaseName: method / function name without the type-argument suffix of generic instances.
func funcBaseName(f *ssa.Function) string {
	if o := f.Origin(); o != nil {
		f = o
	}
	n := f.Name()
	if i := strings.Index(n, "["); i > 0 {
		n = n[:i]
	}
	return n
}

func sortedInts(m map[int]flabel) []int {
	var ks []int
	for k := range m {
		ks = append(ks, k)
	}
	sort.Ints(ks)
	return ks
}
