package main

import (
	"encoding/json"
	"fmt"
	"go/ast"
	"go/token"
	"go/types"
	"os"
	"path/filepath"
	"sort"
	"strings"

	"golang.org/x/tools/go/ssa"
)

// flow rules: FLOW-SOME (Tier I) and FLOW-REF (Tier II, rules/flow.json)

type flowRef struct {
	Comment string                         `json:"comment"`
	Sources map[string]map[string][]string `json:"sources"`          // area -> "func | source key" -> required facts ("Kind:label", "heap:Kind")
	Params  map[string]map[string][]string `json:"params"`           // area -> "func | param#i" -> required facts
	Relax   []string                       `json:"relaxing_options"` // option constructors documented as unsafe: they switch constraints off
	RelaxOK map[string]map[string]int      `json:"relaxing_sites"`   // area -> function -> reviewed number of call sites passing such an option
	FnLoop  map[string]map[string][]string `json:"fnloop"`           // area -> "func | loop-sites" -> "Kind#n": constraint sites executed in every iteration of their loop
	FnMust  map[string]map[string][]string `json:"fnmust"`           // area -> "func | must-sites" -> "Kind#n": constraint sites executed on every successful path
	FnSites map[string]map[string][]string `json:"fnsites"`          // area -> "func | hint-sites" -> "Kind#n": distinct sink sites reached by the function's hint outputs
	Exempt  map[string]string              `json:"exempt"`           // "func | source key" -> reason (FLOW-SOME exemptions)
}

func loadFlowRef() (*flowRef, error) {
	b, err := os.ReadFile(filepath.Join(verifDir, "rules", "flow.json"))
	if err != nil {
		return nil, err
	}
	var r flowRef
	if err := json.Unmarshal(b, &r); err != nil {
		return nil, err
	}
	return &r, nil
}

type srcFacts struct {
	src      *flowSource
	facts    map[string]flabel
	sites    map[string]map[string]siteCnt // kind -> local site -> call paths to sinks
	children []*srcFacts                   // same-package call sites receiving the escaping value
}

// constrained: the source reaches a sink itself, or every same-package call site that receives it does.
func (sf *srcFacts) constrained(depth int) (bool, string) {
	if len(sinkFacts(sf.facts)) > 0 {
		return true, ""
	}
	esc := false
	for k := range sf.facts {
		if strings.HasPrefix(k, "escape:") {
			esc = true
		}
	}
	if !esc {
		return false, "reaches nothing in " + FuncName(sf.src.fn)
	}
	if depth >= 3 || len(sf.children) == 0 {
		return true, "" // API output / depth bound: the value is handed to code outside the package
	}
	for _, c := range sf.children {
		if ok, why := c.constrained(depth + 1); !ok {
			return false, "handed to " + FuncName(c.src.fn) + " where it " + why
		}
	}
	return true, ""
}

// collectSources computes, for the functions of the given package prefixes, the local facts of every
// hint / internal-wire source and (recursively, bounded) of every call site receiving an escaping source.
func collectSources(p *Prog, e *flowEngine, scope func(pkg string) bool) map[string][]*srcFacts {
	out := map[string][]*srcFacts{}
	var addSrc func(src *flowSource, depth int) *srcFacts
	// keyed by (call, result index, kind): a call of the builders' own NewHint is both a hint source of its function
	// and a call site receiving what (*builder).NewHint returns ("ret" source); the two must not shadow each other
	// (which one came first depended on the order of the function list)
	type srcKey struct {
		idx  int
		kind string
	}
	seenSrc := map[ssa.Value]map[srcKey]*srcFacts{}
	addSrc = func(src *flowSource, depth int) *srcFacts {
		if seenSrc[src.call] == nil {
			seenSrc[src.call] = map[srcKey]*srcFacts{}
		}
		sk := srcKey{src.idx, src.kind}
		if old := seenSrc[src.call][sk]; old != nil {
			return old
		}
		pk := FuncPkg(src.fn)
		if pk == nil {
			return nil
		}
		f, sites := e.FactsSites(src)
		key := Abstract(FuncName(src.fn)) + " | " + src.Key()
		me := &srcFacts{src: src, facts: f, sites: sites}
		seenSrc[src.call][sk] = me
		out[key] = append(out[key], me)
		if depth >= 3 {
			return me
		}
		var fkeys []string
		for k := range f {
			fkeys = append(fkeys, k)
		}
		sort.Strings(fkeys)
		for _, k := range fkeys {
			l := f[k]
			if !strings.HasPrefix(k, "escape:ret") || l == lNone {
				continue
			}
			var j int
			fmt.Sscanf(k, "escape:ret%d", &j)
			for _, rs := range e.RetSources(src.fn, j) {
				if c := addSrc(rs, depth+1); c != nil {
					me.children = append(me.children, c)
				}
			}
		}
		return me
	}
	for _, fn := range p.Funcs {
		pk := FuncPkg(fn)
		if pk == nil || !scope(pk.Path()) {
			continue
		}
		for _, src := range e.findSources(fn) {
			addSrc(src, 0)
		}
	}
	return out
}

func sinkFacts(f map[string]flabel) []string {
	var ks []string
	for k, l := range f {
		if strings.HasPrefix(k, "store:") || strings.HasPrefix(k, "escape:") || strings.Contains(k, "#") {
			continue
		}
		if strings.HasPrefix(k, "heap:") {
			ks = append(ks, k)
		} else {
			ks = append(ks, k+":"+l.String())
		}
	}
	sort.Strings(ks)
	return ks
}

// fset: sink facts with per-kind site counts.
type fset struct {
	lab  map[string]flabel // "Kind" / "heap:Kind" -> label
	nAll map[string]int    // "Kind" -> distinct sink sites reached
	nRaw map[string]int    // "Kind" -> distinct sink sites reached by the wire itself
}

func newFset() *fset {
	return &fset{lab: map[string]flabel{}, nAll: map[string]int{}, nRaw: map[string]int{}}
}

func fsetOf(f map[string]flabel) *fset {
	out := newFset()
	for k, l := range f {
		if strings.HasPrefix(k, "store:") || strings.HasPrefix(k, "escape:") {
			continue
		}
		if i := strings.Index(k, "#raw#"); i > 0 {
			var n int
			fmt.Sscanf(k[i+5:], "%d", &n)
			out.nRaw[k[:i]] = n
			continue
		}
		if i := strings.Index(k, "#"); i > 0 {
			var n int
			fmt.Sscanf(k[i+1:], "%d", &n)
			out.nAll[k[:i]] = n
			continue
		}
		out.lab[k] = l
	}
	return out
}

// meet: intersection (weakest label, smallest counts).
func (a *fset) meet(b *fset) *fset {
	out := newFset()
	for k, l := range a.lab {
		if l2, ok := b.lab[k]; ok {
			out.lab[k] = minLabel(l, l2)
		}
	}
	for k, n := range a.nAll {
		if n2 := b.nAll[k]; n2 < n {
			n = n2
		}
		if n > 0 {
			out.nAll[k] = n
		}
	}
	for k, n := range a.nRaw {
		if n2 := b.nRaw[k]; n2 < n {
			n = n2
		}
		if n > 0 {
			out.nRaw[k] = n
		}
	}
	return out
}

// plus: union of facts, counts added (sites in callers are distinct from local ones).
func (a *fset) plus(b *fset) *fset {
	out := newFset()
	for k, l := range a.lab {
		out.lab[k] = l
	}
	for k, l := range b.lab {
		if l > out.lab[k] {
			out.lab[k] = l
		}
	}
	for k, n := range a.nAll {
		out.nAll[k] = n
	}
	for k, n := range b.nAll {
		out.nAll[k] += n
	}
	for k, n := range a.nRaw {
		out.nRaw[k] = n
	}
	for k, n := range b.nRaw {
		out.nRaw[k] += n
	}
	return out
}

// chainFacts: facts of a source including what happens to it at the same-package call sites it is handed
// to: local + meet over children.
func (sf *srcFacts) chainFacts(depth int) *fset {
	out := fsetOf(sf.facts)
	if depth >= 3 || len(sf.children) == 0 {
		return out
	}
	// children are the same-package call sites that receive an escaping result: every call site receiving result j
	// must constrain it (meet over call sites), while different results of the same function are different parts
	// of the value (plus over result indices)
	byIdx := map[int]*fset{}
	var idxs []int
	for _, c := range sf.children {
		cf := c.chainFacts(depth + 1)
		j := c.src.idx
		if old, ok := byIdx[j]; ok {
			byIdx[j] = old.meet(cf)
		} else {
			byIdx[j] = cf
			idxs = append(idxs, j)
		}
	}
	sort.Ints(idxs)
	for _, j := range idxs {
		out = out.plus(byIdx[j])
	}
	return out
}

// refKey: hint sources are keyed by package and hint function (robust against renaming / inlining of the
// helper that calls the hint); internal wires are keyed by their function.
func refKey(sf *srcFacts) string {
	pk := FuncPkg(sf.src.fn).Path()
	if sf.src.kind == "hint" {
		return Abstract(pk) + " | hint:" + sf.src.label
	}
	return Abstract(FuncName(sf.src.fn)) + " | " + sf.src.Key()
}

// aggregate: per reference key, the meet over all matching sources of their chain facts.
func aggregate(srcs map[string][]*srcFacts) (map[string]*fset, map[string][]*srcFacts) {
	agg := map[string]*fset{}
	members := map[string][]*srcFacts{}
	for _, list := range srcs {
		for _, sf := range list {
			if sf.src.kind == "ret" {
				continue
			}
			k := refKey(sf)
			members[k] = append(members[k], sf)
			cf := sf.chainFacts(0)
			if agg[k] == nil {
				agg[k] = cf
			} else {
				agg[k] = agg[k].meet(cf)
			}
		}
	}
	return agg, members
}

// fnSites: per top-level function that creates hint outputs, the number of distinct sink sites (per kind) reached by
// any of them, including the sites reached at same-package call sites the value is handed to. Sibling
// instantiations (curves, generic instances) are merged by minimum.
var fnSitePos = map[string]token.Pos{}

func fnSites(srcs map[string][]*srcFacts) map[string]map[string]int {
	type acc map[string]map[string]siteCnt
	per := map[*ssa.Function]acc{}
	var collect func(a acc, sf *srcFacts, depth int, seen map[*srcFacts]bool)
	collect = func(a acc, sf *srcFacts, depth int, seen map[*srcFacts]bool) {
		if seen[sf] || depth > 3 {
			return
		}
		seen[sf] = true
		for k, m := range sf.sites {
			if a[k] == nil {
				a[k] = map[string]siteCnt{}
			}
			for s, c := range m {
				if c.all > a[k][s].all {
					a[k][s] = c
				}
			}
		}
		for _, c := range sf.children {
			collect(a, c, depth+1, seen)
		}
	}
	for _, list := range srcs {
		for _, sf := range list {
			if sf.src.kind != "hint" {
				continue
			}
			// the sites reached by this hint's outputs are attributed to the function that calls the hint (its own
			// sites and those of every receiver) and, for every same-package function the outputs are returned to,
			// the hint-local sites plus what happens in and below that receiver — not what other receivers do (so that
			// moving the hint call and its local checks into a helper, or inlining such a helper, leaves the count
			// of the function unchanged)
			top := sf.src.fn
			for top.Parent() != nil {
				top = top.Parent()
			}
			if per[top] == nil {
				per[top] = acc{}
			}
			collect(per[top], sf, 0, map[*srcFacts]bool{})
			var recv func(x *srcFacts, d int)
			recv = func(x *srcFacts, d int) {
				if d >= 3 {
					return
				}
				for _, c := range x.children {
					ct := c.src.fn
					for ct.Parent() != nil {
						ct = ct.Parent()
					}
					if ct != top {
						if per[ct] == nil {
							per[ct] = acc{}
						}
						// hint-local sites + the receiver's subtree
						loc := &srcFacts{src: sf.src, sites: sf.sites}
						collect(per[ct], loc, 0, map[*srcFacts]bool{})
						collect(per[ct], c, 0, map[*srcFacts]bool{})
					}
					recv(c, d+1)
				}
			}
			recv(sf, 0)
		}
	}
	out := map[string]map[string]int{}
	for fn, a := range per {
		k := Abstract(FuncName(fn)) + " | hint-sites"
		if old, ok := fnSitePos[k]; !ok || FuncPos(fn) < old {
			fnSitePos[k] = FuncPos(fn)
		}
		cur := map[string]int{}
		for kind, m := range a {
			cur[kind] = siteTotals(m).all
		}
		if old, ok := out[k]; ok {
			for kind, n := range old {
				if cur[kind] < n {
					old[kind] = cur[kind]
				}
			}
			for kind := range old {
				if old[kind] == 0 {
					delete(old, kind)
				}
			}
		} else {
			out[k] = cur
		}
	}
	return out
}

func siteList(m map[string]int) []string {
	var ks []string
	for k, n := range m {
		ks = append(ks, fmt.Sprintf("%s#%d", k, n))
	}
	sort.Strings(ks)
	return ks
}

func factList(f *fset) []string {
	var ks []string
	for k, l := range f.lab {
		if strings.HasPrefix(k, "heap:") {
			ks = append(ks, k)
		} else {
			ks = append(ks, k+":"+l.String())
		}
	}
	for k, n := range f.nAll {
		if n >= 2 {
			ks = append(ks, fmt.Sprintf("%s#%d", k, n))
		}
	}
	for k, n := range f.nRaw {
		if n >= 2 {
			ks = append(ks, fmt.Sprintf("%s#raw#%d", k, n))
		}
	}
	sort.Strings(ks)
	return ks
}

// heapAreas: areas whose constraints are emitted by deferred mechanisms (emulated mul checks, range-check and
// lookup commitments, GKR); only there are "heap:Kind" facts (reachability through gadget-state fields) required.
// Elsewhere they are artefacts of the field-based heap (any store into a struct field links everything read from
// that field anywhere) and change with harmless restructuring.
var heapAreas = map[string]bool{"C12": true, "C13": true, "C19": true}
var curFlowArea string

func (f *fset) has(req string) bool {
	if strings.HasPrefix(req, "heap:") && !heapAreas[curFlowArea] {
		return true
	}
	if i := strings.Index(req, "#raw#"); i > 0 {
		var n int
		fmt.Sscanf(req[i+5:], "%d", &n)
		return f.nRaw[req[:i]] >= n
	}
	if i := strings.Index(req, "#"); i > 0 {
		var n int
		fmt.Sscanf(req[i+1:], "%d", &n)
		return f.nAll[req[:i]] >= n
	}
	if strings.HasPrefix(req, "heap:") {
		return f.lab[req] != lNone || f.lab[strings.TrimPrefix(req, "heap:")] != lNone
	}
	i := strings.LastIndex(req, ":")
	if i < 0 {
		return false
	}
	kind, lab := req[:i], req[i+1:]
	l := f.lab[kind]
	if lab == "raw" {
		return l == lRaw
	}
	return l != lNone
}

// RunFlow evaluates FLOW-SOME and FLOW-REF for one area.
func RunFlow(p *Prog, r *Report, e *flowEngine, area string, scope func(pkg string) bool, minSources int) {
	curFlowArea = area
	ref, err := loadFlowRef()
	if err != nil {
		r.Fail("UNRESOLVED", "-", "-", "rules/flow.json", "-", err.Error())
		return
	}
	srcs := collectSources(p, e, scope)
	var keys []string
	for k := range srcs {
		keys = append(keys, k)
	}
	sort.Strings(keys)
	nsrc := 0
	for _, k := range keys {
		for _, sf := range srcs[k] {
			if sf.src.kind == "ret" {
				continue
			}
			nsrc++
			pkg := FuncPkg(sf.src.fn).Path()
			fname := FuncName(sf.src.fn)
			pos := p.Pos(sf.src.call.Pos())
			sinks := sinkFacts(sf.facts)
			ok, why := sf.constrained(0)
			switch {
			case ok && len(sinks) > 0:
				r.Pass("FLOW-SOME", pkg, fname, sf.src.Key(), pos, "free wire reaches "+strings.Join(sinks, " "), true)
			case ok:
				r.Pass("FLOW-SOME", pkg, fname, sf.src.Key(), pos, fmt.Sprintf("free wire is handed to %d same-package call site(s), each of which constrains it", len(sf.children)), len(sf.children) > 0)
			default:
				if reason, ex := ref.Exempt[k]; ex {
					r.Pass("FLOW-SOME", pkg, fname, sf.src.Key(), pos, "reviewed exemption: "+reason, true)
				} else {
					r.Fail("FLOW-SOME", pkg, fname, sf.src.Key(), pos, "hint output / internal wire reaches no constraint-emitting call ("+why+"): the prover may choose it freely")
				}
			}
		}
	}
	agg, members := aggregate(srcs)
	areaRef := ref.Sources[area]
	var rks []string
	for k := range areaRef {
		rks = append(rks, k)
	}
	sort.Strings(rks)
	for _, k := range rks {
		req := areaRef[k]
		parts := strings.SplitN(k, " | ", 2)
		cur, ok := agg[k]
		if !ok {
			// renamed hint function / moved source: a source of the same package that is not in the reference and
			// satisfies every reviewed fact of the missing one takes its place
			var repl []string
			for ck, cf := range agg {
				if _, known := areaRef[ck]; known || !strings.HasPrefix(ck, parts[0]+" | ") {
					continue
				}
				all := true
				for _, q := range req {
					if !cf.has(q) {
						all = false
					}
				}
				if all {
					repl = append(repl, ck)
				}
			}
			sort.Strings(repl)
			if len(repl) > 0 {
				m := members[repl[0]][0]
				r.Pass("FLOW-REF", FuncPkg(m.src.fn).Path(), FuncName(m.src.fn), parts[len(parts)-1], p.Pos(m.src.call.Pos()), "reviewed source not found under its name; the unreviewed source "+strings.SplitN(repl[0], " | ", 2)[1]+" of the same package reaches all its reviewed sinks (renamed)", true)
				continue
			}
			r.Fail("FLOW-REF", parts[0], "-", parts[len(parts)-1], "-", "reviewed source no longer exists in this package (hint call removed or its function renamed) and no other source of the package reaches its reviewed sinks: its constraints cannot be confirmed")
			continue
		}
		m := members[k][0]
		pos := p.Pos(m.src.call.Pos())
		var miss []string
		for _, q := range req {
			if !cur.has(q) {
				miss = append(miss, q)
			}
		}
		if len(miss) == 0 {
			r.Pass("FLOW-REF", FuncPkg(m.src.fn).Path(), FuncName(m.src.fn), parts[len(parts)-1], pos, fmt.Sprintf("all %d call site(s) reach the %d reviewed sinks: %s", len(members[k]), len(req), strings.Join(req, " ")), true)
		} else {
			// name the deviating site
			site := m
			for _, mm := range members[k] {
				cf := mm.chainFacts(0)
				for _, q := range miss {
					if !cf.has(q) {
						site = mm
					}
				}
			}
			r.Fail("FLOW-REF", FuncPkg(site.src.fn).Path(), FuncName(site.src.fn), parts[len(parts)-1], p.Pos(site.src.call.Pos()), fmt.Sprintf("no longer reaches reviewed sink(s) %s (now: %s)", strings.Join(miss, " "), strings.Join(factList(site.chainFacts(0)), " ")))
		}
	}
	// FLOW-FN: per function, the hint outputs keep reaching as many distinct constraint sites as reviewed
	fs := fnSites(srcs)
	var fks []string
	for k := range ref.FnSites[area] {
		fks = append(fks, k)
	}
	sort.Strings(fks)
	for _, k := range fks {
		req := ref.FnSites[area][k]
		parts := strings.SplitN(k, " | ", 2)
		cur, ok := fs[k]
		if !ok {
			r.Add(&Obligation{Rule: "FLOW-FN", Pkg: "-", Func: parts[0], Key: "hint-sites", Pos: "-", OK: true, Info: true, Detail: "function no longer creates hint outputs (renamed / restructured): its hints remain covered by the package-level FLOW-REF entry"})
			continue
		}
		var miss []string
		for _, q := range req {
			i := strings.Index(q, "#")
			var n int
			fmt.Sscanf(q[i+1:], "%d", &n)
			if cur[q[:i]] < n {
				miss = append(miss, fmt.Sprintf("%s (now %d)", q, cur[q[:i]]))
			}
		}
		pkg := parts[0]
		if i := strings.LastIndex(pkg, "."); i > 0 {
			pkg = strings.TrimLeft(pkg[:i], "(*")
		}
		if len(miss) == 0 {
			r.Pass("FLOW-FN", pkg, parts[0], "hint-sites", p.Pos(fnSitePos[k]), "hint outputs of this function reach at least the reviewed number of distinct constraint sites: "+strings.Join(req, " "), true)
		} else {
			r.Fail("FLOW-FN", pkg, parts[0], "hint-sites", p.Pos(fnSitePos[k]), "hint outputs of this function reach fewer distinct constraint sites than reviewed: "+strings.Join(miss, ", ")+" — a check on prover-chosen values was dropped or merged")
		}
	}
	if nsrc < minSources {
		r.Fail("UNRESOLVED", "-", "-", "flow-sources:"+area, "-", fmt.Sprintf("%d sources found, confirmed minimum %d", nsrc, minSources))
	}
	// FLOW-PARAM: operands of exported gadget functions keep reaching their reviewed sinks
	pf := paramFacts(p, e, scope)
	var pks []string
	for k := range ref.Params[area] {
		pks = append(pks, k)
	}
	sort.Strings(pks)
	for _, k := range pks {
		req := ref.Params[area][k]
		parts := strings.SplitN(k, " | ", 2)
		cur, ok := pf[k]
		if !ok {
			r.Add(&Obligation{Rule: "FLOW-PARAM", Pkg: "-", Func: parts[0], Key: parts[len(parts)-1], Pos: "-", OK: true, Info: true, Detail: "function / parameter no longer exists (API surface change): not evaluated"})
			continue
		}
		var miss []string
		for _, q := range req {
			if !cur.f.has(q) {
				miss = append(miss, q)
			}
		}
		if len(miss) > 0 {
			// field-level facts are not comparable once the function hands the whole operand to a helper (the
			// helper's reads of the field and what is done with its results are only partly attributed); the facts
			// of the whole operand stay enforced
			if last := parts[len(parts)-1]; strings.Contains(last, ".") {
				base := parts[0] + " | " + last[:strings.Index(last, ".")]
				if passWholeKeys[base] {
					r.Add(&Obligation{Rule: "FLOW-PARAM", Pkg: cur.pkg, Func: cur.fname, Key: last, Pos: cur.pos, OK: true, Info: true, Detail: "operand is handed on whole to a helper: field-level facts not compared (the facts of the whole operand are)"})
					continue
				}
			}
		}
		if len(miss) == 0 {
			r.Pass("FLOW-PARAM", cur.pkg, cur.fname, parts[len(parts)-1], cur.pos, fmt.Sprintf("operand reaches the %d reviewed sinks: %s", len(req), strings.Join(req, " ")), true)
		} else {
			r.Fail("FLOW-PARAM", cur.pkg, cur.fname, parts[len(parts)-1], cur.pos, fmt.Sprintf("operand no longer reaches reviewed sink(s) %s (now: %s)", strings.Join(miss, " "), strings.Join(factList(cur.f), " ")))
		}
	}
}

// relaxSites: per top-level function of the scope, the call sites of constraint-relaxing option constructors.
func relaxSites(p *Prog, ref *flowRef, scope func(string) bool) (map[string][]token.Pos, map[string]bool) {
	set := map[string]bool{}
	for _, n := range ref.Relax {
		set[n] = false
	}
	out := map[string][]token.Pos{}
	for _, fn := range p.Funcs {
		if cal := FuncName(fn); fn.Parent() == nil {
			if _, ok := set[cal]; ok {
				set[cal] = true
			}
		}
		pk := FuncPkg(fn)
		if pk == nil || !scope(pk.Path()) || fn.Synthetic != "" {
			continue
		}
		top := fn
		for top.Parent() != nil {
			top = top.Parent()
		}
		for _, b := range fn.Blocks {
			for _, ins := range b.Instrs {
				c, ok := ins.(ssa.CallInstruction)
				if !ok {
					continue
				}
				cal := c.Common().StaticCallee()
				if cal == nil {
					continue
				}
				if _, ok := set[FuncName(cal)]; ok {
					k := Abstract(FuncName(top))
					out[k] = append(out[k], ins.Pos())
				}
			}
		}
	}
	// generic instantiations and curve siblings share a key: count distinct positions
	for k, ps := range out {
		seen := map[token.Pos]bool{}
		var u []token.Pos
		for _, x := range ps {
			if !seen[x] {
				seen[x] = true
				u = append(u, x)
			}
		}
		sort.Slice(u, func(i, j int) bool { return u[i] < u[j] })
		out[k] = u
	}
	return out, set
}

// RunRelax (OPT-RELAX): only the reviewed functions pass an option that switches constraints off (unconstrained
// inputs / outputs of the bit conversions, omitted modulus comparison), and no more often than reviewed.
func RunRelax(p *Prog, r *Report, area string, scope func(string) bool) {
	ref, err := loadFlowRef()
	if err != nil {
		return // reported by RunFlow
	}
	sites, found := relaxSites(p, ref, scope)
	for n, ok := range found {
		if !ok {
			r.Fail("UNRESOLVED", "-", "-", "relaxing-option:"+n, "-", "reviewed constraint-relaxing option constructor no longer exists (renamed?): its call sites cannot be enumerated")
		}
	}
	var ks []string
	for k := range sites {
		ks = append(ks, k)
	}
	sort.Strings(ks)
	for _, k := range ks {
		allowed := ref.RelaxOK[area][k]
		pkg := k
		if i := strings.LastIndex(pkg, "."); i > 0 {
			pkg = strings.TrimLeft(pkg[:i], "(*")
		}
		var pos []string
		for _, x := range sites[k] {
			pos = append(pos, p.Pos(x))
		}
		if len(sites[k]) <= allowed {
			r.Pass("OPT-RELAX", pkg, k, "relaxing-options", pos[0], fmt.Sprintf("%d reviewed call site(s) pass a constraint-relaxing option (%s)", len(sites[k]), strings.Join(pos, ", ")), true)
		} else {
			r.Fail("OPT-RELAX", pkg, k, "relaxing-options", pos[len(pos)-1], fmt.Sprintf("%d call site(s) pass an option documented as unsafe (unconstrained inputs/outputs, omitted modulus check), reviewed: %d — sites: %s. The values concerned are no longer constrained by the conversion itself", len(sites[k]), allowed, strings.Join(pos, ", ")))
		}
	}
	relaxSeen := map[string]bool{}
	// RELAX-USE: an *Outputs* relaxation hands the duty of constraining the outputs to the caller, which needs every
	// output for that (lower + 2^split*upper == v needs both parts): no result of such a call may be dropped.
	for _, fn := range p.Funcs {
		pk := FuncPkg(fn)
		if pk == nil || fn.Blocks == nil || fn.Synthetic != "" || !scope(pk.Path()) {
			continue
		}
		for _, b := range fn.Blocks {
			for _, ins := range b.Instrs {
				oc, ok := ins.(*ssa.Call)
				if !ok || oc.Call.StaticCallee() == nil || !strings.HasSuffix(FuncName(oc.Call.StaticCallee()), ".WithUnconstrainedOutputs") {
					continue
				}
				cons := optionConsumer(oc)
				if cons == nil {
					continue
				}
				key := "outputs-used@" + Abstract(FuncName(fn))
				if relaxSeen[key+p.Pos(cons.Pos())] {
					continue
				}
				relaxSeen[key+p.Pos(cons.Pos())] = true
				dropped := ""
				if tup, ok := cons.Type().(*types.Tuple); ok {
					got := map[int]bool{}
					for _, ref := range *cons.Referrers() {
						if ex, ok := ref.(*ssa.Extract); ok && hasRealUse(ex) {
							got[ex.Index] = true
						}
					}
					for i := 0; i < tup.Len(); i++ {
						if !got[i] && !isErrorType(tup.At(i).Type()) {
							dropped = fmt.Sprintf("result #%d", i)
						}
					}
				} else if !hasRealUse(cons) {
					dropped = "the result"
				}
				pkg := pk.Path()
				if dropped == "" {
					r.Pass("RELAX-USE", pkg, FuncName(fn), key, p.Pos(cons.Pos()), "every output of the call with unconstrained outputs is used by the caller (which has to constrain them)", true)
				} else {
					r.Fail("RELAX-USE", pkg, FuncName(fn), key, p.Pos(cons.Pos()), fmt.Sprintf("%s of %s called with unconstrained outputs is dropped: the caller cannot perform the recomposition / width checks it took over, so the part it keeps is a free hint output", dropped, funcBaseName(cons.Call.StaticCallee())))
				}
			}
		}
	}
	r.Pass("OPT-RELAX", "-", "-", "summary:"+area, "-", fmt.Sprintf("%d option constructors tracked, %d functions of the area use them", len(found), len(ks)), len(ks) > 0)
}

// optionConsumer: the call that receives the option value through its variadic parameter.
func optionConsumer(oc *ssa.Call) *ssa.Call {
	for _, r := range *oc.Referrers() {
		st, ok := r.(*ssa.Store)
		if !ok {
			continue
		}
		ia, ok := st.Addr.(*ssa.IndexAddr)
		if !ok {
			continue
		}
		al, ok := ia.X.(*ssa.Alloc)
		if !ok {
			continue
		}
		for _, ar := range *al.Referrers() {
			sl, ok := ar.(*ssa.Slice)
			if !ok {
				continue
			}
			for _, sr := range *sl.Referrers() {
				if c, ok := sr.(*ssa.Call); ok && c.Call.StaticCallee() != nil {
					return c
				}
			}
		}
	}
	return nil
}

type pfact struct {
	f     *fset
	pkg   string
	fname string
	pos   string
}

// paramFacts: for every exported top-level function / method of the scope, the local sink facts of each parameter.
func paramFacts(p *Prog, e *flowEngine, scope func(string) bool) map[string]*pfact {
	out := map[string]*pfact{}
	for _, fn := range p.Funcs {
		if fn.Parent() != nil || fn.Synthetic != "" {
			continue
		}
		pk := FuncPkg(fn)
		if pk == nil || !scope(pk.Path()) || !ast.IsExported(funcBaseName(fn)) {
			continue
		}
		for i, pm := range fn.Params {
			if !isVariableLike(pm.Type()) {
				continue
			}
			if i == 0 && fn.Signature.Recv() != nil {
				continue // receiver: gadget state, not an operand
			}
			fs := fsetOf(e.ParamFacts(fn, i))
			if !hasDirectFact(fs) {
				continue
			}
			k := fmt.Sprintf("%s | param#%d", Abstract(FuncName(fn)), i)
			if old, ok := out[k]; ok {
				old.f = old.f.meet(fs)
			} else {
				out[k] = &pfact{f: fs, pkg: pk.Path(), fname: FuncName(fn), pos: p.Pos(FuncPos(fn))}
			}
			// field-level facts for struct operands whose fields this function reads directly
			if st, ok := deref(pm.Type()).Underlying().(*types.Struct); ok && isModuleStruct(pm.Type()) && st.NumFields() <= 32 {
				if passesWhole(fn, pm) {
					passWholeKeys[fmt.Sprintf("%s | param#%d", Abstract(FuncName(fn)), i)] = true
				}
				fieldsRead := map[int]bool{}
				for fi := 0; fi < st.NumFields(); fi++ {
					if ffs := fieldFactsRec(e, fn, i, fi, 0, map[string]bool{}); ffs != nil && hasDirectFact(ffs) {
						fieldsRead[fi] = true
						fk := fmt.Sprintf("%s | param#%d.%s", Abstract(FuncName(fn)), i, st.Field(fi).Name())
						if old, ok := out[fk]; ok {
							old.f = old.f.meet(ffs)
						} else {
							out[fk] = &pfact{f: ffs, pkg: pk.Path(), fname: FuncName(fn), pos: p.Pos(FuncPos(fn))}
						}
					}
				}
			}
		}
	}
	return out
}

// passWholeKeys: "func | param#i" of struct operands that the function hands on, whole, to a module callee.
var passWholeKeys = map[string]bool{}

func passesWhole(fn *ssa.Function, pm *ssa.Parameter) bool {
	for _, f := range funcsWithClosures(fn) {
		for _, b := range f.Blocks {
			for _, ins := range b.Instrs {
				c, ok := ins.(*ssa.Call)
				if !ok || c.Call.IsInvoke() {
					continue
				}
				cal := calleeOf(c)
				if cal == nil || cal.Blocks == nil || FuncPkg(cal) == nil || !inModule(FuncPkg(cal).Path()) {
					continue
				}
				for _, a := range c.Call.Args {
					if paramRootFV(a) == pm {
						return true
					}
				}
			}
		}
	}
	return false
}

// fieldFactsRec: sink facts of field fi of the struct operand passed as parameter pi of fn: what the function does
// with the field where it reads it directly, plus — when the whole operand is handed on to a module callee — what
// the callee does with the same field and, through the callee's results, what fn goes on to do with values derived
// from it (so that moving code that reads the operand's fields into a helper leaves the facts unchanged).
type fieldRes struct {
	f    *fset
	rets map[int]flabel
}

func fieldFactsRec(e *flowEngine, fn *ssa.Function, pi, fi int, depth int, seen map[string]bool) *fset {
	if r := fieldFactsRes(e, fn, pi, fi, depth, seen); r != nil {
		return r.f
	}
	return nil
}

func fieldFactsRes(e *flowEngine, fn *ssa.Function, pi, fi int, depth int, seen map[string]bool) *fieldRes {
	if fn.Blocks == nil || pi >= len(fn.Params) || depth > 4 {
		return nil
	}
	k := fmt.Sprintf("%p/%d/%d", fn, pi, fi)
	if seen[k] {
		return nil
	}
	seen[k] = true
	pm := fn.Params[pi]
	st, ok := deref(pm.Type()).Underlying().(*types.Struct)
	if !ok || fi >= st.NumFields() {
		return nil
	}
	perFn := map[*ssa.Function]map[ssa.Value]flabel{}
	seed := func(v ssa.Value, l flabel) {
		f := v.(ssa.Instruction).Parent()
		if perFn[f] == nil {
			perFn[f] = map[ssa.Value]flabel{}
		}
		if l > perFn[f][v] {
			perFn[f][v] = l
		}
	}
	var total *fset
	add := func(x *fset) {
		if x == nil {
			return
		}
		if total == nil {
			total = x
		} else {
			total = total.plus(x)
		}
	}
	for _, f := range funcsWithClosures(fn) {
		for _, b := range f.Blocks {
			for _, ins := range b.Instrs {
				switch x := ins.(type) {
				case *ssa.FieldAddr:
					if x.Field == fi && paramRootFV(x.X) == pm {
						seed(x, lRaw)
					}
				case *ssa.Field:
					if x.Field == fi && paramRootFV(x.X) == pm {
						seed(x, lRaw)
					}
				case *ssa.Call:
					if x.Call.IsInvoke() {
						continue
					}
					cal := calleeOf(x)
					if cal == nil || cal.Blocks == nil || FuncPkg(cal) == nil || !inModule(FuncPkg(cal).Path()) {
						continue
					}
					for j, a := range x.Call.Args {
						if paramRootFV(a) != pm || j >= len(cal.Params) {
							continue
						}
						if _, isStruct := deref(cal.Params[j].Type()).Underlying().(*types.Struct); !isStruct {
							continue
						}
						sub := fieldFactsRes(e, cal, j, fi, depth+1, seen)
						if sub == nil {
							continue
						}
						add(sub.f)
						// what the callee returns is derived from the field: continue in this function
						for rj, l := range sub.rets {
							if l == lNone {
								continue
							}
							if _, isTuple := x.Type().(*types.Tuple); isTuple {
								for _, ref := range *x.Referrers() {
									if ex, ok := ref.(*ssa.Extract); ok && ex.Index == rj {
										seed(ex, lDerived)
									}
								}
							} else if rj == 0 {
								seed(x, lDerived)
							}
						}
					}
				}
			}
		}
	}
	res := &fieldRes{rets: map[int]flabel{}}
	var fs []*ssa.Function
	for f := range perFn {
		fs = append(fs, f)
	}
	sort.Slice(fs, func(i, j int) bool { return fs[i].Pos() < fs[j].Pos() })
	for _, f := range fs {
		sum := e.forward(f, perFn[f], 0)
		loc := map[string]flabel{}
		e.collectLocal(loc, sum)
		add(fsetOf(loc))
		if f == fn {
			for j, l := range sum.rets {
				res.rets[j] = l
			}
		}
	}
	res.f = total
	if total == nil && len(res.rets) == 0 {
		return nil
	}
	if res.f == nil {
		res.f = newFset()
	}
	return res
}

// paramRootFV: like paramRoot, also through a closure's free variable bound to the parameter.
func paramRootFV(v ssa.Value) *ssa.Parameter {
	if pm := paramRoot(v); pm != nil {
		return pm
	}
	for d := 0; d < 4 && v != nil; d++ {
		switch x := v.(type) {
		case *ssa.UnOp:
			if x.Op == token.MUL {
				v = x.X
				continue
			}
		case *ssa.FreeVar:
			if b := closureBinding(x); b != nil {
				return paramRoot(b)
			}
		}
		return nil
	}
	return nil
}

// emitFlow prints the reference stanza of an area (developer mode).
func emitFlow(p *Prog, e *flowEngine, scope func(string) bool) map[string][]string {
	srcs := collectSources(p, e, scope)
	agg, _ := aggregate(srcs)
	out := map[string][]string{}
	for k, f := range agg {
		out[k] = factList(f)
	}
	return out
}

func pkgScope(prefixes ...string) func(string) bool {
	return func(pkg string) bool {
		rel := strings.TrimPrefix(pkg, modPath+"/")
		for _, pre := range prefixes {
			if rel == pre || strings.HasPrefix(rel, pre+"/") {
				return true
			}
		}
		return false
	}
}

var flowAreas = map[string][]string{
	"C05": {"frontend/cs/r1cs", "frontend/cs/scs", "std/math/bits"},
	"C12": {"std/math/emulated"},
	"C13": {"std/rangecheck", "std/internal/logderivarg", "std/lookup/logderivlookup", "std/internal/logderivprecomp", "std/multicommit"},
	"C14": {"std/math/cmp", "std/selector", "std/math/bitslice", "std/math/uints"},
	"C16": {"std/algebra", "std/signature", "std/evmprecompiles"},
	"C17": {"std/recursion", "std/commitments", "std/fiat-shamir"},
	"C19": {"std/gkr", "std/permutation/poseidon2/gkr-poseidon2"},
}

func init() {
	devHooks["flowemit"] = func(p *Prog, fnPat, untr string) int {
		cg := BuildCallGraph(p)
		e := newFlowEngine(p, cg)
		all := map[string]map[string][]string{}
		allP := map[string]map[string][]string{}
		allF := map[string]map[string][]string{}
		allR := map[string]map[string]int{}
		allM := map[string]map[string][]string{}
		allL := map[string]map[string][]string{}
		refNow, _ := loadFlowRef()
		var areas []string
		for a := range flowAreas {
			areas = append(areas, a)
		}
		sort.Strings(areas)
		for _, a := range areas {
			if fnPat != "" && fnPat != a {
				continue
			}
			// exactly the query sequence of a property run (fresh engine, one collectSources, then parameter
			// facts): summaries cut at recursion cycles depend on what was memoised before
			e = newFlowEngine(p, cg)
			srcs := collectSources(p, e, pkgScope(flowAreas[a]...))
			agg, _ := aggregate(srcs)
			all[a] = map[string][]string{}
			for k, f := range agg {
				all[a][k] = factList(f)
			}
			allF[a] = map[string][]string{}
			for k, m := range fnSites(srcs) {
				if sl := siteList(m); len(sl) > 0 {
					allF[a][k] = sl
				}
			}
			allR[a] = map[string]int{}
			allM[a] = map[string][]string{}
			mm, _ := fnMust(p, pkgScope(flowAreas[a]...))
			for k, v := range mm {
				if sl := siteList(v); len(sl) > 0 {
					allM[a][k] = sl
				}
			}
			allL[a] = map[string][]string{}
			ml, _ := fnLoop(p, pkgScope(flowAreas[a]...))
			for k, v := range ml {
				if sl := siteList(v); len(sl) > 0 {
					allL[a][k] = sl
				}
			}
			if refNow != nil {
				rs, _ := relaxSites(p, refNow, pkgScope(flowAreas[a]...))
				for k, v := range rs {
					allR[a][k] = len(v)
				}
			}
			allP[a] = map[string][]string{}
			for k, v := range paramFacts(p, e, pkgScope(flowAreas[a]...)) {
				if fl := factList(v.f); len(fl) > 0 {
					allP[a][k] = fl
				}
			}
		}
		b, _ := json.MarshalIndent(map[string]any{"sources": all, "params": allP, "fnsites": allF, "relaxing_sites": allR, "fnmust": allM, "fnloop": allL}, "", " ")
		fmt.Println(string(b))
		return 0
	}
}

func hasDirectFact(f *fset) bool {
	for k := range f.lab {
		if !strings.HasPrefix(k, "heap:") {
			return true
		}
	}
	return false
}

// paramRoot: v is the parameter itself, a load of its spill cell, or a dereference of it.
func paramRoot(v ssa.Value) *ssa.Parameter {
	for d := 0; d < 4 && v != nil; d++ {
		switch x := v.(type) {
		case *ssa.Parameter:
			return x
		case *ssa.UnOp:
			if x.Op == token.MUL {
				v = x.X
				continue
			}
		case *ssa.Alloc:
			if sv := singleStore(x); sv != nil {
				v = sv
				continue
			}
		}
		return nil
	}
	return nil
}
