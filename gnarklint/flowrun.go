package main

import (
	"encoding/json"
	"fmt"
	"os"
	"path/filepath"
	"sort"
	"strings"

	"golang.org/x/tools/go/ssa"
)

// flow rules: FLOW-SOME (Tier I) and FLOW-REF (Tier II, rules/flow.json)

type flowRef struct {
	Comment string                         `json:"comment"`
	Sources map[string]map[string][]string `json:"sources"` // area -> "func | source key" -> required facts ("Kind:label", "heap:Kind")
	Exempt  map[string]string              `json:"exempt"`  // "func | source key" -> reason (FLOW-SOME exemptions)
}

func loadFlowRef() (*flowRef, error) {
	b, err := os.ReadFile(filepath.Join(verifDir, "rules", "flow.json"))
	if err != nil {
		return nil, err
	}
	var r flowRef
	if err := json.Unmarshal(b, &r); err != nil {
		return nil, err
	}
	return &r, nil
}

type srcFacts struct {
	src      *flowSource
	facts    map[string]flabel
	children []*srcFacts // same-package call sites receiving the escaping value
}

// constrained: the source reaches a sink itself, or every same-package call site that receives it does.
func (sf *srcFacts) constrained(depth int) (bool, string) {
	if len(sinkFacts(sf.facts)) > 0 {
		return true, ""
	}
	esc := false
	for k := range sf.facts {
		if strings.HasPrefix(k, "escape:") {
			esc = true
		}
	}
	if !esc {
		return false, "reaches nothing in " + FuncName(sf.src.fn)
	}
	if depth >= 3 || len(sf.children) == 0 {
		return true, "" // API output / depth bound: the value is handed to code outside the package
	}
	for _, c := range sf.children {
		if ok, why := c.constrained(depth + 1); !ok {
			return false, "handed to " + FuncName(c.src.fn) + " where it " + why
		}
	}
	return true, ""
}

// collectSources computes, for the functions of the given package prefixes, the local facts of every
// hint / internal-wire source and (recursively, bounded) of every call site receiving an escaping source.
func collectSources(p *Prog, e *flowEngine, scope func(pkg string) bool) map[string][]*srcFacts {
	out := map[string][]*srcFacts{}
	var addSrc func(src *flowSource, depth int) *srcFacts
	seenSrc := map[ssa.Value]map[int]*srcFacts{}
	addSrc = func(src *flowSource, depth int) *srcFacts {
		if seenSrc[src.call] == nil {
			seenSrc[src.call] = map[int]*srcFacts{}
		}
		if old := seenSrc[src.call][src.idx]; old != nil {
			return old
		}
		pk := FuncPkg(src.fn)
		if pk == nil {
			return nil
		}
		f := e.Facts(src)
		key := Abstract(FuncName(src.fn)) + " | " + src.Key()
		me := &srcFacts{src: src, facts: f}
		seenSrc[src.call][src.idx] = me
		out[key] = append(out[key], me)
		if depth >= 3 {
			return me
		}
		for k, l := range f {
			if !strings.HasPrefix(k, "escape:ret") || l == lNone {
				continue
			}
			var j int
			fmt.Sscanf(k, "escape:ret%d", &j)
			for _, rs := range e.RetSources(src.fn, j) {
				if c := addSrc(rs, depth+1); c != nil {
					me.children = append(me.children, c)
				}
			}
		}
		return me
	}
	for _, fn := range p.Funcs {
		pk := FuncPkg(fn)
		if pk == nil || !scope(pk.Path()) {
			continue
		}
		for _, src := range e.findSources(fn) {
			addSrc(src, 0)
		}
	}
	return out
}

func sinkFacts(f map[string]flabel) []string {
	var ks []string
	for k, l := range f {
		if strings.HasPrefix(k, "store:") || strings.HasPrefix(k, "escape:") {
			continue
		}
		if strings.HasPrefix(k, "heap:") {
			ks = append(ks, k)
		} else {
			ks = append(ks, k+":"+l.String())
		}
	}
	sort.Strings(ks)
	return ks
}

func hasFact(f map[string]flabel, req string) bool {
	if strings.HasPrefix(req, "heap:") {
		if f[req] != lNone {
			return true
		}
		// a direct sink is at least as strong as a heap one
		return f[strings.TrimPrefix(req, "heap:")] != lNone
	}
	i := strings.LastIndex(req, ":")
	if i < 0 {
		return false
	}
	kind, lab := req[:i], req[i+1:]
	l := f[kind]
	if lab == "raw" {
		return l == lRaw
	}
	return l != lNone
}

// chainFacts: sink facts of a source including what happens to it at the same-package call sites it is handed to:
// local ∪ ⋂_{children} chainFacts(child).  Labels: a fact is raw only if raw on every contributing path.
func (sf *srcFacts) chainFacts(depth int) map[string]flabel {
	out := map[string]flabel{}
	for k, l := range sf.facts {
		if strings.HasPrefix(k, "store:") || strings.HasPrefix(k, "escape:") {
			continue
		}
		out[k] = l
	}
	if depth >= 3 || len(sf.children) == 0 {
		return out
	}
	var inter map[string]flabel
	for _, c := range sf.children {
		cf := c.chainFacts(depth + 1)
		if inter == nil {
			inter = cf
			continue
		}
		for k, l := range inter {
			l2, ok := cf[k]
			if !ok {
				delete(inter, k)
			} else if l2 < l {
				inter[k] = l2
			}
		}
	}
	for k, l := range inter {
		if l > out[k] {
			out[k] = l
		}
	}
	return out
}

// refKey: hint sources are keyed by package and hint function (robust against renaming / inlining of the
// helper that calls the hint); internal wires are keyed by their function.
func refKey(sf *srcFacts) string {
	pk := FuncPkg(sf.src.fn).Path()
	if sf.src.kind == "hint" {
		return Abstract(pk) + " | hint:" + sf.src.label
	}
	return Abstract(FuncName(sf.src.fn)) + " | " + sf.src.Key()
}

// aggregate: per reference key, the intersection over all matching sources of their chain facts.
func aggregate(srcs map[string][]*srcFacts) (map[string]map[string]flabel, map[string][]*srcFacts) {
	agg := map[string]map[string]flabel{}
	members := map[string][]*srcFacts{}
	for _, list := range srcs {
		for _, sf := range list {
			if sf.src.kind == "ret" {
				continue
			}
			k := refKey(sf)
			members[k] = append(members[k], sf)
			cf := sf.chainFacts(0)
			if agg[k] == nil {
				agg[k] = cf
				continue
			}
			for f, l := range agg[k] {
				l2, ok := cf[f]
				if !ok {
					delete(agg[k], f)
				} else if l2 < l {
					agg[k][f] = l2
				}
			}
		}
	}
	return agg, members
}

func factList(f map[string]flabel) []string {
	var ks []string
	for k, l := range f {
		if strings.HasPrefix(k, "heap:") {
			ks = append(ks, k)
		} else {
			ks = append(ks, k+":"+l.String())
		}
	}
	sort.Strings(ks)
	return ks
}

// RunFlow evaluates FLOW-SOME and FLOW-REF for one area.
func RunFlow(p *Prog, r *Report, e *flowEngine, area string, scope func(pkg string) bool, minSources int) {
	ref, err := loadFlowRef()
	if err != nil {
		r.Fail("UNRESOLVED", "-", "-", "rules/flow.json", "-", err.Error())
		return
	}
	srcs := collectSources(p, e, scope)
	var keys []string
	for k := range srcs {
		keys = append(keys, k)
	}
	sort.Strings(keys)
	nsrc := 0
	for _, k := range keys {
		for _, sf := range srcs[k] {
			if sf.src.kind == "ret" {
				continue
			}
			nsrc++
			pkg := FuncPkg(sf.src.fn).Path()
			fname := FuncName(sf.src.fn)
			pos := p.Pos(sf.src.call.Pos())
			sinks := sinkFacts(sf.facts)
			ok, why := sf.constrained(0)
			switch {
			case ok && len(sinks) > 0:
				r.Pass("FLOW-SOME", pkg, fname, sf.src.Key(), pos, "free wire reaches "+strings.Join(sinks, " "), true)
			case ok:
				r.Pass("FLOW-SOME", pkg, fname, sf.src.Key(), pos, fmt.Sprintf("free wire is handed to %d same-package call site(s), each of which constrains it", len(sf.children)), len(sf.children) > 0)
			default:
				if reason, ex := ref.Exempt[k]; ex {
					r.Pass("FLOW-SOME", pkg, fname, sf.src.Key(), pos, "reviewed exemption: "+reason, true)
				} else {
					r.Fail("FLOW-SOME", pkg, fname, sf.src.Key(), pos, "hint output / internal wire reaches no constraint-emitting call ("+why+"): the prover may choose it freely")
				}
			}
		}
	}
	agg, members := aggregate(srcs)
	areaRef := ref.Sources[area]
	var rks []string
	for k := range areaRef {
		rks = append(rks, k)
	}
	sort.Strings(rks)
	for _, k := range rks {
		req := areaRef[k]
		parts := strings.SplitN(k, " | ", 2)
		cur, ok := agg[k]
		if !ok {
			r.Fail("FLOW-REF", parts[0], "-", parts[len(parts)-1], "-", "reviewed source no longer exists in this package (hint call removed or its function renamed): its constraints cannot be confirmed")
			continue
		}
		m := members[k][0]
		pos := p.Pos(m.src.call.Pos())
		var miss []string
		for _, q := range req {
			if !hasFact(cur, q) {
				miss = append(miss, q)
			}
		}
		if len(miss) == 0 {
			r.Pass("FLOW-REF", FuncPkg(m.src.fn).Path(), FuncName(m.src.fn), parts[len(parts)-1], pos, fmt.Sprintf("all %d call site(s) reach the %d reviewed sinks: %s", len(members[k]), len(req), strings.Join(req, " ")), true)
		} else {
			// name the deviating site
			site := m
			for _, mm := range members[k] {
				cf := mm.chainFacts(0)
				for _, q := range miss {
					if !hasFact(cf, q) {
						site = mm
					}
				}
			}
			r.Fail("FLOW-REF", FuncPkg(site.src.fn).Path(), FuncName(site.src.fn), parts[len(parts)-1], p.Pos(site.src.call.Pos()), fmt.Sprintf("no longer reaches reviewed sink(s) %s (now: %s)", strings.Join(miss, " "), strings.Join(factList(site.chainFacts(0)), " ")))
		}
	}
	if nsrc < minSources {
		r.Fail("UNRESOLVED", "-", "-", "flow-sources:"+area, "-", fmt.Sprintf("%d sources found, confirmed minimum %d", nsrc, minSources))
	}
}

// emitFlow prints the reference stanza of an area (developer mode).
func emitFlow(p *Prog, e *flowEngine, scope func(string) bool) map[string][]string {
	srcs := collectSources(p, e, scope)
	agg, _ := aggregate(srcs)
	out := map[string][]string{}
	for k, f := range agg {
		out[k] = factList(f)
	}
	return out
}

func pkgScope(prefixes ...string) func(string) bool {
	return func(pkg string) bool {
		rel := strings.TrimPrefix(pkg, modPath+"/")
		for _, pre := range prefixes {
			if rel == pre || strings.HasPrefix(rel, pre+"/") {
				return true
			}
		}
		return false
	}
}

var flowAreas = map[string][]string{
	"C05": {"frontend/cs/r1cs", "frontend/cs/scs", "std/math/bits"},
	"C12": {"std/math/emulated"},
	"C13": {"std/rangecheck", "std/internal/logderivarg", "std/lookup/logderivlookup", "std/internal/logderivprecomp", "std/multicommit"},
	"C14": {"std/math/cmp", "std/selector", "std/math/bitslice", "std/math/uints"},
	"C16": {"std/algebra", "std/signature", "std/evmprecompiles"},
	"C17": {"std/recursion", "std/commitments", "std/fiat-shamir"},
	"C19": {"std/gkr", "std/permutation/poseidon2/gkr-poseidon2"},
}

func init() {
	devHooks["flowemit"] = func(p *Prog, fnPat, untr string) int {
		cg := BuildCallGraph(p)
		e := newFlowEngine(p, cg)
		all := map[string]map[string][]string{}
		var areas []string
		for a := range flowAreas {
			areas = append(areas, a)
		}
		sort.Strings(areas)
		for _, a := range areas {
			if fnPat != "" && fnPat != a {
				continue
			}
			all[a] = emitFlow(p, e, pkgScope(flowAreas[a]...))
		}
		b, _ := json.MarshalIndent(all, "", " ")
		fmt.Println(string(b))
		return 0
	}
}
