package main

import (
	"fmt"
	"go/token"
	"go/types"
	"sort"
	"strings"

	"golang.org/x/tools/go/ssa"
)

// RESULT-DROP (C16): an in-circuit predicate (a gadget method named Is* that returns a single variable) emits the
// constraints that compute a boolean; calling it and discarding the result asserts nothing. Where the surrounding
// code means to check (`// check Q is on curve` followed by `p.IsOnTwist(&Q)`), the check is lost.
func RunResultDrop(p *Prog, r *Report, scope func(string) bool) {
	type site struct {
		fn *ssa.Function
		c  *ssa.Call
	}
	var drops []site
	n := 0
	for _, fn := range p.Funcs {
		pk := FuncPkg(fn)
		if pk == nil || fn.Blocks == nil || fn.Synthetic != "" || !scope(pk.Path()) {
			continue
		}
		for _, b := range fn.Blocks {
			for _, ins := range b.Instrs {
				c, ok := ins.(*ssa.Call)
				if !ok {
					continue
				}
				cal := c.Call.StaticCallee()
				if cal == nil || FuncPkg(cal) == nil || !scope(FuncPkg(cal).Path()) || cal.Signature.Recv() == nil {
					continue
				}
				name := funcBaseName(cal)
				if !strings.HasPrefix(name, "Is") || len(name) < 3 || cal.Signature.Results().Len() != 1 || !isVariableLike(cal.Signature.Results().At(0).Type()) {
					continue
				}
				n++
				if !hasRealUse(c) {
					drops = append(drops, site{fn, c})
				}
			}
		}
	}
	sort.Slice(drops, func(i, j int) bool { return drops[i].c.Pos() < drops[j].c.Pos() })
	seen := map[string]bool{}
	for _, d := range drops {
		key := "dropped:" + funcBaseName(d.c.Call.StaticCallee())
		k := Abstract(FuncName(d.fn)) + key
		if seen[k] {
			continue
		}
		seen[k] = true
		r.Fail("RESULT-DROP", FuncPkg(d.fn).Path(), FuncName(d.fn), key, p.Pos(d.c.Pos()), "the boolean computed by the predicate "+funcBaseName(d.c.Call.StaticCallee())+" is discarded: nothing is asserted (the assertion form AssertIs… was meant), so inputs failing the predicate are accepted")
	}
	r.Pass("RESULT-DROP", "-", "-", "summary", "-", fmt.Sprintf("%d calls of in-circuit predicates examined, %d with a discarded result", n, len(drops)), n > 0)
}

// BITS-COVER (C16): when a value obtained from a hint (a GLV / fake-GLV sub-scalar) is decomposed with ToBits and
// the gadget then reads only some of the bits (indexing up to a separately computed bound), the unread high bits are
// unconstrained: the prover may add any multiple of 2^bound to the sub-scalar. The decomposition must be consumed
// as a whole — handed to a callee, ranged over / indexed up to len() of the slice, or its tail `bits[n:]` referenced
// (asserted zero).
func RunBitsCover(p *Prog, r *Report, e *flowEngine, scope func(string) bool) {
	type res struct {
		ok  bool
		pos token.Pos
		fn  *ssa.Function
		why string
	}
	out := map[string]*res{}
	for _, fn := range p.Funcs {
		pk := FuncPkg(fn)
		if pk == nil || fn.Blocks == nil || fn.Synthetic != "" || !scope(pk.Path()) {
			continue
		}
		// hint-dependent values of this function (forward, intraprocedural through calls' results)
		dep := map[ssa.Value]bool{}
		var work []ssa.Value
		for _, b := range fn.Blocks {
			for _, ins := range b.Instrs {
				if c, ok := ins.(*ssa.Call); ok && isHintCall(c) {
					dep[c] = true
					work = append(work, c)
				}
			}
		}
		if len(work) == 0 {
			continue
		}
		for len(work) > 0 {
			v := work[len(work)-1]
			work = work[:len(work)-1]
			refs := v.Referrers()
			if refs == nil {
				continue
			}
			for _, ref := range *refs {
				if nv, ok := ref.(ssa.Value); ok && !dep[nv] {
					switch ref.(type) {
					case *ssa.Extract, *ssa.IndexAddr, *ssa.Index, *ssa.UnOp, *ssa.Slice, *ssa.Phi, *ssa.Call, *ssa.FieldAddr, *ssa.Field, *ssa.MakeInterface, *ssa.ChangeType:
						dep[nv] = true
						work = append(work, nv)
					}
				}
			}
		}
		ord := 0
		for _, b := range fn.Blocks {
			for _, ins := range b.Instrs {
				c, ok := ins.(*ssa.Call)
				if !ok {
					continue
				}
				name := ""
				if cal := c.Call.StaticCallee(); cal != nil {
					name = funcBaseName(cal)
				} else if c.Call.IsInvoke() {
					name = c.Call.Method.Name()
				}
				if name != "ToBits" && name != "ToBinary" && name != "ToBitsCanonical" {
					continue
				}
				// a decomposition with an explicit size (ToBinary(v, n)) has exactly n bits and bounds v by 2^n
				sized := false
				for _, a := range c.Call.Args {
					if sl, ok := a.Type().Underlying().(*types.Slice); ok {
						if b, ok := sl.Elem().Underlying().(*types.Basic); ok && b.Info()&types.IsInteger != 0 {
							if k, isConst := a.(*ssa.Const); !isConst || !k.IsNil() {
								sized = true
							}
						}
					}
				}
				if sized {
					continue
				}
				hintOperand := false
				for _, a := range c.Call.Args {
					if dep[a] {
						hintOperand = true
					}
				}
				if !hintOperand {
					continue
				}
				ord++
				whole, why := bitsWhollyUsed(c)
				if !whole && !bitsLoopIndexed(c) {
					continue // only single constant bits are read (parity): a different question
				}
				k := fmt.Sprintf("%s | bits#%d", Abstract(FuncName(fn)), ord)
				if old, ok := out[k]; ok {
					old.ok = old.ok && whole
				} else {
					out[k] = &res{whole, c.Pos(), fn, why}
				}
			}
		}
	}
	var ks []string
	for k := range out {
		ks = append(ks, k)
	}
	sort.Strings(ks)
	for _, k := range ks {
		x := out[k]
		parts := strings.SplitN(k, " | ", 2)
		if x.ok {
			r.Pass("BITS-COVER", FuncPkg(x.fn).Path(), FuncName(x.fn), parts[1], p.Pos(x.pos), "the bit decomposition of the hinted value is consumed as a whole ("+x.why+")", true)
		} else {
			r.Fail("BITS-COVER", FuncPkg(x.fn).Path(), FuncName(x.fn), parts[1], p.Pos(x.pos), "the bits of a hinted value are only read up to a separately computed bound; the remaining high bits are never referenced (not asserted zero), so the prover may add multiples of 2^bound to the hinted value")
		}
	}
}

// bitsLoopIndexed: the slice is indexed with a non-constant index.
func bitsLoopIndexed(c *ssa.Call) bool {
	vals := []ssa.Value{c}
	for _, r := range *c.Referrers() {
		if st, ok := r.(*ssa.Store); ok && st.Val == c {
			if al, ok := st.Addr.(*ssa.Alloc); ok {
				for _, lr := range *al.Referrers() {
					if u, ok := lr.(*ssa.UnOp); ok && u.Op == token.MUL {
						vals = append(vals, u)
					}
				}
			}
		}
	}
	for _, v := range vals {
		for _, ref := range *v.Referrers() {
			switch x := ref.(type) {
			case *ssa.IndexAddr:
				if _, isConst := x.Index.(*ssa.Const); !isConst && x.X == v {
					return true
				}
			case *ssa.Index:
				if _, isConst := x.Index.(*ssa.Const); !isConst && x.X == v {
					return true
				}
			case *ssa.Slice:
				if x.X == v && x.High != nil {
					return true
				}
			}
		}
	}
	return false
}

// bitsWhollyUsed: some use of the slice covers all of its elements.
func bitsWhollyUsed(c *ssa.Call) (bool, string) {
	vals := []ssa.Value{c}
	// through a local cell
	for _, r := range *c.Referrers() {
		if st, ok := r.(*ssa.Store); ok && st.Val == c {
			if al, ok := st.Addr.(*ssa.Alloc); ok {
				for _, lr := range *al.Referrers() {
					if u, ok := lr.(*ssa.UnOp); ok && u.Op == token.MUL {
						vals = append(vals, u)
					}
				}
			}
		}
	}
	for _, v := range vals {
		for _, ref := range *v.Referrers() {
			switch x := ref.(type) {
			case *ssa.Call:
				if isBuiltinCall(x, "len") || isBuiltinCall(x, "cap") {
					continue
				}
				return true, "handed to " + CalleeName(&x.Call)
			case *ssa.Return:
				return true, "returned"
			case *ssa.Slice:
				if x.X == v && x.High == nil && hasRealUse(x) {
					return true, "its tail is referenced"
				}
				if x.X == v && x.Low == nil && x.High != nil {
					if hc, ok := x.High.(*ssa.Call); ok && isBuiltinCall(hc, "len") && hc.Call.Args[0] == v {
						return true, "sliced up to its length"
					}
				}
			case *ssa.IndexAddr:
				if x.X == v && boundedByLen(x.Index, v, x.Block()) {
					return true, "indexed up to its length"
				}
			case *ssa.Index:
				if x.X == v && boundedByLen(x.Index, v, x.Block()) {
					return true, "indexed up to its length"
				}
			case *ssa.Range, *ssa.MakeInterface:
				return true, "ranged over"
			case *ssa.Store:
				if x.Val == v {
					if _, isAlloc := x.Addr.(*ssa.Alloc); !isAlloc {
						return true, "stored"
					}
				}
			}
		}
	}
	return false, ""
}

func init() {
	devHooks["gadgetlints"] = func(p *Prog, fnPat, untr string) int {
		r := NewReport("DEV", "quick", 0)
		sc := func(pk string) bool { return strings.Contains(pk, "/std/") }
		RunResultDrop(p, r, sc)
		RunBitsCover(p, r, nil, sc)
		for _, o := range r.Obls {
			if !o.OK || fnPat == "all" {
				fmt.Printf("%v %s %s | %s | %s | %s\n", o.OK, o.Rule, o.Pos, strings.TrimPrefix(o.Func, modPath+"/"), o.Key, o.Detail[:min(len(o.Detail), 120)])
			}
		}
		fmt.Println("obligations:", len(r.Obls))
		return 0
	}
}
