package main

import (
	"fmt"
	"go/ast"
	"go/constant"
	"go/token"
	"go/types"
	"sort"
	"strings"

	"golang.org/x/tools/go/packages"
)

// gate engine (DESIGN.md 3.3 CODEC-BLUEPRINT / 4 C06): the sparse-gate blueprints of package constraint are
// interpreted symbolically on the syntax tree. For every accepting path of Solve, the value assigned to the
// unsolved wire must make the gate polynomial  qL·xa + qR·xb + qM·xa·xb + qO·xc + qC  (with wires and
// coefficients as Decompress defines them) identically zero as a rational function, or the path must have
// tested exactly that polynomial for zero. Compress / Decompress / CalldataSize must agree.

type rat struct{ n, d poly }

func rConst(k int64) rat    { return rat{pConst(k), pConst(1)} }
func rSym(s string) rat     { return rat{pSym(s), pConst(1)} }
func (a rat) add(b rat) rat { return rat{a.n.mul(b.d).add(b.n.mul(a.d), 1), a.d.mul(b.d)} }
func (a rat) mul(b rat) rat { return rat{a.n.mul(b.n), a.d.mul(b.d)} }
func (a rat) neg() rat      { return rat{poly{}.add(a.n, -1), a.d} }
func (a rat) inv() rat      { return rat{a.d, a.n} }
func (a rat) isZero() bool  { return len(a.n) == 0 }
func (a rat) String() string {
	if len(a.d) == 1 {
		if c, ok := a.d[""]; ok && c.Cmp(pConst(1)[""]) == 0 {
			return a.n.String()
		}
	}
	return "(" + a.n.String() + ")/(" + a.d.String() + ")"
}

type gateFields struct {
	wire map[string]string // XA/XB/XC -> wire symbol
	coef map[string]rat    // QL/QR/QO/QM/QC -> value
	raw  map[string]string // field -> "d<i>" | const | other field
}

func newGateFields() *gateFields {
	g := &gateFields{wire: map[string]string{}, coef: map[string]rat{}, raw: map[string]string{}}
	for _, w := range []string{"XA", "XB", "XC"} {
		g.wire[w] = "w_zero"
	}
	for _, q := range []string{"QL", "QR", "QO", "QM", "QC"} {
		g.coef[q] = rConst(0)
	}
	return g
}

func (g *gateFields) poly(sub map[string]rat) rat {
	w := func(f string) rat {
		if v, ok := sub[g.wire[f]]; ok {
			return v
		}
		return rSym(g.wire[f])
	}
	a, b, c := w("XA"), w("XB"), w("XC")
	res := g.coef["QL"].mul(a)
	res = res.add(g.coef["QR"].mul(b))
	res = res.add(g.coef["QM"].mul(a).mul(b))
	res = res.add(g.coef["QO"].mul(c))
	res = res.add(g.coef["QC"])
	return res
}

type gatePath struct {
	wenv   map[string]string // identifiers bound to wire symbols (helper parameters)
	cenv   map[string]rat    // identifiers bound to coefficient values (helper parameters)
	env    map[string]rat    // locals by name
	fields *gateFields
	sets   []struct {
		wire string
		val  rat
	}
	zchecks []rat
	conds   []string
	bad     string
}

func (p *gatePath) clone() *gatePath {
	q := &gatePath{env: map[string]rat{}, wenv: map[string]string{}, cenv: map[string]rat{}, fields: p.fields, conds: append([]string{}, p.conds...), bad: p.bad}
	for k, v := range p.env {
		q.env[k] = v
	}
	for k, v := range p.wenv {
		q.wenv[k] = v
	}
	for k, v := range p.cenv {
		q.cenv[k] = v
	}
	q.sets = append(q.sets, p.sets...)
	q.zchecks = append(q.zchecks, p.zchecks...)
	// fields are copied on write by the caller when needed
	nf := newGateFields()
	for k, v := range p.fields.wire {
		nf.wire[k] = v
	}
	for k, v := range p.fields.coef {
		nf.coef[k] = v
	}
	for k, v := range p.fields.raw {
		nf.raw[k] = v
	}
	q.fields = nf
	return q
}

type gateInterp struct {
	pk      *packages.Package
	info    *types.Info
	methods map[string]*ast.FuncDecl // method name -> decl for the receiver type under analysis
	accept  []*gatePath
}

func calldataIndex(info *types.Info, e ast.Expr) (int, bool) {
	ix, ok := e.(*ast.IndexExpr)
	if !ok {
		return 0, false
	}
	sel, ok := ix.X.(*ast.SelectorExpr)
	if !ok || sel.Sel.Name != "Calldata" {
		return 0, false
	}
	tv, ok := info.Types[ix.Index]
	if !ok || tv.Value == nil {
		return 0, false
	}
	n, _ := constant.Int64Val(constant.ToInt(tv.Value))
	return int(n), true
}

func gateFieldOf(e ast.Expr) (string, bool) {
	sel, ok := e.(*ast.SelectorExpr)
	if !ok {
		return "", false
	}
	switch sel.Sel.Name {
	case "XA", "XB", "XC", "QL", "QR", "QO", "QM", "QC", "Commitment":
		return sel.Sel.Name, true
	}
	return "", false
}

// coefOf: value of a coefficient-id expression.
func (gi *gateInterp) coefOf(p *gatePath, e ast.Expr) rat {
	if nm := coeffConstName(gi.info, e); nm != "" {
		return rConst(coeffValues[nm])
	}
	if i, ok := calldataIndex(gi.info, e); ok {
		return rSym(fmt.Sprintf("k_d%d", i))
	}
	if f, ok := gateFieldOf(e); ok {
		return p.fields.coef[f]
	}
	if id, ok := e.(*ast.Ident); ok {
		if v, ok := p.cenv[id.Name]; ok {
			return v
		}
	}
	p.bad = "unsupported coefficient expression " + types.ExprString(e)
	return rConst(0)
}

func (gi *gateInterp) wireOf(p *gatePath, e ast.Expr) string {
	if i, ok := calldataIndex(gi.info, e); ok {
		return fmt.Sprintf("w_d%d", i)
	}
	if f, ok := gateFieldOf(e); ok {
		return p.fields.wire[f]
	}
	if id, ok := e.(*ast.Ident); ok {
		if v, ok := p.wenv[id.Name]; ok {
			return v
		}
	}
	p.bad = "unsupported wire expression " + types.ExprString(e)
	return "w_?"
}

func (gi *gateInterp) eval(p *gatePath, e ast.Expr) rat {
	switch x := e.(type) {
	case *ast.ParenExpr:
		return gi.eval(p, x.X)
	case *ast.Ident:
		if v, ok := p.env[x.Name]; ok {
			return v
		}
		p.bad = "unknown variable " + x.Name
		return rConst(0)
	case *ast.CallExpr:
		sel, ok := x.Fun.(*ast.SelectorExpr)
		if !ok {
			break
		}
		arg := func(i int) rat { return gi.eval(p, x.Args[i]) }
		switch sel.Sel.Name {
		case "GetValue":
			c := gi.coefOf(p, x.Args[0])
			return c.mul(rSym(gi.wireOf(p, x.Args[1])))
		case "GetCoeff":
			return gi.coefOf(p, x.Args[0])
		case "Add":
			return arg(0).add(arg(1))
		case "Sub":
			return arg(0).add(arg(1).neg())
		case "Mul":
			return arg(0).mul(arg(1))
		case "Neg":
			return arg(0).neg()
		case "Inverse":
			return arg(0).inv()
		case "One":
			return rConst(1)
		}
	}
	p.bad = "unsupported expression " + types.ExprString(e)
	return rConst(0)
}

// inlineDecompress interprets the body of Decompress* on p.fields.
func (gi *gateInterp) inlineDecompress(p *gatePath, fd *ast.FuncDecl) {
	for _, st := range fd.Body.List {
		switch x := st.(type) {
		case *ast.ExprStmt:
			// c.Clear()
			continue
		case *ast.AssignStmt:
			if len(x.Lhs) != 1 || len(x.Rhs) != 1 {
				p.bad = "unsupported assignment in Decompress"
				return
			}
			f, ok := gateFieldOf(x.Lhs[0])
			if !ok {
				p.bad = "unsupported target in Decompress: " + types.ExprString(x.Lhs[0])
				return
			}
			rhs := x.Rhs[0]
			if call, ok := rhs.(*ast.CallExpr); ok && len(call.Args) == 1 {
				rhs = call.Args[0] // conversion CommitmentConstraint(...)
			}
			switch {
			case f == "Commitment":
				continue
			case strings.HasPrefix(f, "X"):
				if i, ok := calldataIndex(gi.info, rhs); ok {
					p.fields.wire[f] = fmt.Sprintf("w_d%d", i)
					p.fields.raw[f] = fmt.Sprintf("d%d", i)
				} else if g, ok := gateFieldOf(rhs); ok {
					p.fields.wire[f] = p.fields.wire[g]
					p.fields.raw[f] = p.fields.raw[g]
				} else {
					p.bad = "unsupported wire source in Decompress: " + types.ExprString(rhs)
				}
			default:
				p.fields.coef[f] = gi.coefOf(p, rhs)
				if i, ok := calldataIndex(gi.info, rhs); ok {
					p.fields.raw[f] = fmt.Sprintf("d%d", i)
				} else {
					p.fields.raw[f] = types.ExprString(rhs)
				}
			}
		default:
			p.bad = fmt.Sprintf("unsupported statement in Decompress: %T", st)
			return
		}
	}
}

func isNilIdent(e ast.Expr) bool {
	id, ok := e.(*ast.Ident)
	return ok && id.Name == "nil"
}

// run interprets a statement list on path p; continuation k is executed after the list on every fall-through path.
func (gi *gateInterp) run(p *gatePath, list []ast.Stmt, k func(*gatePath)) {
	if p.bad != "" {
		gi.accept = append(gi.accept, p)
		return
	}
	if len(list) == 0 {
		k(p)
		return
	}
	st, rest := list[0], list[1:]
	next := func(q *gatePath) { gi.run(q, rest, k) }
	switch x := st.(type) {
	case *ast.DeclStmt:
		next(p)
	case *ast.ExprStmt:
		call, ok := x.X.(*ast.CallExpr)
		if !ok {
			p.bad = "unsupported expression statement"
			next(p)
			return
		}
		sel, _ := call.Fun.(*ast.SelectorExpr)
		if sel != nil && strings.HasPrefix(sel.Sel.Name, "Decompress") {
			if fd := gi.methods[sel.Sel.Name]; fd != nil {
				gi.inlineDecompress(p, fd)
			} else {
				p.bad = "cannot resolve " + sel.Sel.Name
			}
			next(p)
			return
		}
		if sel != nil && sel.Sel.Name == "SetValue" && len(call.Args) == 2 {
			w := gi.wireOf(p, call.Args[0])
			v := gi.eval(p, call.Args[1])
			p.sets = append(p.sets, struct {
				wire string
				val  rat
			}{w, v})
			next(p)
			return
		}
		p.bad = "unsupported call statement " + types.ExprString(call.Fun)
		next(p)
	case *ast.AssignStmt:
		if len(x.Rhs) == 1 {
			// a local naming a calldata word / gate field (wire id or coefficient id), e.g. out := inst.Calldata[2]
			if id, ok := x.Lhs[0].(*ast.Ident); ok && len(x.Lhs) == 1 {
				_, isCD := calldataIndex(gi.info, x.Rhs[0])
				_, isGF := gateFieldOf(x.Rhs[0])
				if isCD || isGF {
					q := p.clone()
					q.bad = ""
					w := gi.wireOf(q, x.Rhs[0])
					c := gi.coefOf(q, x.Rhs[0])
					if q.bad == "" {
						if p.wenv == nil {
							p.wenv = map[string]string{}
						}
						if p.cenv == nil {
							p.cenv = map[string]rat{}
						}
						p.wenv[id.Name] = w
						p.cenv[id.Name] = c
						next(p)
						return
					}
				}
			}
			v := gi.eval(p, x.Rhs[0])
			if id, ok := x.Lhs[0].(*ast.Ident); ok {
				p.env[id.Name] = v
			} else {
				p.bad = "unsupported assignment target"
			}
			// second lhs (ok) ignored
		} else {
			p.bad = "unsupported multi-assignment"
		}
		next(p)
	case *ast.ReturnStmt:
		if len(x.Results) != 1 {
			p.bad = "unsupported return"
			gi.accept = append(gi.accept, p)
			return
		}
		if isNilIdent(x.Results[0]) {
			gi.accept = append(gi.accept, p)
			return
		}
		if call, ok := x.Results[0].(*ast.CallExpr); ok {
			if sel, ok := call.Fun.(*ast.SelectorExpr); ok {
				if fd := gi.methods[sel.Sel.Name]; fd != nil {
					// helper method of the same type: inline it with its parameters bound to the arguments
					q := p.clone()
					q.env = map[string]rat{}
					gi.bindParams(q, p, fd, call.Args)
					gi.run(q, fd.Body.List, func(z *gatePath) { gi.accept = append(gi.accept, z) })
					return
				}
				if id, ok := sel.X.(*ast.Ident); ok {
					if _, isPkg := gi.info.Uses[id].(*types.PkgName); isPkg {
						return // fmt.Errorf / errors.New ...: an error value, rejecting path
					}
				}
			}
			p.bad = "cannot interpret returned call " + types.ExprString(call.Fun)
			gi.accept = append(gi.accept, p)
			return
		}
		// a returned identifier other than nil is an error value: rejecting path
	case *ast.IfStmt:
		cond := types.ExprString(x.Cond)
		// zero test:  if !t.IsZero() { return err }
		if un, ok := x.Cond.(*ast.UnaryExpr); ok && un.Op == token.NOT {
			if call, ok := un.X.(*ast.CallExpr); ok {
				if sel, ok := call.Fun.(*ast.SelectorExpr); ok && sel.Sel.Name == "IsZero" {
					if id, ok := sel.X.(*ast.Ident); ok && x.Else == nil && bodyRejects(x.Body) {
						q := p.clone()
						q.zchecks = append(q.zchecks, q.env[id.Name])
						next(q)
						return
					}
				}
			}
		}
		// generic branch: both sides
		q1 := p.clone()
		q1.conds = append(q1.conds, cond)
		gi.run(q1, x.Body.List, next)
		q2 := p.clone()
		q2.conds = append(q2.conds, "!("+cond+")")
		switch e := x.Else.(type) {
		case nil:
			next(q2)
		case *ast.BlockStmt:
			gi.run(q2, e.List, next)
		case *ast.IfStmt:
			gi.run(q2, []ast.Stmt{e}, next)
		}
	case *ast.SwitchStmt:
		// a tagless switch is an if / else-if chain: rewrite and interpret that
		if x.Tag == nil && x.Init == nil {
			var chain *ast.IfStmt
			var last *ast.IfStmt
			var deflt *ast.BlockStmt
			ok := true
			for _, cs := range x.Body.List {
				cc, isCase := cs.(*ast.CaseClause)
				if !isCase {
					ok = false
					break
				}
				for _, s2 := range cc.Body {
					if _, isFall := s2.(*ast.BranchStmt); isFall {
						ok = false // fallthrough / break: not handled
					}
				}
				if cc.List == nil {
					deflt = &ast.BlockStmt{List: cc.Body}
					continue
				}
				var cond ast.Expr = cc.List[0]
				for _, e := range cc.List[1:] {
					cond = &ast.BinaryExpr{X: cond, Op: token.LOR, Y: e}
				}
				n := &ast.IfStmt{Cond: cond, Body: &ast.BlockStmt{List: cc.Body}}
				if chain == nil {
					chain = n
				} else {
					last.Else = n
				}
				last = n
			}
			if ok && chain != nil {
				if deflt != nil {
					last.Else = deflt
				}
				gi.run(p, append([]ast.Stmt{chain}, rest...), k)
				return
			}
		}
		p.bad = "unsupported switch statement"
		next(p)
	default:
		p.bad = fmt.Sprintf("unsupported statement %T", st)
		next(p)
	}
}

// bindParams binds the parameters of helper fd to the caller's argument expressions.
func (gi *gateInterp) bindParams(q, caller *gatePath, fd *ast.FuncDecl, args []ast.Expr) {
	i := 0
	for _, fl := range fd.Type.Params.List {
		for _, nm := range fl.Names {
			if i >= len(args) {
				return
			}
			a := args[i]
			i++
			if f, ok := gateFieldOf(a); ok {
				if strings.HasPrefix(f, "X") {
					q.wenv[nm.Name] = caller.fields.wire[f]
				} else if f != "Commitment" {
					q.cenv[nm.Name] = caller.fields.coef[f]
				}
				continue
			}
			if idx, ok := calldataIndex(gi.info, a); ok {
				q.wenv[nm.Name] = fmt.Sprintf("w_d%d", idx)
				q.cenv[nm.Name] = rSym(fmt.Sprintf("k_d%d", idx))
				continue
			}
			if id, ok := a.(*ast.Ident); ok {
				if v, ok := caller.wenv[id.Name]; ok {
					q.wenv[nm.Name] = v
				}
				if v, ok := caller.cenv[id.Name]; ok {
					q.cenv[nm.Name] = v
				}
				if v, ok := caller.env[id.Name]; ok {
					q.env[nm.Name] = v
				}
			}
			if nmc := coeffConstName(gi.info, a); nmc != "" {
				q.cenv[nm.Name] = rConst(coeffValues[nmc])
			}
		}
	}
}

func bodyRejects(b *ast.BlockStmt) bool {
	if len(b.List) != 1 {
		return false
	}
	r, ok := b.List[0].(*ast.ReturnStmt)
	return ok && len(r.Results) == 1 && !isNilIdent(r.Results[0])
}

// RunGateBlueprints checks every type of package constraint that has Solve + DecompressSparseR1C + CompressSparseR1C.
func RunGateBlueprints(p *Prog, r *Report) {
	pk := p.ByPth[modPath+"/constraint"]
	if pk == nil {
		r.Fail("UNRESOLVED", "-", "-", "constraint-package", "-", "package constraint not loaded")
		return
	}
	byRecv := map[string]map[string]*ast.FuncDecl{}
	for _, file := range pk.Syntax {
		for _, d := range file.Decls {
			fd, ok := d.(*ast.FuncDecl)
			if !ok || fd.Recv == nil || len(fd.Recv.List) == 0 || fd.Body == nil {
				continue
			}
			rt := types.ExprString(fd.Recv.List[0].Type)
			rt = strings.TrimPrefix(rt, "*")
			if i := strings.Index(rt, "["); i > 0 {
				rt = rt[:i]
			}
			if byRecv[rt] == nil {
				byRecv[rt] = map[string]*ast.FuncDecl{}
			}
			byRecv[rt][fd.Name.Name] = fd
		}
	}
	var names []string
	for n, ms := range byRecv {
		if ms["Solve"] != nil && ms["DecompressSparseR1C"] != nil && ms["CompressSparseR1C"] != nil {
			names = append(names, n)
		}
	}
	sort.Strings(names)
	if len(names) < 4 {
		r.Fail("UNRESOLVED", pk.PkgPath, "-", "gate-blueprints", "-", fmt.Sprintf("found %d sparse gate blueprints, confirmed 4", len(names)))
	}
	for _, n := range names {
		ms := byRecv[n]
		gi := &gateInterp{pk: pk, info: pk.TypesInfo, methods: ms}
		// --- codec: Compress list vs Decompress map vs CalldataSize
		gateCodec(p, r, pk, n, ms, gi)
		// --- solve
		start := &gatePath{env: map[string]rat{}, wenv: map[string]string{}, cenv: map[string]rat{}, fields: newGateFields()}
		// specialised gates read calldata directly: the gate they stand for is what Decompress builds
		uses := false
		ast.Inspect(ms["Solve"].Body, func(nd ast.Node) bool {
			if sel, ok := nd.(*ast.SelectorExpr); ok && strings.HasPrefix(sel.Sel.Name, "Decompress") {
				uses = true
			}
			return true
		})
		if !uses {
			gi.inlineDecompress(start, ms["DecompressSparseR1C"])
		}
		gi.run(start, ms["Solve"].Body.List, func(q *gatePath) { gi.accept = append(gi.accept, q) })
		pos := p.Pos(ms["Solve"].Pos())
		fname := "(*" + n + ").Solve"
		if len(gi.accept) == 0 {
			r.Fail("GATE-SOLVE", pk.PkgPath, fname, "paths", pos, "no accepting path could be interpreted")
			continue
		}
		for i, ap := range gi.accept {
			key := fmt.Sprintf("path#%d[%s]", i+1, strings.Join(ap.conds, " && "))
			if len(key) > 160 {
				key = key[:160]
			}
			if ap.bad != "" {
				r.Fail("GATE-SOLVE", pk.PkgPath, fname, key, pos, "cannot interpret: "+ap.bad)
				continue
			}
			switch {
			case len(ap.sets) == 1:
				sub := map[string]rat{ap.sets[0].wire: ap.sets[0].val}
				g := ap.fields.poly(sub)
				if g.isZero() {
					r.Pass("GATE-SOLVE", pk.PkgPath, fname, key, pos, "assigned value of "+ap.sets[0].wire+" makes qL·xa+qR·xb+qM·xa·xb+qO·xc+qC vanish identically", true)
				} else {
					r.Fail("GATE-SOLVE", pk.PkgPath, fname, key, pos, fmt.Sprintf("the value assigned to %s does not satisfy the gate: residual numerator %s", ap.sets[0].wire, g.n.String()))
				}
			case len(ap.sets) == 0 && len(ap.zchecks) > 0:
				g := ap.fields.poly(nil)
				ok := false
				for _, z := range ap.zchecks {
					if z.add(g.neg()).isZero() || z.add(g).isZero() {
						ok = true
					}
				}
				if ok {
					r.Pass("GATE-SOLVE", pk.PkgPath, fname, key, pos, "path accepts only after testing the gate polynomial for zero", true)
				} else {
					r.Fail("GATE-SOLVE", pk.PkgPath, fname, key, pos, "the expression tested for zero is not the gate polynomial "+g.String())
				}
			case len(ap.sets) == 0:
				// accept without assignment or check: only the commitment-constraint exemption
				exempt := false
				for _, c := range ap.conds {
					if strings.Contains(c, "Commitment") && !strings.HasPrefix(c, "!(") {
						exempt = true
					}
				}
				if exempt {
					r.Pass("GATE-SOLVE", pk.PkgPath, fname, key, pos, "commitment-enforcing constraint: skipped at solving time by design (checked by the backend)", true)
				} else {
					r.Fail("GATE-SOLVE", pk.PkgPath, fname, key, pos, "Solve returns nil on this path without assigning a wire or checking the gate")
				}
			default:
				r.Fail("GATE-SOLVE", pk.PkgPath, fname, key, pos, "more than one wire assigned on one path")
			}
		}
	}
}

func gateCodec(p *Prog, r *Report, pk *packages.Package, n string, ms map[string]*ast.FuncDecl, gi *gateInterp) {
	fname := "(*" + n + ")"
	// Compress: *to = append(*to, e0, e1, ...)
	var comp []string
	ast.Inspect(ms["CompressSparseR1C"].Body, func(nd ast.Node) bool {
		call, ok := nd.(*ast.CallExpr)
		if !ok {
			return true
		}
		if id, ok := call.Fun.(*ast.Ident); ok && id.Name == "append" {
			for _, a := range call.Args[1:] {
				if c, ok := a.(*ast.CallExpr); ok && len(c.Args) == 1 {
					a = c.Args[0]
				}
				if f, ok := gateFieldOf(a); ok {
					comp = append(comp, f)
				} else {
					comp = append(comp, "?"+types.ExprString(a))
				}
			}
		}
		return true
	})
	dp := &gatePath{env: map[string]rat{}, wenv: map[string]string{}, cenv: map[string]rat{}, fields: newGateFields()}
	gi.inlineDecompress(dp, ms["DecompressSparseR1C"])
	pos := p.Pos(ms["CompressSparseR1C"].Pos())
	if dp.bad != "" {
		r.Fail("GATE-CODEC", pk.PkgPath, fname, "decompress", pos, "cannot interpret Decompress: "+dp.bad)
		return
	}
	for i, f := range comp {
		key := fmt.Sprintf("word%d:%s", i, f)
		if f == "Commitment" {
			r.Pass("GATE-CODEC", pk.PkgPath, fname, key, pos, "commitment tag word", false)
			continue
		}
		if dp.fields.raw[f] == fmt.Sprintf("d%d", i) {
			r.Pass("GATE-CODEC", pk.PkgPath, fname, key, pos, fmt.Sprintf("word %d written from %s and read back into %s", i, f, f), true)
		} else {
			r.Fail("GATE-CODEC", pk.PkgPath, fname, key, pos, fmt.Sprintf("Compress writes %s as word %d but Decompress reads it from %q", f, i, dp.fields.raw[f]))
		}
	}
	// every calldata-sourced field of Decompress is written by Compress
	for f, src := range dp.fields.raw {
		if strings.HasPrefix(src, "d") {
			found := false
			for _, c := range comp {
				if c == f {
					found = true
				}
			}
			if !found && !(f == "XB" && dp.fields.raw["XB"] == dp.fields.raw["XA"]) {
				r.Fail("GATE-CODEC", pk.PkgPath, fname, "unwritten:"+f, pos, "Decompress reads "+f+" from the calldata but Compress never writes it")
			}
		}
	}
	// CalldataSize
	if cs := ms["CalldataSize"]; cs != nil {
		ast.Inspect(cs.Body, func(nd ast.Node) bool {
			ret, ok := nd.(*ast.ReturnStmt)
			if !ok || len(ret.Results) != 1 {
				return true
			}
			if tv, ok := pk.TypesInfo.Types[ret.Results[0]]; ok && tv.Value != nil {
				nv, _ := constant.Int64Val(constant.ToInt(tv.Value))
				if int(nv) == len(comp) {
					r.Pass("GATE-CODEC", pk.PkgPath, fname, "calldatasize", p.Pos(cs.Pos()), fmt.Sprintf("CalldataSize()=%d equals the number of words written by Compress", nv), true)
				} else {
					r.Fail("GATE-CODEC", pk.PkgPath, fname, "calldatasize", p.Pos(cs.Pos()), fmt.Sprintf("CalldataSize()=%d but Compress writes %d words", nv, len(comp)))
				}
			}
			return true
		})
	}
}
