package main

import (
	"fmt"
	"go/types"
	"regexp"
	"sort"
	"strings"

	"golang.org/x/tools/go/ssa"
)

// Typestate rules on hash-like objects (anything with Write, Sum and Reset methods: hash.Hash,
// std/hash.FieldHasher, MiMC, …).
//
// HASH-KILL : data absorbed by a Write must be able to reach a Sum of the same object without passing a Reset of
//             it (otherwise the absorbed data is silently discarded — e.g. a challenge that no longer depends on
//             the commitment it was supposed to bind).
// HASH-CLEAN: a hasher supplied by the caller through an option / config object is left clean: every Write on it is
//             followed by a Reset on every path to the function's exit (otherwise a later call — the verifier
//             given the same hasher — starts from a dirty state).

type hashOp struct {
	call *ssa.Call
	kind string // Write | Sum | Reset
	obj  string
}

func hasMethods(t types.Type, names ...string) bool {
	for _, T := range []types.Type{t, types.NewPointer(t)} {
		ms := types.NewMethodSet(T)
		ok := true
		for _, n := range names {
			found := false
			for i := 0; i < ms.Len(); i++ {
				if ms.At(i).Obj().Name() == n {
					found = true
				}
			}
			if !found {
				ok = false
			}
		}
		if ok {
			return true
		}
	}
	return false
}

func hashOpOf(ins ssa.Instruction) *hashOp {
	c, ok := ins.(*ssa.Call)
	if !ok {
		return nil
	}
	cc := &c.Call
	var name string
	var recv ssa.Value
	if cc.IsInvoke() {
		name, recv = cc.Method.Name(), cc.Value
	} else if cal := cc.StaticCallee(); cal != nil && cal.Signature.Recv() != nil && len(cc.Args) > 0 {
		name, recv = funcBaseName(cal), cc.Args[0]
	} else {
		return nil
	}
	if name != "Write" && name != "Sum" && name != "Reset" {
		return nil
	}
	if !hasMethods(deref(recv.Type()), "Write", "Sum", "Reset") && !hasMethods(recv.Type(), "Write", "Sum", "Reset") {
		return nil
	}
	d := Desc(recv)
	if d == "" || strings.Contains(d, "?") {
		d = fmt.Sprintf("%p", recv)
	}
	return &hashOp{call: c, kind: name, obj: d}
}

// searchForward explores the CFG from the instruction after `from`, calling visit on every hash operation on obj.
// visit returns "stop" (do not continue along this path), "found" (terminate with success) or "".
// Returns (found, reachedExit).
func searchForward(from *ssa.Call, obj string, visit func(op *hashOp) string) (bool, bool) {
	fn := from.Parent()
	start := from.Block()
	seen := map[*ssa.BasicBlock]bool{}
	reachedExit := false
	var scan func(b *ssa.BasicBlock, i0 int) bool
	scan = func(b *ssa.BasicBlock, i0 int) bool {
		for i := i0; i < len(b.Instrs); i++ {
			ins := b.Instrs[i]
			if op := hashOpOf(ins); op != nil && op.obj == obj {
				switch visit(op) {
				case "found":
					return true
				case "stop":
					return false
				}
			}
			if _, ok := ins.(*ssa.Return); ok {
				reachedExit = true
			}
		}
		for _, s := range b.Succs {
			if seen[s] {
				continue
			}
			seen[s] = true
			if scan(s, 0) {
				return true
			}
		}
		return false
	}
	idx := 0
	for i, ins := range start.Instrs {
		if ins == ssa.Instruction(from) {
			idx = i + 1
		}
	}
	_ = fn
	found := scan(start, idx)
	return found, reachedExit
}

func objEscapes(obj string) bool {
	return strings.HasPrefix(obj, "$") || strings.HasPrefix(obj, "cp$") || strings.HasPrefix(obj, "global:") || strings.Contains(obj, "freevar")
}

// RunHashKill over the functions of the packages accepted by scope.
func RunHashKill(p *Prog, r *Report, scope func(pkg string) bool) {
	for _, fn := range p.Funcs {
		pk := FuncPkg(fn)
		if pk == nil || !scope(pk.Path()) {
			continue
		}
		ord := map[string]int{}
		for _, b := range fn.Blocks {
			for _, ins := range b.Instrs {
				op := hashOpOf(ins)
				if op == nil || op.kind != "Write" {
					continue
				}
				ord[op.obj]++
				key := fmt.Sprintf("write:%s#%d", normIdx(op.obj), ord[op.obj])
				found, exit := searchForward(op.call, op.obj, func(o *hashOp) string {
					switch o.kind {
					case "Sum":
						return "found"
					case "Reset":
						return "stop"
					}
					return ""
				})
				pos := p.Pos(ins.Pos())
				switch {
				case found:
					r.Pass("HASH-KILL", pk.Path(), FuncName(fn), key, pos, "absorbed data reaches a Sum of the same hasher without an intervening Reset", true)
				case exit && objEscapes(op.obj):
					r.Pass("HASH-KILL", pk.Path(), FuncName(fn), key, pos, "absorbed data leaves the function in a caller-visible hasher", false)
				default:
					r.Fail("HASH-KILL", pk.Path(), FuncName(fn), key, pos, "data written to the hasher is discarded: every path to a Sum passes a Reset first (the digest / challenge no longer depends on it)")
				}
			}
		}
	}
}

// RunHashClean: Sum on a config-supplied hasher is followed by Reset on every path to the exit.
func RunHashClean(p *Prog, r *Report, scope func(pkg string) bool) {
	for _, fn := range p.Funcs {
		pk := FuncPkg(fn)
		if pk == nil || !scope(pk.Path()) {
			continue
		}
		ord := map[string]int{}
		for _, b := range fn.Blocks {
			for _, ins := range b.Instrs {
				op := hashOpOf(ins)
				if op == nil || op.kind != "Write" {
					continue
				}
				if !strings.Contains(op.obj, "Config") && !strings.Contains(op.obj, ".HashToFieldFn") {
					continue
				}
				ord[op.obj]++
				key := fmt.Sprintf("write:%s#%d", normIdx(op.obj), ord[op.obj])
				// is there a path from the Sum to the exit without a Reset?
				dirty := false
				_, _ = searchForwardAll(op.call, op.obj, &dirty)
				pos := p.Pos(ins.Pos())
				if dirty {
					r.Fail("HASH-CLEAN", pk.Path(), FuncName(fn), key, pos, "the caller-supplied hasher is left with absorbed data (a Write is not followed by a Reset on some path to the exit): a later call given the same hasher starts from a dirty state")
				} else {
					r.Pass("HASH-CLEAN", pk.Path(), FuncName(fn), key, pos, "the Write is followed by a Reset on every path to the exit", true)
				}
			}
		}
	}
}

// searchForwardAll sets *dirty when some path from `from` reaches a Return without passing a Reset of obj.
func searchForwardAll(from *ssa.Call, obj string, dirty *bool) (bool, bool) {
	start := from.Block()
	seen := map[*ssa.BasicBlock]bool{}
	var scan func(b *ssa.BasicBlock, i0 int)
	scan = func(b *ssa.BasicBlock, i0 int) {
		for i := i0; i < len(b.Instrs); i++ {
			ins := b.Instrs[i]
			if op := hashOpOf(ins); op != nil && op.obj == obj && op.kind == "Reset" {
				return
			}
			if _, ok := ins.(*ssa.Return); ok {
				*dirty = true
				return
			}
		}
		for _, s := range b.Succs {
			if !seen[s] {
				seen[s] = true
				scan(s, 0)
			}
		}
	}
	idx := 0
	for i, ins := range start.Instrs {
		if ins == ssa.Instruction(from) {
			idx = i + 1
		}
	}
	scan(start, idx)
	return false, false
}

// HASH-FRESH: on a hasher that outlives the function (option / field / parameter), every Sum covers only what
// was written since a Reset: either a Reset follows the Sum on every path to the exit (reset-after discipline)
// or a Reset precedes the first Write on every path from the entry (reset-before discipline).
func RunHashFresh(p *Prog, r *Report, scope func(pkg string) bool) {
	for _, fn := range p.Funcs {
		pk := FuncPkg(fn)
		if pk == nil || !scope(pk.Path()) {
			continue
		}
		ord := map[string]int{}
		for _, b := range fn.Blocks {
			for _, ins := range b.Instrs {
				op := hashOpOf(ins)
				if op == nil || op.kind != "Sum" {
					continue
				}
				if !hashOutlives(op) {
					continue
				}
				// only sums that can see written data
				ord[op.obj]++
				key := fmt.Sprintf("sum:%s#%d", normIdx(op.obj), ord[op.obj])
				dirty := false
				searchForwardAll(op.call, op.obj, &dirty)
				resetAfter := !dirty
				resetBefore := resetDominates(op)
				pos := p.Pos(ins.Pos())
				if resetAfter || resetBefore {
					why := "a Reset follows the Sum on every path to the exit"
					if !resetAfter {
						why = "a Reset precedes the Sum on every path from the entry"
					}
					r.Pass("HASH-FRESH", pk.Path(), FuncName(fn), key, pos, why, true)
				} else {
					r.Fail("HASH-FRESH", pk.Path(), FuncName(fn), key, pos, "the digest of a long-lived hasher is taken without a Reset before or after: data of earlier uses (an earlier commitment, an earlier call) leaks into this and later digests")
				}
			}
		}
	}
}

// hashOutlives: the hasher object is not created by this function (it is a field, option, parameter or captured variable).
func hashOutlives(op *hashOp) bool {
	o := op.obj
	return strings.HasPrefix(o, "$") || strings.HasPrefix(o, "cp$") || strings.Contains(o, "Config)") || strings.Contains(o, "freevar") || strings.HasPrefix(o, "global:")
}

// resetDominates: a Reset of the same object precedes the Sum on every path from the entry.
func resetDominates(op *hashOp) bool {
	blk := op.call.Block()
	// same block, earlier instruction
	for _, ins := range blk.Instrs {
		if ins == ssa.Instruction(op.call) {
			break
		}
		if o := hashOpOf(ins); o != nil && o.obj == op.obj && o.kind == "Reset" {
			return true
		}
	}
	for d := blk.Idom(); d != nil; d = d.Idom() {
		for _, ins := range d.Instrs {
			if o := hashOpOf(ins); o != nil && o.obj == op.obj && o.kind == "Reset" {
				return true
			}
		}
	}
	return false
}

// HTF-AGREE: prover and verifier reduce the hash-to-field digest of a commitment in the same way: the descriptors
// of the byte strings handed to (*fr.Element).SetBytes after a HashToFieldFn.Sum are equal in Prove and Verify.
var sumRecvRe = regexp.MustCompile(`hash\.Hash\.Sum\([^,()]*,`)

func RunHtfAgree(p *Prog, r *Report) {
	cfgRe := strings.NewReplacer("local(ProverConfig)", "cfg", "local(VerifierConfig)", "cfg", "$0.htfFunc", "cfg.HashToFieldFn", "cp$0.htfFunc", "cfg.HashToFieldFn")
	collect := func(fn *ssa.Function) []string {
		var out []string
		for _, f := range funcsWithClosures(fn) {
			for _, b := range f.Blocks {
				for _, ins := range b.Instrs {
					c, ok := ins.(*ssa.Call)
					if !ok || !strings.HasSuffix(CalleeName(&c.Call), "fr.(*Element).SetBytes") || len(c.Call.Args) < 2 {
						continue
					}
					d := Desc(c.Call.Args[1])
					if !strings.Contains(d, ".Sum(") {
						continue
					}
					d = cfgRe.Replace(normIdx(d))
					// keep the slicing shape only: which expression denotes the hasher depends on where the code sits
					// (option struct, captured variable, parameter of a helper)
					d = sumRecvRe.ReplaceAllString(d, "hash.Hash.Sum(H,")
					out = append(out, d)
				}
			}
		}
		sort.Strings(out)
		return uniq(out)
	}
	for _, scheme := range []struct{ name, prover, verifier string }{
		{"groth16", "github.com/consensys/gnark/backend/groth16/<curve>.Prove", "github.com/consensys/gnark/backend/groth16/<curve>.Verify"},
		{"plonk", "github.com/consensys/gnark/backend/plonk/<curve>.(*instance).bsb22Hint", "github.com/consensys/gnark/backend/plonk/<curve>.Verify"},
	} {
		provers := map[string]*ssa.Function{}
		for _, fn := range p.FuncsMatching(scheme.prover) {
			provers[FuncPkg(fn).Path()] = fn
		}
		vs := p.FuncsMatching(scheme.verifier)
		if len(vs) < 7 || len(provers) < 7 {
			r.Fail("UNRESOLVED", "-", scheme.name, "htf-agree", "-", fmt.Sprintf("%d provers / %d verifiers found, confirmed 7", len(provers), len(vs)))
		}
		for _, vf := range vs {
			pkg := FuncPkg(vf).Path()
			pf := provers[pkg]
			if pf == nil {
				continue
			}
			// verifier side: Verify and its same-package callees; prover side: the anchor function and, when the
			// reduction has been moved out of it, every other function of the package outside the verifier
			vset := map[*ssa.Function]bool{vf: true}
			var grow func(f *ssa.Function, d int)
			grow = func(f *ssa.Function, d int) {
				if d > 2 {
					return
				}
				for _, ff := range funcsWithClosures(f) {
					for _, bb := range ff.Blocks {
						for _, ins := range bb.Instrs {
							if ci, ok := ins.(ssa.CallInstruction); ok {
								if cal := ci.Common().StaticCallee(); cal != nil && cal.Blocks != nil && FuncPkg(cal) != nil && FuncPkg(cal).Path() == pkg && !vset[cal] {
									vset[cal] = true
									grow(cal, d+1)
								}
							}
						}
					}
				}
			}
			grow(vf, 0)
			var b []string
			for f := range vset {
				b = append(b, collect(f)...)
			}
			sort.Strings(b)
			b = uniq(b)
			a := collect(pf)
			if len(a) == 0 {
				for _, f := range p.Funcs {
					if pk := FuncPkg(f); pk != nil && pk.Path() == pkg && f.Parent() == nil && !vset[f] {
						a = append(a, collect(f)...)
					}
				}
				sort.Strings(a)
				a = uniq(a)
			}
			key := "hash-to-field-reduction"
			if len(a) > 0 && strings.Join(a, "|") == strings.Join(b, "|") {
				r.Pass("HTF-AGREE", pkg, FuncName(vf), key, p.Pos(FuncPos(vf)), "prover and verifier hand the same byte string shape to SetBytes: "+strings.Join(a, " "), true)
			} else {
				r.Fail("HTF-AGREE", pkg, FuncName(vf), key, p.Pos(FuncPos(vf)), fmt.Sprintf("prover and verifier reduce the commitment hash differently: prover %v, verifier %v — a hash-to-field function with a digest wider than a field element makes valid proofs fail", a, b))
			}
		}
	}
}
