package main

import (
	"fmt"
	"go/token"
	"go/types"
	"sort"
	"strings"

	"golang.org/x/tools/go/ssa"
)

// V-HDR-BOUND (C08): a count decoded from a length header is attacker-chosen and independent of the payload that
// follows it. The rule finds, from the decoders themselves, the struct fields that are assigned from an
// encoding/binary integer read (header fields), taints every load of such a field (forward, through conversions,
// arithmetic, phis, local spills and arguments of in-module static callees) and requires that no tainted value is
// used as an index or slice bound unless a dominating comparison with len() of the same slice excludes the
// out-of-range case. Using the value as an allocation size or in comparisons is accepted.

type hdrField struct {
	strct *types.Named
	idx   int
}

func isBinaryRead(c *ssa.Call) bool {
	n := CalleeName(&c.Call)
	if !strings.HasPrefix(n, "encoding/binary.") && !strings.HasPrefix(n, "(encoding/binary.") {
		return false
	}
	return strings.Contains(n, ".Uint16") || strings.Contains(n, ".Uint32") || strings.Contains(n, ".Uint64") || strings.HasSuffix(n, ".Uvarint") || strings.HasSuffix(n, ".Varint")
}

func namedOfPtr(t types.Type) *types.Named {
	if p, ok := t.Underlying().(*types.Pointer); ok {
		t = p.Elem()
	}
	n, _ := t.(*types.Named)
	return n
}

func RunHeaderBounds(p *Prog, r *Report, inScope func(pkgPath string) bool) {
	var fns []*ssa.Function
	for _, fn := range p.Funcs {
		pk := FuncPkg(fn)
		if pk == nil || fn.Synthetic != "" || !inScope(pk.Path()) {
			continue
		}
		fns = append(fns, fn)
	}
	sort.Slice(fns, func(i, j int) bool { return FuncName(fns[i]) < FuncName(fns[j]) })
	// 1. header fields: stores of a value derived from an encoding/binary read into a struct field
	fields := map[hdrField]string{}
	for _, fn := range fns {
		for _, b := range fn.Blocks {
			for _, ins := range b.Instrs {
				st, ok := ins.(*ssa.Store)
				if !ok {
					continue
				}
				fa, ok := st.Addr.(*ssa.FieldAddr)
				if !ok {
					continue
				}
				if !derivesFromBinaryRead(st.Val, 0) {
					continue
				}
				if n := namedOfPtr(fa.X.Type()); n != nil {
					hf := hdrField{n, fa.Field}
					if _, seen := fields[hf]; !seen {
						fields[hf] = p.Pos(st.Pos())
						r.Pass("V-HDR-BOUND", FuncPkg(fn).Path(), FuncName(fn), "header-field:"+n.Obj().Name()+"."+fieldName(fa.X.Type(), fa.Field), p.Pos(st.Pos()), "field is assigned from a decoded length header: every load of it is treated as attacker-chosen", true)
					}
				}
			}
		}
	}
	if len(fields) == 0 {
		r.Fail("UNRESOLVED", "-", "-", "header-fields", "-", "no struct field assigned from an encoding/binary read was found in the decoders in scope (confirmed: witness.nbPublic, witness.nbSecret)")
		return
	}
	// 2. forward taint
	tainted := map[ssa.Value]bool{}
	var work []ssa.Value
	add := func(v ssa.Value) {
		if v != nil && !tainted[v] {
			tainted[v] = true
			work = append(work, v)
		}
	}
	for _, fn := range fns {
		for _, b := range fn.Blocks {
			for _, ins := range b.Instrs {
				switch x := ins.(type) {
				case *ssa.UnOp:
					if x.Op != token.MUL {
						continue
					}
					if fa, ok := x.X.(*ssa.FieldAddr); ok {
						if n := namedOfPtr(fa.X.Type()); n != nil {
							if _, ok := fields[hdrField{n, fa.Field}]; ok {
								add(x)
							}
						}
					}
				case *ssa.Field:
					if n, ok := x.X.Type().(*types.Named); ok {
						if _, ok := fields[hdrField{n, x.Field}]; ok {
							add(x)
						}
					}
				}
			}
		}
	}
	type sink struct {
		ins  ssa.Instruction
		base ssa.Value
		t    ssa.Value
		kind string // index | slice
	}
	var sinks []sink
	nAlloc, nCmp, nArg := 0, 0, 0
	for len(work) > 0 {
		v := work[len(work)-1]
		work = work[:len(work)-1]
		refs := v.Referrers()
		if refs == nil {
			continue
		}
		for _, ref := range *refs {
			switch x := ref.(type) {
			case *ssa.Convert:
				add(x)
			case *ssa.ChangeType:
				add(x)
			case *ssa.Phi:
				add(x)
			case *ssa.BinOp:
				switch x.Op {
				case token.EQL, token.NEQ, token.LSS, token.LEQ, token.GTR, token.GEQ:
					nCmp++
				default:
					add(x)
				}
			case *ssa.Store:
				if x.Val == v {
					if al, ok := x.Addr.(*ssa.Alloc); ok {
						for _, lr := range *al.Referrers() {
							if u, ok := lr.(*ssa.UnOp); ok && u.Op == token.MUL {
								add(u)
							}
						}
					}
				}
			case *ssa.MakeSlice:
				nAlloc++
			case *ssa.Index:
				if x.Index == v {
					sinks = append(sinks, sink{x, x.X, v, "index"})
				}
			case *ssa.IndexAddr:
				if x.Index == v {
					sinks = append(sinks, sink{x, x.X, v, "index"})
				}
			case *ssa.Slice:
				if x.Low == v || x.High == v || x.Max == v {
					sinks = append(sinks, sink{x, x.X, v, "slice"})
				}
			case *ssa.Call:
				cal := x.Call.StaticCallee()
				if cal == nil || cal.Blocks == nil || FuncPkg(cal) == nil || !strings.HasPrefix(FuncPkg(cal).Path(), modPath+"/") {
					continue
				}
				off := 0
				if x.Call.IsInvoke() {
					continue
				}
				for i, a := range x.Call.Args {
					if a == v && i+off < len(cal.Params) {
						nArg++
						add(cal.Params[i+off])
					}
				}
			}
		}
	}
	r.Pass("V-HDR-BOUND", "-", "-", "taint-summary", "-", fmt.Sprintf("%d header fields; tainted values: %d; uses: %d allocation sizes, %d comparisons, %d in-module call arguments, %d index/slice bounds", len(fields), len(tainted), nAlloc, nCmp, nArg, len(sinks)), true)
	if nAlloc+nCmp+nArg+len(sinks) == 0 {
		r.Fail("UNRESOLVED", "-", "-", "header-uses", "-", "no use of a decoded header field was found (confirmed: Public() passes nbPublic to newFrom, which allocates with it)")
	}
	// 3. sinks must be guarded
	for _, s := range sinks {
		fn := s.ins.Parent()
		key := s.kind + ":" + normIdx(Desc(s.base))
		if why := lenGuarded(s.t, s.base, s.ins.Block(), s.kind == "index"); why != "" {
			r.Pass("V-HDR-BOUND", FuncPkg(fn).Path(), FuncName(fn), key, p.Pos(s.ins.Pos()), why, true)
		} else {
			r.Fail("V-HDR-BOUND", FuncPkg(fn).Path(), FuncName(fn), key, p.Pos(s.ins.Pos()), "a count decoded from a length header bounds this "+s.kind+" expression and no dominating comparison with len() of the same slice rejects a header that disagrees with the payload: out-of-range panic reachable from decodable bytes")
		}
	}
}

func derivesFromBinaryRead(v ssa.Value, d int) bool {
	if d > 6 {
		return false
	}
	switch x := v.(type) {
	case *ssa.Call:
		return isBinaryRead(x)
	case *ssa.Convert:
		return derivesFromBinaryRead(x.X, d+1)
	case *ssa.ChangeType:
		return derivesFromBinaryRead(x.X, d+1)
	case *ssa.Extract:
		return derivesFromBinaryRead(x.Tuple, d+1)
	}
	return false
}

// lenGuarded: a dominating `if` compares t with len(base) and only the in-range edge reaches blk.
func lenGuarded(t, base ssa.Value, blk *ssa.BasicBlock, strict bool) string {
	bd := normIdx(Desc(base))
	isLen := func(v ssa.Value) bool {
		if cv, ok := v.(*ssa.Convert); ok {
			v = cv.X
		}
		c, ok := v.(*ssa.Call)
		if !ok || !isBuiltinCall(c, "len") {
			return false
		}
		return c.Call.Args[0] == base || normIdx(Desc(c.Call.Args[0])) == bd
	}
	td := normIdx(Desc(t))
	same := func(v ssa.Value) bool {
		if v == t {
			return true
		}
		// a second load of the same header field (or the same conversion of it) denotes the same count
		if d := normIdx(Desc(v)); d != "" && d == td && !strings.Contains(d, "call:") && !strings.Contains(d, "phi(") {
			return true
		}
		if cv, ok := v.(*ssa.Convert); ok && cv.X == t {
			return true
		}
		if ct, ok := t.(*ssa.Convert); ok && ct.X == v {
			return true
		}
		return false
	}
	for d := blk; d != nil; d = d.Idom() {
		iff, ok := lastInstr(d).(*ssa.If)
		if !ok {
			continue
		}
		bo, ok := iff.Cond.(*ssa.BinOp)
		if !ok {
			continue
		}
		op := bo.Op
		x, y := bo.X, bo.Y
		if isLen(x) && same(y) { // len OP t  ==  t OP' len
			x, y = y, x
			switch op {
			case token.LSS:
				op = token.GTR
			case token.LEQ:
				op = token.GEQ
			case token.GTR:
				op = token.LSS
			case token.GEQ:
				op = token.LEQ
			}
		}
		if !same(x) || !isLen(y) {
			continue
		}
		// now: t op len(base)
		okSucc := -1
		switch op {
		case token.LSS:
			okSucc = 0
		case token.LEQ:
			if !strict {
				okSucc = 0
			}
		case token.GEQ:
			okSucc = 1
		case token.GTR:
			if !strict {
				okSucc = 1
			}
		}
		if okSucc < 0 {
			continue
		}
		s := d.Succs[okSucc]
		if len(s.Preds) == 1 && (s == blk || s.Dominates(blk)) {
			return "bound is compared with len() of the same slice on every path to this site"
		}
	}
	return ""
}
