package main

import (
	"fmt"
	"go/ast"
	"go/token"
	"go/types"
	"os"
	"regexp"
	"sort"
	"strings"

	"golang.org/x/tools/go/packages"
	"golang.org/x/tools/go/ssa"
	"golang.org/x/tools/go/ssa/ssautil"
)

const modPath = "github.com/consensys/gnark"

// Prog is the loaded, type-checked and SSA-built program.
type Prog struct {
	Fset  *token.FileSet
	Pkgs  []*packages.Package          // root packages (gnark module)
	ByPth map[string]*packages.Package // all packages by path (incl. deps)
	SSA   *ssa.Program
	SPkg  map[string]*ssa.Package
	// all source functions of the gnark module (incl. anonymous, methods, generic origins)
	Funcs []*ssa.Function
	// lookup by qualified name, see FuncName
	byName map[string]*ssa.Function
	Tags   string
}

var repoDir = "/repo"

// LoadProg loads the given patterns (relative to the repository root).
func LoadProg(patterns []string, tags string, overlay map[string][]byte) (*Prog, error) {
	os.Unsetenv("GOWORK")
	env := append(os.Environ(), "GOFLAGS=-mod=mod", "GOPROXY=off", "GOSUMDB=off", "GOTOOLCHAIN=local", "GOWORK=off")
	cfg := &packages.Config{
		Mode:    packages.LoadAllSyntax,
		Dir:     repoDir,
		Env:     env,
		Tests:   false,
		Overlay: overlay,
	}
	if tags != "" {
		cfg.BuildFlags = []string{"-tags=" + tags}
	}
	pkgs, err := packages.Load(cfg, patterns...)
	if err != nil {
		return nil, err
	}
	if len(pkgs) == 0 {
		return nil, fmt.Errorf("no packages loaded for %v", patterns)
	}
	var errs []string
	packages.Visit(pkgs, nil, func(p *packages.Package) {
		for _, e := range p.Errors {
			errs = append(errs, fmt.Sprintf("%s: %s", p.PkgPath, e.Error()))
		}
	})
	if len(errs) > 0 {
		sort.Strings(errs)
		if len(errs) > 10 {
			errs = errs[:10]
		}
		return nil, fmt.Errorf("type/load errors:\n  %s", strings.Join(errs, "\n  "))
	}
	p := &Prog{Fset: pkgs[0].Fset, Pkgs: pkgs, ByPth: map[string]*packages.Package{}, SPkg: map[string]*ssa.Package{}, byName: map[string]*ssa.Function{}, Tags: tags}
	packages.Visit(pkgs, nil, func(pk *packages.Package) { p.ByPth[pk.PkgPath] = pk })
	prog, _ := ssautil.AllPackages(pkgs, ssa.InstantiateGenerics)
	prog.Build()
	p.SSA = prog
	for _, sp := range prog.AllPackages() {
		p.SPkg[sp.Pkg.Path()] = sp
	}
	// collect module functions
	seen := map[*ssa.Function]bool{}
	var add func(fn *ssa.Function)
	add = func(fn *ssa.Function) {
		if fn == nil || seen[fn] {
			return
		}
		seen[fn] = true
		if fn.Blocks != nil {
			p.Funcs = append(p.Funcs, fn)
		}
		for _, a := range fn.AnonFuncs {
			add(a)
		}
	}
	for path, sp := range p.SPkg {
		if !inModule(path) {
			continue
		}
		for _, m := range sp.Members {
			switch m := m.(type) {
			case *ssa.Function:
				add(m)
			case *ssa.Type:
				for _, T := range []types.Type{m.Type(), types.NewPointer(m.Type())} {
					ms := prog.MethodSets.MethodSet(T)
					for i := 0; i < ms.Len(); i++ {
						// skip generic (uninstantiated) named types: MethodValue panics/returns nil
						if isGenericNamed(m.Type()) {
							continue
						}
						add(prog.MethodValue(ms.At(i)))
					}
				}
			}
		}
	}
	// generic origins and methods of generic types: walk declared funcs through types.Info
	for _, pk := range p.ByPth {
		if !inModule(pk.PkgPath) {
			continue
		}
		for _, obj := range pk.TypesInfo.Defs {
			if f, ok := obj.(*types.Func); ok {
				if fn := prog.FuncValue(f); fn != nil {
					add(fn)
				}
			}
		}
	}
	// keep only functions whose origin pkg is in module; sort
	var fs []*ssa.Function
	for _, fn := range p.Funcs {
		if pk := FuncPkg(fn); pk != nil && inModule(pk.Path()) {
			fs = append(fs, fn)
		}
	}
	sort.Slice(fs, func(i, j int) bool {
		a, b := FuncName(fs[i]), FuncName(fs[j])
		if a != b {
			return a < b
		}
		return fs[i].Pos() < fs[j].Pos()
	})
	p.Funcs = fs
	for _, fn := range fs {
		n := FuncName(fn)
		if _, dup := p.byName[n]; !dup {
			p.byName[n] = fn
		}
	}
	return p, nil
}

func isGenericNamed(t types.Type) bool {
	if n, ok := t.(*types.Named); ok {
		return n.TypeParams().Len() > 0 && n.TypeArgs().Len() == 0
	}
	return false
}

func inModule(path string) bool {
	return path == modPath || strings.HasPrefix(path, modPath+"/")
}

// FuncPkg returns the types.Package in which fn (or its generic origin / enclosing function) is declared.
func FuncPkg(fn *ssa.Function) *types.Package {
	for fn != nil {
		if fn.Pkg != nil {
			return fn.Pkg.Pkg
		}
		if o := fn.Origin(); o != nil && o != fn {
			fn = o
			continue
		}
		if fn.Parent() != nil {
			fn = fn.Parent()
			continue
		}
		if fn.Object() != nil && fn.Object().Pkg() != nil {
			return fn.Object().Pkg()
		}
		return nil
	}
	return nil
}

// FuncName returns a stable qualified name: pkgpath.(Recv).Name or pkgpath.Name ; anonymous functions get parent$N.
func FuncName(fn *ssa.Function) string {
	if fn == nil {
		return "<nil>"
	}
	if fn.Parent() != nil {
		idx := 0
		for i, a := range fn.Parent().AnonFuncs {
			if a == fn {
				idx = i + 1
			}
		}
		return fmt.Sprintf("%s$%d", FuncName(fn.Parent()), idx)
	}
	if o := fn.Origin(); o != nil && o != fn {
		fn = o
	}
	pk := FuncPkg(fn)
	pp := ""
	if pk != nil {
		pp = pk.Path()
	}
	if fn.Signature != nil && fn.Signature.Recv() != nil {
		rt := fn.Signature.Recv().Type()
		ptr := ""
		if p, ok := rt.(*types.Pointer); ok {
			rt = p.Elem()
			ptr = "*"
		}
		name := "?"
		if n, ok := rt.(*types.Named); ok {
			name = n.Obj().Name()
		}
		return fmt.Sprintf("%s.(%s%s).%s", pp, ptr, name, fn.Name())
	}
	return pp + "." + fn.Name()
}

// Func looks a function up by its FuncName.
func (p *Prog) Func(name string) *ssa.Function { return p.byName[name] }

// FuncsMatching returns functions whose abstracted name (curve segments replaced) equals pattern.
func (p *Prog) FuncsMatching(pattern string) []*ssa.Function {
	var out []*ssa.Function
	for _, fn := range p.Funcs {
		if Abstract(FuncName(fn)) == pattern {
			out = append(out, fn)
		}
	}
	return out
}

var curveRe = regexp.MustCompile(`\b(bn254|bls12-377|bls12-381|bls24-315|bls24-317|bw6-633|bw6-761|bls12377|bls12381|bls24315|bls24317|bw6633|bw6761)\b`)
var gtRe = regexp.MustCompile(`fptower\.\(\*E(6|12|24)\)`)
var fieldRe = regexp.MustCompile(`\b(tinyfield|babybear|koalabear|goldilocks)\b`)

// Abstract replaces curve / small-field path segments by placeholders.
func Abstract(s string) string {
	s = curveRe.ReplaceAllString(s, "<curve>")
	s = gtRe.ReplaceAllString(s, "fptower.(*GT)")
	s = fieldRe.ReplaceAllString(s, "<field>")
	return s
}

// CurveOf extracts the curve/field segment of a path ("" if none).
func CurveOf(s string) string {
	if m := curveRe.FindString(s); m != "" {
		return m
	}
	return fieldRe.FindString(s)
}

func (p *Prog) Pos(pos token.Pos) string {
	if !pos.IsValid() {
		return "-"
	}
	ps := p.Fset.Position(pos)
	f := strings.TrimPrefix(ps.Filename, repoDir+"/")
	return fmt.Sprintf("%s:%d", f, ps.Line)
}

// RelFile returns repo-relative file name for a pos.
func (p *Prog) RelFile(pos token.Pos) string {
	if !pos.IsValid() {
		return ""
	}
	return strings.TrimPrefix(p.Fset.Position(pos).Filename, repoDir+"/")
}

// FuncPos returns a valid position for the function (falls back to parent).
func FuncPos(fn *ssa.Function) token.Pos {
	for fn != nil {
		if fn.Pos().IsValid() {
			return fn.Pos()
		}
		if fn.Syntax() != nil {
			return fn.Syntax().Pos()
		}
		fn = fn.Parent()
	}
	return token.NoPos
}

// SyntaxFiles returns the AST files of a package path.
func (p *Prog) SyntaxFiles(path string) []*ast.File {
	if pk := p.ByPth[path]; pk != nil {
		return pk.Syntax
	}
	return nil
}

func deref(t types.Type) types.Type {
	if t == nil {
		return nil
	}
	if p, ok := t.Underlying().(*types.Pointer); ok {
		return p.Elem()
	}
	return t
}

func namedName(t types.Type) string {
	t = deref(t)
	switch n := t.(type) {
	case *types.Named:
		return n.Obj().Name()
	case *types.Alias:
		return n.Obj().Name()
	}
	return t.String()
}

func namedQual(t types.Type) string {
	t = deref(t)
	if n, ok := t.(*types.Named); ok {
		if n.Obj().Pkg() != nil {
			return n.Obj().Pkg().Path() + "." + n.Obj().Name()
		}
		return n.Obj().Name()
	}
	return t.String()
}
