package main

import (
	"encoding/json"
	"flag"
	"fmt"
	"os"
	"runtime/debug"
	"sort"
	"strconv"
	"strings"
)

type propertyRunner struct {
	id       string
	patterns []string
	run      func(p *Prog, r *Report)
}

var registry = map[string]*propertyRunner{}

func register(id string, patterns []string, run func(p *Prog, r *Report)) {
	registry[id] = &propertyRunner{id: id, patterns: patterns, run: run}
}

func main() {
	prop := flag.String("property", "", "property id (C01..C20)")
	tier := flag.String("tier", "", "quick|thorough")
	dev := flag.String("dev", "", "developer mode: vpass|...")
	fnPat := flag.String("func", "", "dev: abstract function name")
	untr := flag.String("untrusted", "", "dev: comma separated untrusted param indices")
	pats := flag.String("pkgs", "./...", "dev: package patterns (comma separated)")
	repo := flag.String("repo", "", "repository root (default /repo)")
	replay := flag.String("replay", "", "re-evaluate the obligation recorded in a replay file on the current tree")
	flag.Parse()
	if *repo != "" {
		repoDir = *repo
	}
	if v := os.Getenv("GNARKLINT_REPO"); v != "" && *repo == "" {
		repoDir = v
	}
	if v := os.Getenv("GNARKLINT_VERIF"); v != "" {
		verifDir = v
	}
	if *tier == "" {
		*tier = os.Getenv("VERIF_TIER")
		if *tier == "" {
			*tier = "quick"
		}
	}
	seed := 0
	if s := os.Getenv("VERIF_SEED"); s != "" {
		seed, _ = strconv.Atoi(s)
	}
	if *dev != "" {
		os.Exit(devMain(*dev, *fnPat, *untr, strings.Split(*pats, ",")))
	}
	if *replay != "" {
		os.Exit(replayMain(*replay))
	}
	pr := registry[*prop]
	if pr == nil {
		var ids []string
		for k := range registry {
			ids = append(ids, k)
		}
		sort.Strings(ids)
		fmt.Printf("unknown property %q; registered: %v\n", *prop, ids)
		os.Exit(2)
	}
	os.Exit(runProperty(pr, *tier, seed))
}

func runProperty(pr *propertyRunner, tier string, seed int) (code int) {
	r := NewReport(pr.id, tier, seed)
	defer func() {
		if e := recover(); e != nil {
			fmt.Printf("analysis panic: %v\n%s\n", e, debug.Stack())
			r.Fail("UNRESOLVED", "-", "-", "panic", "-", fmt.Sprintf("analysis panicked: %v", e))
			code = r.Finish()
			if code == 0 {
				code = 1
			}
		}
	}()
	p, err := LoadProg(pr.patterns, "", nil)
	if err != nil {
		r.Fail("UNRESOLVED", "-", "-", "load", "-", "cannot load/type-check the repository: "+err.Error())
		return r.Finish()
	}
	r.Extra["packages_loaded"] = len(p.ByPth)
	r.Extra["module_functions"] = len(p.Funcs)
	pr.run(p, r)
	if tier == "thorough" {
		runThorough(pr, p, r)
	}
	return r.Finish()
}

func parseIdx(s string) map[int]bool {
	m := map[int]bool{}
	for _, t := range strings.Split(s, ",") {
		if t == "" {
			continue
		}
		i, _ := strconv.Atoi(t)
		m[i] = true
	}
	return m
}

func devMain(mode, fnPat, untr string, pats []string) int {
	p, err := LoadProg(pats, "", nil)
	if err != nil {
		fmt.Println(err)
		return 2
	}
	fmt.Printf("loaded %d packages, %d module functions\n", len(p.ByPth), len(p.Funcs))
	switch mode {
	case "vpass":
		eng := newVpassEngine(p)
		for _, fn := range p.FuncsMatching(fnPat) {
			fmt.Printf("== %s (%s)\n", FuncName(fn), p.Pos(FuncPos(fn)))
			res := eng.Analyze(fn, vpassCfg{untrusted: parseIdx(untr)}, 0)
			for _, ev := range res.events {
				fmt.Printf("  %-8s %-9s %s  @%s", ev.Status, ev.Kind, ev.Key, p.Pos(ev.Pos))
				if ev.Lifted != "" {
					fmt.Printf("  [via %s]", ev.Lifted)
				}
				if len(ev.Conds) > 0 {
					fmt.Printf("  if %v", ev.Conds)
				}
				fmt.Printf("\n      callee=%s direct=%v", ev.Callee, ev.Direct)
				if ev.Why != "" {
					fmt.Printf("  (%s)", ev.Why)
				}
				fmt.Println()
			}
		}
	case "funcs":
		for _, fn := range p.Funcs {
			if strings.Contains(FuncName(fn), fnPat) {
				fmt.Println(FuncName(fn), p.Pos(FuncPos(fn)))
			}
		}
	default:
		return devMore(p, mode, fnPat, untr)
	}
	return 0
}

// replayMain re-runs the property of a replay file and reports whether the recorded obligation is still violated.
func replayMain(path string) int {
	b, err := os.ReadFile(path)
	if err != nil {
		fmt.Println(err)
		return 2
	}
	var rf struct {
		Property   string     `json:"property"`
		Obligation Obligation `json:"obligation"`
		FindingKey string     `json:"finding_key"`
	}
	if err := json.Unmarshal(b, &rf); err != nil {
		fmt.Println(err)
		return 2
	}
	pr := registry[rf.Property]
	if pr == nil {
		fmt.Println("unknown property in replay file:", rf.Property)
		return 2
	}
	r := NewReport(pr.id, "quick", 0)
	p, err := LoadProg(pr.patterns, "", nil)
	if err != nil {
		fmt.Println("cannot load the repository:", err)
		return 2
	}
	pr.run(p, r)
	for _, o := range r.Obls {
		if !o.OK && !o.Info && o.FindingKey() == rf.FindingKey {
			fmt.Printf("still violated: rule=%s at %s func=%s key=%s :: %s\n", o.Rule, o.Pos, o.Func, o.Key, o.Detail)
			fmt.Printf("VIOLATION property=%s replay=%s\n", rf.Property, path)
			return 1
		}
	}
	fmt.Printf("obligation %s no longer violated on the current tree\n", rf.FindingKey)
	return 0
}
