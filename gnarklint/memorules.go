package main

// Memo tables of the builders. The builders skip emitting a constraint when a table says an equivalent one
// exists. Two structural necessary conditions:
//
// MEMO-EMIT (C04): a function that *reserves* a table entry pointing at the next instruction
// (`table[h] = cs.GetNbInstructions()` on its not-found path) obliges its caller to emit an instruction before it
// returns: on the not-found edge of every call site, every path to a return passes a call that adds an
// instruction. Otherwise the entry later resolves to an unrelated instruction, which is decoded as the gate.
//
// MEMO-KEY (C05): where the operand of IsBoolean / MarkBoolean is a struct (the sparse builder's term: wire and
// coefficient), the table key and the tests deciding the answer cover every field of it: "c·w is boolean" says
// nothing about c'·w.

import (
	"fmt"
	"go/token"
	"go/types"
	"sort"
	"strings"

	"golang.org/x/tools/go/ssa"
)

func isBuilderPkg(pk *types.Package) bool {
	if pk == nil {
		return false
	}
	rel := strings.TrimPrefix(pk.Path(), modPath+"/")
	return rel == "frontend/cs/scs" || rel == "frontend/cs/r1cs"
}

// addsInstruction: on every path to a return, fn calls a method that appends to the constraint system (directly,
// or through a same-package static callee with the same property). A function being analysed (recursion) counts
// as not adding.
func addsInstruction(fn *ssa.Function, depth int, seen map[*ssa.Function]bool) bool {
	if fn == nil || depth > 4 || seen[fn] || len(fn.Blocks) == 0 {
		return false
	}
	seen[fn] = true
	defer delete(seen, fn)
	hit := map[*ssa.BasicBlock]bool{}
	for _, b := range fn.Blocks {
		for _, ins := range b.Instrs {
			c, ok := ins.(ssa.CallInstruction)
			if !ok {
				continue
			}
			cc := c.Common()
			if cc.IsInvoke() {
				switch cc.Method.Name() {
				case "AddSparseR1C", "AddR1C", "AddInstruction":
					hit[b] = true
				}
			} else if cal := cc.StaticCallee(); cal != nil && FuncPkg(cal) == FuncPkg(fn) && addsInstruction(cal, depth+1, seen) {
				hit[b] = true
			}
		}
	}
	if len(hit) == 0 {
		return false
	}
	stack := []*ssa.BasicBlock{fn.Blocks[0]}
	vis := map[*ssa.BasicBlock]bool{}
	for len(stack) > 0 {
		b := stack[len(stack)-1]
		stack = stack[:len(stack)-1]
		if vis[b] || hit[b] {
			continue
		}
		vis[b] = true
		if _, isRet := lastInstr(b).(*ssa.Return); isRet {
			return false
		}
		stack = append(stack, b.Succs...)
	}
	return true
}

// reservesNext: fn stores a value derived from GetNbInstructions() into a map held by its receiver.
func reservesNext(fn *ssa.Function) (token.Pos, bool) {
	for _, b := range fn.Blocks {
		for _, ins := range b.Instrs {
			mu, ok := ins.(*ssa.MapUpdate)
			if !ok {
				continue
			}
			v := mu.Value
			for d := 0; d < 4; d++ {
				if cv, ok := v.(*ssa.Convert); ok {
					v = cv.X
					continue
				}
				break
			}
			if c, ok := v.(*ssa.Call); ok && c.Call.IsInvoke() && c.Call.Method.Name() == "GetNbInstructions" {
				return mu.Pos(), true
			}
		}
	}
	return token.NoPos, false
}

func RunMemoEmit(p *Prog, r *Report) {
	const rule = "MEMO-EMIT"
	reservers := map[*ssa.Function]bool{}
	for _, fn := range p.Funcs {
		if !isBuilderPkg(FuncPkg(fn)) || len(fn.Blocks) == 0 {
			continue
		}
		if _, ok := reservesNext(fn); ok {
			reservers[fn] = true
		}
	}
	// generic origins and their instantiations both appear; key by name
	names := map[string]bool{}
	for fn := range reservers {
		names[FuncName(fn)] = true
	}
	if len(names) < 2 {
		r.Fail("UNRESOLVED", "-", "-", "memo reservers", "-", fmt.Sprintf("%d functions reserve a memo entry for the next instruction, confirmed 2 (mulConstraintExist, addConstraintExist)", len(names)))
		return
	}
	sites := 0
	done := map[string]bool{}
	for _, fn := range p.Funcs {
		if !isBuilderPkg(FuncPkg(fn)) || len(fn.Blocks) == 0 {
			continue
		}
		ord := map[string]int{}
		for _, b := range fn.Blocks {
			for _, ins := range b.Instrs {
				c, ok := ins.(*ssa.Call)
				if !ok {
					continue
				}
				cal := c.Call.StaticCallee()
				if cal == nil || !names[FuncName(cal)] {
					continue
				}
				ord[FuncName(cal)]++
				key := fmt.Sprintf("reserve:%s#%d", cal.Name(), ord[FuncName(cal)])
				dk := FuncName(fn) + "|" + key
				if done[dk] {
					continue // other instantiation of the same generic function
				}
				done[dk] = true
				// the found flag: a bool extracted from the call
				var found ssa.Value
				if refs := c.Referrers(); refs != nil {
					for _, rf := range *refs {
						if ex, ok := rf.(*ssa.Extract); ok && isBoolType(ex.Type()) {
							found = ex
						}
					}
				}
				if found == nil {
					continue
				}
				// branch blocks on the flag
				var starts []*ssa.BasicBlock
				for _, bb := range fn.Blocks {
					ifi, ok := lastInstr(bb).(*ssa.If)
					if !ok {
						continue
					}
					cond := ifi.Cond
					neg := false
					for {
						if u, ok := cond.(*ssa.UnOp); ok && u.Op == token.NOT {
							cond = u.X
							neg = !neg
							continue
						}
						break
					}
					if cond != found {
						continue
					}
					if neg {
						starts = append(starts, bb.Succs[0])
					} else {
						starts = append(starts, bb.Succs[1])
					}
				}
				if len(starts) == 0 {
					continue
				}
				sites++
				hit := func(bb *ssa.BasicBlock) bool {
					for _, in := range bb.Instrs {
						ci, ok := in.(ssa.CallInstruction)
						if !ok {
							continue
						}
						if cc := ci.Common(); cc.IsInvoke() {
							switch cc.Method.Name() {
							case "AddSparseR1C", "AddR1C", "AddInstruction":
								return true
							}
						} else if cl := cc.StaticCallee(); cl != nil && FuncPkg(cl) == FuncPkg(fn) && addsInstruction(cl, 0, map[*ssa.Function]bool{}) {
							return true
						}
					}
					return false
				}
				var bypass *ssa.BasicBlock
				for _, s := range starts {
					seen := map[*ssa.BasicBlock]bool{}
					stack := []*ssa.BasicBlock{s}
					for len(stack) > 0 && bypass == nil {
						x := stack[len(stack)-1]
						stack = stack[:len(stack)-1]
						if seen[x] {
							continue
						}
						seen[x] = true
						if hit(x) {
							continue
						}
						if _, isRet := lastInstr(x).(*ssa.Return); isRet {
							bypass = x
							break
						}
						stack = append(stack, x.Succs...)
					}
				}
				pkg := FuncPkg(fn).Path()
				if bypass != nil {
					pos := p.Pos(c.Pos())
					r.Fail(rule, pkg, FuncName(fn), key, pos, fmt.Sprintf("%s records the next instruction index as the gate of this operation when it finds none, but a path from the not-found branch returns (%s) without adding an instruction: the entry will resolve to whatever instruction comes next", cal.Name(), p.Pos(lastInstr(bypass).Pos())))
				} else {
					r.Pass(rule, pkg, FuncName(fn), key, p.Pos(c.Pos()), "every path from the not-found branch adds an instruction before returning", true)
				}
			}
		}
	}
	if sites < 3 {
		r.Fail("UNRESOLVED", "-", "-", "memo reserve sites", "-", fmt.Sprintf("%d call sites with a found-flag branch, confirmed 3", sites))
	}
}

// fieldsRead: which fields of the struct value v (or of the struct its receiver points to) influence the values
// in roots; "*" = the whole value is used (as a map key, passed on, compared).
func structCoverage(root ssa.Value, operand ssa.Value, st *types.Struct, cov map[string]bool, depth int, seen map[ssa.Value]bool) {
	if root == nil || depth > 14 || seen[root] {
		return
	}
	seen[root] = true
	if root == operand {
		cov["*"] = true
		return
	}
	switch x := root.(type) {
	case *ssa.Field:
		if x.X == operand {
			cov[st.Field(x.Field).Name()] = true
			return
		}
		structCoverage(x.X, operand, st, cov, depth+1, seen)
	case *ssa.ChangeType:
		structCoverage(x.X, operand, st, cov, depth+1, seen)
	case *ssa.Convert:
		structCoverage(x.X, operand, st, cov, depth+1, seen)
	case *ssa.MakeInterface:
		structCoverage(x.X, operand, st, cov, depth+1, seen)
	case *ssa.BinOp:
		structCoverage(x.X, operand, st, cov, depth+1, seen)
		structCoverage(x.Y, operand, st, cov, depth+1, seen)
	case *ssa.UnOp:
		if x.Op == token.MUL {
			// load from a local cell holding the operand (value receivers are spilled)
			if a, ok := x.X.(*ssa.Alloc); ok {
				if sv := singleStore(a); sv != nil {
					structCoverage(sv, operand, st, cov, depth+1, seen)
					return
				}
			}
			if fa, ok := x.X.(*ssa.FieldAddr); ok {
				if a, ok := fa.X.(*ssa.Alloc); ok {
					if sv := singleStore(a); sv == operand {
						cov[st.Field(fa.Field).Name()] = true
						return
					}
				}
			}
		}
		structCoverage(x.X, operand, st, cov, depth+1, seen)
	case *ssa.Phi:
		for _, e := range x.Edges {
			structCoverage(e, operand, st, cov, depth+1, seen)
		}
	case *ssa.Extract:
		structCoverage(x.Tuple, operand, st, cov, depth+1, seen)
	case *ssa.Lookup:
		structCoverage(x.Index, operand, st, cov, depth+1, seen)
	case *ssa.Call:
		// method on the operand (by value): the fields the callee reads from its receiver
		if cal := x.Call.StaticCallee(); cal != nil && len(x.Call.Args) > 0 && len(cal.Params) > 0 {
			for i, a := range x.Call.Args {
				if a == operand && i < len(cal.Params) {
					for f := range paramFieldsRead(cal.Params[i], st) {
						cov[f] = true
					}
				} else {
					structCoverage(a, operand, st, cov, depth+1, seen)
				}
			}
			return
		}
		for _, a := range x.Call.Args {
			structCoverage(a, operand, st, cov, depth+1, seen)
		}
	}
}

// paramFieldsRead: fields of struct-typed parameter pm read in its function ("*" if it is used whole).
func paramFieldsRead(pm *ssa.Parameter, st *types.Struct) map[string]bool {
	out := map[string]bool{}
	var visit func(v ssa.Value, d int)
	visit = func(v ssa.Value, d int) {
		refs := v.Referrers()
		if refs == nil || d > 4 {
			return
		}
		for _, rf := range *refs {
			switch x := rf.(type) {
			case *ssa.Field:
				if x.X == v {
					out[st.Field(x.Field).Name()] = true
				}
			case *ssa.Store:
				// spill of the parameter into a local cell
				if x.Val == v {
					if a, ok := x.Addr.(*ssa.Alloc); ok {
						if ar := a.Referrers(); ar != nil {
							for _, af := range *ar {
								switch y := af.(type) {
								case *ssa.FieldAddr:
									out[st.Field(y.Field).Name()] = true
								case *ssa.UnOp:
									visit(y, d+1)
									if y.Referrers() != nil && len(*y.Referrers()) > 0 {
										// whole-value load used otherwise
										for _, yr := range *y.Referrers() {
											if _, isF := yr.(*ssa.Field); !isF {
												out["*"] = true
											}
										}
									}
								case *ssa.Store:
								default:
									out["*"] = true
								}
							}
						}
					}
				}
			case *ssa.DebugRef:
			case *ssa.ChangeType:
				visit(x, d+1)
			case *ssa.Call:
				// handed on by value to a static callee (instantiation wrappers): what the callee reads
				cal := x.Call.StaticCallee()
				handled := false
				if cal != nil && len(cal.Blocks) > 0 && d < 4 {
					for i, a := range x.Call.Args {
						if a == v && i < len(cal.Params) {
							for f := range paramFieldsRead(cal.Params[i], st) {
								out[f] = true
							}
							handled = true
						}
					}
				}
				if !handled {
					out["*"] = true
				}
			default:
				out["*"] = true
			}
		}
	}
	visit(pm, 0)
	return out
}

func RunMemoKey(p *Prog, r *Report) {
	const rule = "MEMO-KEY"
	n := 0
	done := map[string]bool{}
	for _, fn := range p.Funcs {
		if !isBuilderPkg(FuncPkg(fn)) || len(fn.Blocks) == 0 || fn.Signature.Recv() == nil {
			continue
		}
		if fn.Name() != "IsBoolean" && fn.Name() != "MarkBoolean" {
			continue
		}
		if done[FuncName(fn)] {
			continue
		}
		// struct-typed operand: a type assertion of the variable parameter to a struct type
		for _, b := range fn.Blocks {
			for _, ins := range b.Instrs {
				var key ssa.Value
				var pos token.Pos
				switch x := ins.(type) {
				case *ssa.Lookup:
					if _, isMap := x.X.Type().Underlying().(*types.Map); isMap {
						key, pos = x.Index, x.Pos()
					}
				case *ssa.MapUpdate:
					key, pos = x.Key, x.Pos()
				}
				if key == nil {
					continue
				}
				// find the struct operand feeding the key
				var operand ssa.Value
				var st *types.Struct
				seen := map[ssa.Value]bool{}
				var find func(v ssa.Value, d int)
				find = func(v ssa.Value, d int) {
					if v == nil || d > 12 || seen[v] || operand != nil {
						return
					}
					seen[v] = true
					if ta, ok := v.(*ssa.TypeAssert); ok {
						if s, ok := ta.AssertedType.Underlying().(*types.Struct); ok {
							operand, st = ta, s
							return
						}
					}
					if a, ok := v.(*ssa.Alloc); ok {
						if sv := singleStore(a); sv != nil {
							find(sv, d+1)
						}
						return
					}
					var ops []*ssa.Value
					if in, ok := v.(ssa.Instruction); ok {
						for _, o := range in.Operands(ops) {
							if *o != nil {
								find(*o, d+1)
							}
						}
					}
				}
				find(key, 0)
				if operand == nil {
					continue
				}
				done[FuncName(fn)] = true
				cov := map[string]bool{}
				structCoverage(key, operand, st, cov, 0, map[ssa.Value]bool{})
				// tests on the operand that decide the outcome: every field compared in a branch condition
				for _, bb := range fn.Blocks {
					if ifi, ok := lastInstr(bb).(*ssa.If); ok {
						structCoverage(ifi.Cond, operand, st, cov, 0, map[ssa.Value]bool{})
					}
				}
				var missing []string
				for i := 0; i < st.NumFields(); i++ {
					if !cov["*"] && !cov[st.Field(i).Name()] {
						missing = append(missing, st.Field(i).Name())
					}
				}
				sort.Strings(missing)
				n++
				pkg := FuncPkg(fn).Path()
				k := "memo-key"
				if len(missing) > 0 {
					r.Fail(rule, pkg, FuncName(fn), k, p.Pos(pos), fmt.Sprintf("the table of boolean-constrained variables is keyed without field(s) %v of the operand (%s): a different variable that shares the remaining fields (another multiple of the same wire) is reported boolean and its constraint is skipped", missing, types.TypeString(operand.Type(), nil)))
				} else {
					r.Pass(rule, pkg, FuncName(fn), k, p.Pos(pos), fmt.Sprintf("key / deciding tests cover every field of the operand %s", types.TypeString(operand.Type(), nil)), true)
				}
			}
		}
	}
	if n < 1 {
		r.Fail("UNRESOLVED", "-", "-", "memo-key sites", "-", fmt.Sprintf("%d keyed accesses with a struct operand in IsBoolean / MarkBoolean, confirmed 2 (sparse builder)", n))
	}
}

// MEMO-ARGS (flow areas): a function that memoises a value it computes — `if v, ok := table[k]; ok { return v };
// v = g(...); table[k] = v` — must key the table by everything the computation takes from the function's own
// scalar parameters: a number that shapes the value but is not part of the key makes a later call with another
// number receive the first call's value.
func RunMemoArgs(p *Prog, r *Report, scope func(string) bool) {
	const rule = "MEMO-ARGS"
	basic := func(t types.Type) bool {
		b, ok := t.Underlying().(*types.Basic)
		return ok && b.Info()&(types.IsInteger|types.IsString|types.IsBoolean) != 0
	}
	n := 0
	for _, fn := range p.Funcs {
		pk := FuncPkg(fn)
		if pk == nil || !scope(pk.Path()) || len(fn.Blocks) == 0 || fn.Parent() != nil {
			continue
		}
		if o := fn.Origin(); o != nil && o != fn {
			continue
		}
		// maps both looked up and updated in this function
		looked := map[string]bool{}
		for _, b := range fn.Blocks {
			for _, ins := range b.Instrs {
				if lk, ok := ins.(*ssa.Lookup); ok {
					if _, isMap := lk.X.Type().Underlying().(*types.Map); isMap {
						looked[Desc(lk.X)] = true
					}
				}
			}
		}
		if len(looked) == 0 {
			continue
		}
		ord := 0
		for _, b := range fn.Blocks {
			for _, ins := range b.Instrs {
				mu, ok := ins.(*ssa.MapUpdate)
				if !ok || !looked[Desc(mu.Map)] {
					continue
				}
				// the memoised value is computed here: a call result (not a parameter handed through)
				v := mu.Value
				if mi, ok := v.(*ssa.MakeInterface); ok {
					v = mi.X
				}
				if _, isCall := v.(*ssa.Call); !isCall {
					if ex, ok := v.(*ssa.Extract); !ok {
						continue
					} else if _, isCall := ex.Tuple.(*ssa.Call); !isCall {
						continue
					}
				}
				sv := newSlicer()
				sv.visit(v)
				sk := newSlicer()
				sk.visit(mu.Key)
				var missing []string
				for pm := range sv.params {
					if pm.Parent() != fn || !basic(pm.Type()) {
						continue
					}
					if !sk.params[pm] {
						missing = append(missing, pm.Name())
					}
				}
				sort.Strings(missing)
				ord++
				n++
				key := fmt.Sprintf("memo#%d:%s", ord, Desc(mu.Map))
				if len(missing) > 0 {
					r.Fail(rule, pk.Path(), FuncName(fn), key, p.Pos(mu.Pos()), fmt.Sprintf("the memoised value depends on parameter(s) %v that are not part of the table key: a later call with a different value receives the entry computed for the first", missing))
				} else {
					r.Pass(rule, pk.Path(), FuncName(fn), key, p.Pos(mu.Pos()), "every scalar parameter the memoised value depends on is part of the key", true)
				}
			}
		}
	}
	_ = n
}
