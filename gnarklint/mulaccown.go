package main

// MULACC-OWN (C14, C04): frontend.API.MulAcc(a, b, c) may accumulate into a's backing array in place (the R1CS
// builder does whenever the result fits the capacity; the interface documents it). A gadget may therefore hand
// MulAcc only an accumulator it owns — a value it computed itself. Passing an operand received from the caller (a
// parameter, an element of a slice parameter, a field of a struct parameter, or the result of a module function
// that may return such a value unchanged) lets a later operation on that same variable rewrite the gadget's result.

import (
	"fmt"
	"go/token"
	"strings"

	"golang.org/x/tools/go/ssa"
)

type mulAccOwn struct {
	p    *Prog
	memo map[*ssa.Function]int // 0 unknown, 1 no, 2 yes, 3 in progress
}

// callerOwned: v is (or may be, through phis) an operand received from the caller.
func (m *mulAccOwn) callerOwned(v ssa.Value, depth int, seen map[ssa.Value]bool) bool {
	if v == nil || depth > 10 || seen[v] {
		return false
	}
	seen[v] = true
	switch x := v.(type) {
	case *ssa.Parameter:
		return true
	case *ssa.Phi:
		for _, e := range x.Edges {
			if m.callerOwned(e, depth+1, seen) {
				return true
			}
		}
	case *ssa.UnOp:
		if x.Op == token.MUL {
			switch a := x.X.(type) {
			case *ssa.IndexAddr:
				return m.paramRooted(a.X, depth+1)
			case *ssa.FieldAddr:
				return m.paramRooted(a.X, depth+1)
			case *ssa.Alloc:
				if sv := singleStore(a); sv != nil {
					return m.callerOwned(sv, depth+1, seen)
				}
			}
		}
	case *ssa.Field:
		return m.paramRooted(x.X, depth+1)
	case *ssa.ChangeInterface:
		return m.callerOwned(x.X, depth+1, seen)
	case *ssa.MakeInterface:
		return false
	case *ssa.Call:
		cal := x.Call.StaticCallee()
		if cal == nil || FuncPkg(cal) == nil || !inModule(FuncPkg(cal).Path()) {
			return false
		}
		if !m.returnsOperand(cal) {
			return false
		}
		for _, a := range x.Call.Args {
			if m.callerOwned(a, depth+1, seen) || m.paramRooted(a, depth+1) {
				return true
			}
		}
	}
	return false
}

// paramRooted: the container (slice, struct, pointer) is a parameter or a sub-slice / field of one.
func (m *mulAccOwn) paramRooted(v ssa.Value, depth int) bool {
	for d := depth; d < 12 && v != nil; d++ {
		switch x := v.(type) {
		case *ssa.Parameter:
			return true
		case *ssa.Slice:
			v = x.X
		case *ssa.FieldAddr:
			v = x.X
		case *ssa.IndexAddr:
			v = x.X
		case *ssa.Field:
			v = x.X
		case *ssa.UnOp:
			if x.Op != token.MUL {
				return false
			}
			if a, ok := x.X.(*ssa.Alloc); ok {
				sv := singleStore(a)
				if sv == nil {
					return false
				}
				v = sv
				continue
			}
			v = x.X
		default:
			return false
		}
	}
	return false
}

// returnsOperand: some return value of fn may be an operand it received (unchanged).
func (m *mulAccOwn) returnsOperand(fn *ssa.Function) bool {
	switch m.memo[fn] {
	case 1, 3:
		return false
	case 2:
		return true
	}
	m.memo[fn] = 3
	res := false
	for _, b := range fn.Blocks {
		ret, ok := lastInstr(b).(*ssa.Return)
		if !ok {
			continue
		}
		for _, rv := range ret.Results {
			if !isVariableType(rv.Type()) {
				continue
			}
			if m.callerOwned(rv, 0, map[ssa.Value]bool{}) {
				res = true
			}
		}
	}
	if res {
		m.memo[fn] = 2
	} else {
		m.memo[fn] = 1
	}
	return res
}

func isVariableType(t interface{ String() string }) bool {
	return strings.HasSuffix(t.String(), "frontend.Variable")
}

func RunMulAccOwn(p *Prog, r *Report, scope func(string) bool) {
	const rule = "MULACC-OWN"
	m := &mulAccOwn{p: p, memo: map[*ssa.Function]int{}}
	n := 0
	for _, fn := range p.Funcs {
		pk := FuncPkg(fn)
		if pk == nil || !scope(pk.Path()) || len(fn.Blocks) == 0 {
			continue
		}
		if o := fn.Origin(); o != nil && o != fn {
			continue
		}
		ord := 0
		for _, b := range fn.Blocks {
			for _, ins := range b.Instrs {
				c, ok := ins.(*ssa.Call)
				if !ok || !c.Call.IsInvoke() || c.Call.Method.Name() != "MulAcc" || len(c.Call.Args) != 3 {
					continue
				}
				if !(frontendIface(c.Call.Value.Type()) || isAnonIface(c.Call.Value.Type())) {
					continue
				}
				ord++
				n++
				key := fmt.Sprintf("mulacc#%d", ord)
				if m.callerOwned(c.Call.Args[0], 0, map[ssa.Value]bool{}) {
					r.Fail(rule, pk.Path(), FuncName(fn), key, p.Pos(c.Pos()), "the accumulator handed to MulAcc is an operand received from the caller ("+Desc(c.Call.Args[0])+"): MulAcc may write the sum into that variable's own backing array, so the result aliases the caller's variable and a later operation on it rewrites this result")
				} else {
					r.Pass(rule, pk.Path(), FuncName(fn), key, p.Pos(c.Pos()), "accumulator "+Desc(c.Call.Args[0])+" is not an operand of the caller", true)
				}
			}
		}
	}
	_ = n
}
