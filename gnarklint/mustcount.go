package main

import (
	"fmt"
	"sort"
	"strings"

	"golang.org/x/tools/go/ssa"
)

// FLOW-MUST (flow areas, Tier II): the value-flow rules are path-insensitive — an assertion that still exists but has
// been moved under a condition (into the else-branch of an input test, behind an early return) reaches the same
// sinks. This rule counts, per function, the constraint sites that are executed on EVERY path from the entry to a
// successful return: a direct sink call (AssertIsEqual, AssertIsBoolean, Check, ... on a frontend interface) in a
// block that dominates every successful return counts 1; a call in such a block to a module function (or a directly
// called closure) counts as many as that callee has (compositional, so extracting or inlining a helper, or wrapping
// a function, leaves the count unchanged). The count per kind must not fall below the reviewed one
// (rules/flow.json: fnmust). Sites inside loops or branches are not counted at all, so restructuring conditional
// code does not alarm; only making an unconditional constraint conditional (or dropping it) does.

type mustEngine struct {
	p      *Prog
	memo   map[*ssa.Function]map[string]int
	inprog map[*ssa.Function]bool
}

func newMustEngine(p *Prog) *mustEngine {
	return &mustEngine{p: p, memo: map[*ssa.Function]map[string]int{}, inprog: map[*ssa.Function]bool{}}
}

const mustCap = 1 << 30

func successReturnBlocks(p *Prog, fn *ssa.Function) []*ssa.BasicBlock {
	res := fn.Signature.Results()
	if res.Len() > 0 && isErrorType(res.At(res.Len()-1).Type()) {
		g := buildAccGraph(p, fn, "error")
		seen := map[*ssa.BasicBlock]bool{}
		var out []*ssa.BasicBlock
		for _, a := range g.acceptingEnds() {
			b := g.nodes[a].blk
			if !seen[b] {
				seen[b] = true
				out = append(out, b)
			}
		}
		return out
	}
	var out []*ssa.BasicBlock
	for _, b := range fn.Blocks {
		if _, ok := lastInstr(b).(*ssa.Return); ok {
			out = append(out, b)
		}
	}
	return out
}

func (m *mustEngine) counts(fn *ssa.Function) map[string]int {
	if c, ok := m.memo[fn]; ok {
		return c
	}
	if m.inprog[fn] || fn.Blocks == nil {
		return nil
	}
	m.inprog[fn] = true
	defer delete(m.inprog, fn)
	out := map[string]int{}
	rets := successReturnBlocks(m.p, fn)
	if len(rets) > 0 {
		for _, b := range fn.Blocks {
			must := true
			for _, r := range rets {
				if b != r && !b.Dominates(r) {
					must = false
					break
				}
			}
			if !must {
				continue
			}
			for _, ins := range b.Instrs {
				c, ok := ins.(*ssa.Call)
				if !ok {
					continue
				}
				cc := &c.Call
				if cc.IsInvoke() {
					if (frontendIface(cc.Value.Type()) || isAnonIface(cc.Value.Type())) && sinkMethods[cc.Method.Name()] {
						out[cc.Method.Name()]++
					}
					continue
				}
				cal := calleeOf(c)
				if cal == nil || FuncPkg(cal) == nil || !strings.HasPrefix(FuncPkg(cal).Path(), modPath+"/") {
					continue
				}
				for k, n := range m.counts(cal) {
					out[k] += n
					if out[k] > mustCap {
						out[k] = mustCap
					}
				}
			}
		}
	}
	m.memo[fn] = out
	return out
}

// fnMust: per top-level function of the scope with at least one unconditional constraint site, the counts per kind
// (minimum over generic instances / siblings sharing the abstract name).
func fnMust(p *Prog, scope func(string) bool) (map[string]map[string]int, map[string]*ssa.Function) {
	m := newMustEngine(p)
	out := map[string]map[string]int{}
	rep := map[string]*ssa.Function{}
	for _, fn := range p.Funcs {
		pk := FuncPkg(fn)
		if pk == nil || fn.Parent() != nil || fn.Synthetic != "" || fn.Blocks == nil || !scope(pk.Path()) {
			continue
		}
		if fn.TypeParams().Len() > 0 && len(fn.TypeArgs()) == 0 {
			continue
		}
		c := m.counts(fn)
		if len(c) == 0 {
			continue
		}
		k := Abstract(FuncName(fn)) + " | must-sites"
		if old, ok := out[k]; ok {
			for kind, n := range old {
				if c[kind] < n {
					old[kind] = c[kind]
				}
			}
			for kind := range old {
				if old[kind] == 0 {
					delete(old, kind)
				}
			}
		} else {
			cp := map[string]int{}
			for kind, n := range c {
				cp[kind] = n
			}
			out[k] = cp
			rep[k] = fn
		}
	}
	return out, rep
}

func RunFlowMust(p *Prog, r *Report, area string, scope func(string) bool) {
	ref, err := loadFlowRef()
	if err != nil {
		return
	}
	cur, rep := fnMust(p, scope)
	var ks []string
	for k := range ref.FnMust[area] {
		ks = append(ks, k)
	}
	sort.Strings(ks)
	for _, k := range ks {
		req := ref.FnMust[area][k]
		parts := strings.SplitN(k, " | ", 2)
		c, ok := cur[k]
		if !ok {
			// the function may still exist but have no unconditional site left
			exists := false
			for _, fn := range p.Funcs {
				if fn.Parent() == nil && Abstract(FuncName(fn)) == parts[0] {
					exists = true
					rep[k] = fn
					break
				}
			}
			if !exists {
				r.Add(&Obligation{Rule: "FLOW-MUST", Pkg: "-", Func: parts[0], Key: "must-sites", Pos: "-", OK: true, Info: true, Detail: "function no longer exists (renamed / restructured): not evaluated"})
				continue
			}
			c = map[string]int{}
		}
		var miss []string
		for _, q := range req {
			i := strings.Index(q, "#")
			var n int
			fmt.Sscanf(q[i+1:], "%d", &n)
			if c[q[:i]] < n {
				miss = append(miss, fmt.Sprintf("%s (now %d)", q, c[q[:i]]))
			}
		}
		pkg := parts[0]
		if i := strings.LastIndex(pkg, "."); i > 0 {
			pkg = strings.TrimLeft(pkg[:i], "(*")
		}
		pos := "-"
		if fn := rep[k]; fn != nil {
			pos = p.Pos(FuncPos(fn))
		}
		if len(miss) == 0 {
			r.Pass("FLOW-MUST", pkg, parts[0], "must-sites", pos, "constraint sites executed on every successful path: at least "+strings.Join(req, " "), true)
		} else {
			r.Fail("FLOW-MUST", pkg, parts[0], "must-sites", pos, "fewer constraint sites are executed on every successful path than reviewed: "+strings.Join(miss, ", ")+" — an assertion was dropped or made conditional (moved into a branch, behind an early return)")
		}
	}
}

// LOOP-MUST (flow areas, Tier II): FLOW-MUST leaves out everything inside loops. The per-element constraints of a
// gadget (one recomposition equality and one range check per collected variable, one byte check per limb) live in
// loops; a "fast path" that `continue`s around them for some elements keeps every flow fact and every
// unconditional count. Counted per function: the constraint sites in blocks that run in EVERY iteration of their
// loop (every path from the loop header back to it passes the block); a call in such a block to a module function
// counts what that callee executes unconditionally plus its own loop sites; unconditional calls pass the callee's
// loop sites up. So moving a loop or its body into a helper leaves the count unchanged; making a per-iteration
// constraint conditional lowers it. The count per kind must not fall below the reviewed one (rules/flow.json: fnloop).

func (m *mustEngine) loopCounts(fn *ssa.Function, memo map[*ssa.Function]map[string]int, inprog map[*ssa.Function]bool) map[string]int {
	if c, ok := memo[fn]; ok {
		return c
	}
	if inprog[fn] || fn.Blocks == nil {
		return nil
	}
	inprog[fn] = true
	defer delete(inprog, fn)
	out := map[string]int{}
	add := func(src map[string]int) {
		for k, n := range src {
			out[k] += n
			if out[k] > mustCap {
				out[k] = mustCap
			}
		}
	}
	rets := successReturnBlocks(m.p, fn)
	for _, b := range fn.Blocks {
		inLoop, always := mustRunInLoop(b)
		uncond := len(rets) > 0
		for _, r := range rets {
			if b != r && !b.Dominates(r) {
				uncond = false
				break
			}
		}
		perIter := inLoop && always
		if !perIter && !uncond {
			continue
		}
		for _, ins := range b.Instrs {
			c, ok := ins.(*ssa.Call)
			if !ok {
				continue
			}
			cc := &c.Call
			if cc.IsInvoke() {
				if perIter && (frontendIface(cc.Value.Type()) || isAnonIface(cc.Value.Type())) && sinkMethods[cc.Method.Name()] {
					out[cc.Method.Name()]++
				}
				continue
			}
			cal := calleeOf(c)
			if cal == nil || FuncPkg(cal) == nil || !strings.HasPrefix(FuncPkg(cal).Path(), modPath+"/") {
				continue
			}
			if perIter {
				add(m.counts(cal))
			}
			add(m.loopCounts(cal, memo, inprog))
		}
	}
	memo[fn] = out
	return out
}

func fnLoop(p *Prog, scope func(string) bool) (map[string]map[string]int, map[string]*ssa.Function) {
	m := newMustEngine(p)
	memo := map[*ssa.Function]map[string]int{}
	out := map[string]map[string]int{}
	rep := map[string]*ssa.Function{}
	for _, fn := range p.Funcs {
		pk := FuncPkg(fn)
		if pk == nil || fn.Parent() != nil || (fn.Synthetic != "" && !strings.HasPrefix(fn.Synthetic, "instance of")) || fn.Blocks == nil || !scope(pk.Path()) {
			continue
		}
		c := m.loopCounts(fn, memo, map[*ssa.Function]bool{})
		if len(c) == 0 {
			continue
		}
		k := Abstract(FuncName(fn)) + " | loop-sites"
		if old, ok := out[k]; ok {
			for kind, n := range old {
				if c[kind] < n {
					old[kind] = c[kind]
				}
			}
			for kind := range old {
				if old[kind] == 0 {
					delete(old, kind)
				}
			}
		} else {
			cp := map[string]int{}
			for kind, n := range c {
				cp[kind] = n
			}
			out[k] = cp
			rep[k] = fn
		}
	}
	return out, rep
}

func RunFlowLoop(p *Prog, r *Report, area string, scope func(string) bool) {
	ref, err := loadFlowRef()
	if err != nil || ref.FnLoop == nil {
		return
	}
	cur, rep := fnLoop(p, scope)
	var ks []string
	for k := range ref.FnLoop[area] {
		ks = append(ks, k)
	}
	sort.Strings(ks)
	for _, k := range ks {
		req := ref.FnLoop[area][k]
		parts := strings.SplitN(k, " | ", 2)
		c, ok := cur[k]
		if !ok {
			exists := false
			for _, fn := range p.Funcs {
				if fn.Parent() == nil && Abstract(FuncName(fn)) == parts[0] {
					exists = true
					rep[k] = fn
					break
				}
			}
			if !exists {
				r.Add(&Obligation{Rule: "LOOP-MUST", Pkg: "-", Func: parts[0], Key: "loop-sites", Pos: "-", OK: true, Info: true, Detail: "function no longer exists (renamed / restructured): not evaluated"})
				continue
			}
			c = map[string]int{}
		}
		var miss []string
		for _, q := range req {
			i := strings.Index(q, "#")
			var n int
			fmt.Sscanf(q[i+1:], "%d", &n)
			if c[q[:i]] < n {
				miss = append(miss, fmt.Sprintf("%s (now %d)", q, c[q[:i]]))
			}
		}
		pkg := parts[0]
		if i := strings.LastIndex(pkg, "."); i > 0 {
			pkg = strings.TrimLeft(pkg[:i], "(*")
		}
		pos := "-"
		if fn := rep[k]; fn != nil {
			pos = p.Pos(FuncPos(fn))
		}
		if len(miss) == 0 {
			r.Pass("LOOP-MUST", pkg, parts[0], "loop-sites", pos, "constraint sites executed in every iteration of their loop: at least "+strings.Join(req, " "), true)
		} else {
			r.Fail("LOOP-MUST", pkg, parts[0], "loop-sites", pos, "fewer constraint sites run in every iteration of their loop than reviewed: "+strings.Join(miss, ", ")+" — a per-element constraint was dropped or made conditional (a fast path that skips it for some elements)")
		}
	}
}
