package main

// ORDER-GUARD: guards that compare a configuration number with the field size (or with a small constant) decide
// whether a soundness-relevant step runs: the modulus comparison of a full-width bit decomposition, the canonical
// fallback of the bit-slice partition, the size of the PLONK quotient domain. Such a number is touched only through
// comparisons and a little arithmetic, so its behaviour is decided by a finite set of orderings. For each reviewed
// site the function is interpreted abstractly (sparse conditional constant propagation over SSA with a
// flow-sensitive store for local structs) once per representative of every ordering, with the symbols bound to the
// representative; on the executable sub-graph the requirement of the site is then a must-pass-through / argument
// rule. Nothing is executed: the interpretation is over the lattice {unvisited, constant, unknown}, branches on
// unknown conditions are followed both ways.

import (
	"fmt"
	"go/constant"
	"go/token"
	"go/types"
	"math/bits"
	"sort"
	"strings"

	"golang.org/x/tools/go/ssa"
)

type aval struct {
	k int // 0 = bottom, 1 = int, 2 = bool, 3 = top
	i int64
	b bool
}

var (
	aTop = aval{k: 3}
	aBot = aval{}
)

func aInt(i int64) aval { return aval{k: 1, i: i} }
func aBool(b bool) aval { return aval{k: 2, b: b} }
func (a aval) String() string {
	switch a.k {
	case 0:
		return "⊥"
	case 1:
		return fmt.Sprint(a.i)
	case 2:
		return fmt.Sprint(a.b)
	}
	return "?"
}

func joinA(a, b aval) aval {
	if a.k == 0 {
		return b
	}
	if b.k == 0 {
		return a
	}
	if a == b {
		return a
	}
	return aTop
}

type cellKey struct {
	root ssa.Value
	path string
}

// cellVal: ep 0 = written before the configuration escaped, 1 = bound to the symbol when it escaped, 2 = written afterwards
type cellVal struct {
	a  aval
	ep int8
}

type ogState map[cellKey]cellVal

func (s ogState) clone() ogState {
	n := ogState{}
	for k, v := range s {
		n[k] = v
	}
	return n
}

// ogSpec binds symbols for one interpretation.
type ogBind struct {
	// value: abstract value for an SSA value (calls, parameters, extracts); ok=false: not a symbol
	value func(v ssa.Value) (aval, bool)
	// cell: abstract value of a struct field that the function does not compute itself (option / config objects)
	cell func(structName, field string) (aval, bool)
}

type ogInterp struct {
	fn     *ssa.Function
	bind   ogBind
	env    map[ssa.Value]aval
	in     map[*ssa.BasicBlock]ogState
	out    map[*ssa.BasicBlock]ogState
	edge   map[[2]*ssa.BasicBlock]bool // executable edges
	exec   map[*ssa.BasicBlock]bool
	// conf[root][b]: b is reachable from a call to which the address of the local object root was handed
	conf map[ssa.Value]map[*ssa.BasicBlock]bool
}

func structNameOf(t types.Type) string {
	t = deref(t)
	if n, ok := t.(*types.Named); ok {
		return n.Obj().Name()
	}
	return ""
}

// resolveAddr maps an address-valued SSA value to a cell.
func (it *ogInterp) resolveAddr(v ssa.Value) (cellKey, bool) {
	path := ""
	for depth := 0; depth < 8; depth++ {
		switch x := v.(type) {
		case *ssa.FieldAddr:
			st, ok := deref(x.X.Type()).Underlying().(*types.Struct)
			if !ok {
				return cellKey{}, false
			}
			path = "." + st.Field(x.Field).Name() + path
			v = x.X
			continue
		case *ssa.Alloc, *ssa.Parameter, *ssa.Call, *ssa.Extract, *ssa.FreeVar:
			return cellKey{v, path}, true
		case *ssa.UnOp:
			if x.Op == token.MUL {
				// pointer loaded from somewhere: the loaded pointer value is the root
				return cellKey{v, path}, true
			}
		}
		return cellKey{}, false
	}
	return cellKey{}, false
}

func zeroOf(t types.Type) aval {
	if b, ok := t.Underlying().(*types.Basic); ok {
		if b.Info()&types.IsBoolean != 0 {
			return aBool(false)
		}
		if b.Info()&types.IsInteger != 0 {
			return aInt(0)
		}
	}
	return aTop
}

func (it *ogInterp) symbolCell(c cellKey) (aval, bool) {
	if it.bind.cell == nil || c.path == "" {
		return aval{}, false
	}
	fld := c.path[strings.LastIndex(c.path, ".")+1:]
	// struct owning the last field
	t := deref(c.root.Type())
	parts := strings.Split(strings.TrimPrefix(c.path, "."), ".")
	for i := 0; i < len(parts)-1; i++ {
		st, ok := t.Underlying().(*types.Struct)
		if !ok {
			return aval{}, false
		}
		found := false
		for j := 0; j < st.NumFields(); j++ {
			if st.Field(j).Name() == parts[i] {
				t = deref(st.Field(j).Type())
				found = true
			}
		}
		if !found {
			return aval{}, false
		}
	}
	return it.bind.cell(structNameOf(t), fld)
}

func (it *ogInterp) load(st ogState, addr ssa.Value, typ types.Type) aval {
	c, ok := it.resolveAddr(addr)
	if !ok {
		return aTop
	}
	if v, ok := st[c]; ok {
		return v.a
	}
	if sv, ok := it.symbolCell(c); ok {
		if _, isAlloc := c.root.(*ssa.Alloc); !isAlloc {
			return sv
		}
	}
	if _, isAlloc := c.root.(*ssa.Alloc); isAlloc {
		return zeroOf(typ)
	}
	return aTop
}

func (it *ogInterp) val(v ssa.Value) aval {
	if c, ok := v.(*ssa.Const); ok {
		if c.Value == nil {
			return aTop
		}
		switch c.Value.Kind() {
		case constant.Int:
			if i, ok := constant.Int64Val(c.Value); ok {
				return aInt(i)
			}
			if u, ok := constant.Uint64Val(c.Value); ok {
				return aInt(int64(u))
			}
		case constant.Bool:
			return aBool(constant.BoolVal(c.Value))
		}
		return aTop
	}
	if a, ok := it.env[v]; ok {
		return a
	}
	return aBot
}

func evalBin(op token.Token, x, y aval) aval {
	if x.k == 0 || y.k == 0 {
		return aBot
	}
	if x.k == 2 && y.k == 2 {
		switch op {
		case token.EQL:
			return aBool(x.b == y.b)
		case token.NEQ:
			return aBool(x.b != y.b)
		case token.AND, token.LAND:
			return aBool(x.b && y.b)
		case token.OR, token.LOR:
			return aBool(x.b || y.b)
		}
		return aTop
	}
	if x.k != 1 || y.k != 1 {
		return aTop
	}
	a, b := x.i, y.i
	switch op {
	case token.ADD:
		return aInt(a + b)
	case token.SUB:
		return aInt(a - b)
	case token.MUL:
		return aInt(a * b)
	case token.QUO:
		if b == 0 {
			return aTop
		}
		return aInt(a / b)
	case token.REM:
		if b == 0 {
			return aTop
		}
		return aInt(a % b)
	case token.SHL:
		if b < 0 || b > 62 {
			return aTop
		}
		return aInt(a << uint(b))
	case token.SHR:
		if b < 0 || b > 63 {
			return aTop
		}
		return aInt(a >> uint(b))
	case token.AND:
		return aInt(a & b)
	case token.OR:
		return aInt(a | b)
	case token.XOR:
		return aInt(a ^ b)
	case token.AND_NOT:
		return aInt(a &^ b)
	case token.EQL:
		return aBool(a == b)
	case token.NEQ:
		return aBool(a != b)
	case token.LSS:
		return aBool(a < b)
	case token.LEQ:
		return aBool(a <= b)
	case token.GTR:
		return aBool(a > b)
	case token.GEQ:
		return aBool(a >= b)
	}
	return aTop
}

// escapes: addresses (of local allocs) handed to a call.
func (it *ogInterp) clobberArgs(st ogState, args []ssa.Value) {
	for _, a := range args {
		c, ok := it.resolveAddr(a)
		if !ok {
			if mi, isMI := a.(*ssa.MakeInterface); isMI {
				c, ok = it.resolveAddr(mi.X)
			}
		}
		if !ok {
			continue
		}
		if _, isAlloc := c.root.(*ssa.Alloc); !isAlloc {
			continue
		}
		if !pointerLike(a.Type()) {
			continue
		}
		// every cell of the root that lies at or below the escaping address
		st0, isStruct := deref(c.root.Type()).Underlying().(*types.Struct)
		for k := range st {
			if k.root == c.root && strings.HasPrefix(k.path, c.path) {
				delete(st, k)
			}
		}
		if isStruct && c.path == "" {
			for j := 0; j < st0.NumFields(); j++ {
				k := cellKey{c.root, "." + st0.Field(j).Name()}
				if sv, ok := it.symbolCell(k); ok {
					st[k] = cellVal{sv, 1}
				} else {
					st[k] = cellVal{aTop, 1}
				}
			}
		} else {
			st[c] = cellVal{aTop, 1}
			if sv, ok := it.symbolCell(c); ok {
				st[c] = cellVal{sv, 1}
			}
		}
	}
}

func (it *ogInterp) transfer(b *ssa.BasicBlock, st ogState) (changed bool) {
	set := func(v ssa.Value, a aval) {
		old := it.env[v]
		n := joinA(old, a)
		if n != old {
			it.env[v] = n
			changed = true
		}
	}
	for _, ins := range b.Instrs {
		if v, ok := ins.(ssa.Value); ok && it.bind.value != nil {
			if a, ok := it.bind.value(v); ok {
				set(v, a)
				if c, isCall := ins.(*ssa.Call); isCall {
					it.clobberArgs(st, c.Call.Args)
				}
				continue
			}
		}
		switch x := ins.(type) {
		case *ssa.Phi:
			a := aBot
			for i, e := range x.Edges {
				if it.edge[[2]*ssa.BasicBlock{b.Preds[i], b}] {
					a = joinA(a, it.val(e))
				}
			}
			set(x, a)
		case *ssa.BinOp:
			set(x, evalBin(x.Op, it.val(x.X), it.val(x.Y)))
		case *ssa.UnOp:
			switch x.Op {
			case token.MUL:
				set(x, it.load(st, x.X, x.Type()))
			case token.NOT:
				a := it.val(x.X)
				if a.k == 2 {
					set(x, aBool(!a.b))
				} else if a.k != 0 {
					set(x, aTop)
				}
			case token.SUB:
				a := it.val(x.X)
				if a.k == 1 {
					set(x, aInt(-a.i))
				} else if a.k != 0 {
					set(x, aTop)
				}
			default:
				set(x, aTop)
			}
		case *ssa.Convert:
			a := it.val(x.X)
			if a.k == 1 && isIntType(x.Type()) {
				set(x, a)
			} else if a.k != 0 {
				set(x, aTop)
			}
		case *ssa.ChangeType:
			set(x, it.val(x.X))
		case *ssa.Store:
			if c, ok := it.resolveAddr(x.Addr); ok {
				a := it.val(x.Val)
				if a.k == 0 {
					a = aTop
				}
				if c.path == "" {
					// whole-object store: forget the fields
					for k := range st {
						if k.root == c.root {
							delete(st, k)
						}
					}
					if _, isStruct := deref(c.root.Type()).Underlying().(*types.Struct); isStruct {
						stt := deref(c.root.Type()).Underlying().(*types.Struct)
						for j := 0; j < stt.NumFields(); j++ {
							st[cellKey{c.root, "." + stt.Field(j).Name()}] = cellVal{aTop, 2}
						}
					} else {
						st[c] = it.storeVal(st, c, a)
					}
				} else {
					st[c] = it.storeVal(st, c, a)
				}
			}
		case *ssa.Call:
			res := aTop
			if bi, ok := x.Call.Value.(*ssa.Builtin); ok {
				switch bi.Name() {
				case "max", "min":
					all := true
					var best int64
					for i, a := range x.Call.Args {
						v := it.val(a)
						if v.k != 1 {
							all = false
							break
						}
						if i == 0 || (bi.Name() == "max" && v.i > best) || (bi.Name() == "min" && v.i < best) {
							best = v.i
						}
					}
					if all && len(x.Call.Args) > 0 {
						res = aInt(best)
					}
				}
			} else if cal := x.Call.StaticCallee(); cal != nil && cal.Pkg != nil && cal.Pkg.Pkg.Path() == "math/bits" && len(x.Call.Args) == 1 {
				if a := it.val(x.Call.Args[0]); a.k == 1 && a.i >= 0 {
					switch cal.Name() {
					case "Len", "Len64", "Len32":
						res = aInt(int64(bits.Len64(uint64(a.i))))
					}
				}
			}
			it.clobberArgs(st, x.Call.Args)
			set(x, res)
		default:
			if v, ok := ins.(ssa.Value); ok {
				set(v, aTop)
			}
		}
	}
	return changed
}

func newOgInterp(fn *ssa.Function, bind ogBind) *ogInterp {
	it := &ogInterp{fn: fn, bind: bind, env: map[ssa.Value]aval{}, in: map[*ssa.BasicBlock]ogState{}, out: map[*ssa.BasicBlock]ogState{},
		edge: map[[2]*ssa.BasicBlock]bool{}, exec: map[*ssa.BasicBlock]bool{}}
	it.conf = map[ssa.Value]map[*ssa.BasicBlock]bool{}
	for _, b := range fn.Blocks {
		for _, ins := range b.Instrs {
			c, ok := ins.(ssa.CallInstruction)
			if !ok {
				continue
			}
			for _, a := range c.Common().Args {
				k, ok := it.resolveAddr(a)
				if !ok || k.path != "" || !pointerLike(a.Type()) {
					continue
				}
				if _, isAlloc := k.root.(*ssa.Alloc); !isAlloc {
					continue
				}
				if it.conf[k.root] == nil {
					it.conf[k.root] = map[*ssa.BasicBlock]bool{}
				}
				for _, s := range b.Succs {
					for rb := range reach(s, nil) {
						it.conf[k.root][rb] = true
					}
				}
			}
		}
	}
	for _, pm := range fn.Params {
		if bind.value != nil {
			if a, ok := bind.value(pm); ok {
				it.env[pm] = a
				continue
			}
		}
		it.env[pm] = aTop
	}
	for _, fv := range fn.FreeVars {
		it.env[fv] = aTop
	}
	return it
}

// storeVal: a store after the configuration escaped is an update of the configured value; before, it is the default
func (it *ogInterp) storeVal(st ogState, c cellKey, a aval) cellVal {
	if old, ok := st[c]; ok && old.ep >= 1 {
		return cellVal{a, 2}
	}
	return cellVal{a, 0}
}

func (it *ogInterp) cellType(c cellKey) types.Type {
	t := deref(c.root.Type())
	for _, part := range strings.Split(strings.TrimPrefix(c.path, "."), ".") {
		if part == "" {
			continue
		}
		st, ok := t.Underlying().(*types.Struct)
		if !ok {
			return nil
		}
		var nt types.Type
		for j := 0; j < st.NumFields(); j++ {
			if st.Field(j).Name() == part {
				nt = st.Field(j).Type()
			}
		}
		if nt == nil {
			return nil
		}
		t = nt
	}
	return t
}

// effective: the value a state holds for a cell, defaults included (zero value of a local object that was not written)
func (it *ogInterp) effective(st ogState, c cellKey) cellVal {
	if v, ok := st[c]; ok {
		return v
	}
	if _, isAlloc := c.root.(*ssa.Alloc); isAlloc {
		if t := it.cellType(c); t != nil {
			return cellVal{zeroOf(t), 0}
		}
	}
	return cellVal{aTop, 0}
}

// joinCell: a path on which the configuration object never escaped (no option applied) is represented by the
// ordering in which the symbol equals the default; where one side is configured and the other is not, the
// configured side stands.
func joinCell(a, b cellVal) cellVal {
	if a.ep == 0 && b.ep >= 1 {
		return b
	}
	if b.ep == 0 && a.ep >= 1 {
		return a
	}
	ep := a.ep
	if b.ep > ep {
		ep = b.ep
	}
	return cellVal{joinA(a.a, b.a), ep}
}

func statesEqual(a, b ogState) bool {
	if len(a) != len(b) {
		return false
	}
	for k, v := range a {
		if w, ok := b[k]; !ok || w != v {
			return false
		}
	}
	return true
}

func (it *ogInterp) run() {
	if len(it.fn.Blocks) == 0 {
		return
	}
	it.exec[it.fn.Blocks[0]] = true
	for iter := 0; iter < 200; iter++ {
		changed := false
		for _, b := range it.fn.Blocks {
			if !it.exec[b] {
				continue
			}
			// in-state: join over executable predecessor edges
			var st ogState
			first := true
			for _, p := range b.Preds {
				if !it.edge[[2]*ssa.BasicBlock{p, b}] {
					continue
				}
				po := it.out[p]
				if first {
					st = po.clone()
					first = false
					continue
				}
				keys := map[cellKey]bool{}
				for k := range st {
					keys[k] = true
				}
				for k := range po {
					keys[k] = true
				}
				for k := range keys {
					st[k] = joinCell(it.effective(st, k), it.effective(po, k))
				}
			}
			// behind a call that received the object, the values written before that call (defaults) are not the
			// configured values: they are dropped; until a configured value arrives the cell is pending (bottom)
			for k, v := range st {
				if v.ep == 0 && it.conf[k.root][b] {
					st[k] = cellVal{aBot, 1}
				}
			}
			for root, blocks := range it.conf {
				if !blocks[b] {
					continue
				}
				if stt, ok := deref(root.Type()).Underlying().(*types.Struct); ok {
					for j := 0; j < stt.NumFields(); j++ {
						k := cellKey{root, "." + stt.Field(j).Name()}
						if _, ok := st[k]; !ok {
							st[k] = cellVal{aBot, 1}
						}
					}
				}
			}
			if st == nil {
				st = ogState{}
			}
			if it.transfer(b, st) {
				changed = true
			}
			if old, ok := it.out[b]; !ok || !statesEqual(old, st) {
				it.out[b] = st
				changed = true
			}
			mark := func(s *ssa.BasicBlock) {
				e := [2]*ssa.BasicBlock{b, s}
				if !it.edge[e] {
					it.edge[e] = true
					changed = true
				}
				if !it.exec[s] {
					it.exec[s] = true
					changed = true
				}
			}
			switch t := lastInstr(b).(type) {
			case *ssa.If:
				c := it.val(t.Cond)
				switch {
				case c.k == 2 && c.b:
					mark(b.Succs[0])
				case c.k == 2 && !c.b:
					mark(b.Succs[1])
				case c.k == 0:
					// condition not yet evaluated
				default:
					mark(b.Succs[0])
					mark(b.Succs[1])
				}
			default:
				for _, s := range b.Succs {
					mark(s)
				}
			}
		}
		if !changed {
			break
		}
	}
}

// mustPass: on the executable sub-graph every Return is reached only through a block in which pred holds for some
// instruction. Returns (some matching executable instruction exists, a return is reachable around them).
func (it *ogInterp) mustPass(pred func(ssa.Instruction) bool) (found bool, bypass *ssa.BasicBlock) {
	hit := map[*ssa.BasicBlock]bool{}
	for _, b := range it.fn.Blocks {
		if !it.exec[b] {
			continue
		}
		for _, ins := range b.Instrs {
			if pred(ins) {
				hit[b] = true
				found = true
			}
		}
	}
	seen := map[*ssa.BasicBlock]bool{}
	var stack []*ssa.BasicBlock
	if !hit[it.fn.Blocks[0]] {
		stack = append(stack, it.fn.Blocks[0])
		seen[it.fn.Blocks[0]] = true
	}
	for len(stack) > 0 {
		b := stack[len(stack)-1]
		stack = stack[:len(stack)-1]
		if _, ok := lastInstr(b).(*ssa.Return); ok {
			return found, b
		}
		for _, s := range b.Succs {
			if it.edge[[2]*ssa.BasicBlock{b, s}] && !seen[s] && !hit[s] {
				seen[s] = true
				stack = append(stack, s)
			}
		}
	}
	return found, nil
}

func calleeSuffix(ins ssa.Instruction, suffix string) bool {
	c, ok := ins.(ssa.CallInstruction)
	if !ok {
		return false
	}
	return strings.HasSuffix(CalleeName(c.Common()), suffix)
}

func isMethodCall(v ssa.Value, name string) bool {
	c, ok := v.(*ssa.Call)
	if !ok {
		return false
	}
	if c.Call.IsInvoke() {
		return c.Call.Method.Name() == name
	}
	if cal := c.Call.StaticCallee(); cal != nil {
		return cal.Name() == name
	}
	return false
}

// isOkOf: v is the boolean second result of a call to a method named name.
func isOkOf(v ssa.Value, name string) bool {
	ex, ok := v.(*ssa.Extract)
	if !ok || ex.Index == 0 {
		return false
	}
	return isMethodCall(ex.Tuple, name) && isBoolType(ex.Type())
}

type ogCase struct {
	label string
	bind  ogBind
	// check is evaluated on the finished interpretation; it returns "" or a violation text
	check func(it *ogInterp) string
}

func runOgCases(p *Prog, r *Report, rule string, fn *ssa.Function, key string, cases []ogCase) {
	pkg := "-"
	if pk := FuncPkg(fn); pk != nil {
		pkg = pk.Path()
	}
	var bad []string
	for _, c := range cases {
		it := newOgInterp(fn, c.bind)
		it.run()
		if msg := c.check(it); msg != "" {
			bad = append(bad, c.label+": "+msg)
		}
	}
	pos := p.Pos(FuncPos(fn))
	if len(bad) > 0 {
		sort.Strings(bad)
		if len(bad) > 4 {
			bad = append(bad[:4], fmt.Sprintf("… and %d more orderings", len(bad)-4))
		}
		r.Fail(rule, pkg, FuncName(fn), key, pos, strings.Join(bad, " | "))
		return
	}
	r.Pass(rule, pkg, FuncName(fn), key, pos, fmt.Sprintf("%d orderings interpreted; requirement holds on the executable sub-graph of each", len(cases)), true)
}

const ogF = 254 // representative field bit length; only its order relative to the other symbols matters

// RunOrderGuardBits: bits.toBinary and bitslice.Partition.
func RunOrderGuardBits(p *Prog, r *Report, which ...string) {
	const rule = "ORDER-GUARD"
	want := map[string]bool{}
	for _, w := range which {
		want[w] = true
	}
	if want["tobinary"] {
		fn := p.Func(modPath + "/std/math/bits.toBinary")
		if fn == nil {
			r.Fail("UNRESOLVED", "-", "-", "bits.toBinary", "-", "function not found")
		} else {
			var cases []ogCase
			for _, off := range []int64{-3, -1, 0, 1, 2, 10, 300} {
				for _, unc := range []bool{false, true} {
					d := ogF + off
					unc := unc
					bind := ogBind{
						value: func(v ssa.Value) (aval, bool) {
							if isMethodCall(v, "FieldBitLen") {
								return aInt(ogF), true
							}
							return aval{}, false
						},
						cell: func(st, f string) (aval, bool) {
							if st != "baseConversionConfig" {
								return aval{}, false
							}
							switch f {
							case "NbDigits":
								return aInt(d), true
							case "omitModulusCheck":
								return aBool(false), true
							case "UnconstrainedOutputs":
								return aBool(unc), true
							}
							return aval{}, false
						},
					}
					need := d >= ogF
					cases = append(cases, ogCase{label: fmt.Sprintf("NbDigits=FieldBitLen%+d,unconstrainedOutputs=%v", off, unc), bind: bind, check: func(it *ogInterp) string {
						found, bypass := it.mustPass(func(ins ssa.Instruction) bool {
							c, ok := ins.(*ssa.Call)
							return ok && c.Call.IsInvoke() && c.Call.Method.Name() == "MustBeLessOrEqCst"
						})
						if need && (!found || bypass != nil) {
							return "a full-width decomposition (the requested digits cover the field) returns without comparing the bits with p-1: the bits of v+p are accepted as well"
						}
						return ""
					}})
				}
			}
			runOgCases(p, r, rule, fn, "modulus-check-when-digits>=fieldbits", cases)
		}
	}
	if want["partition"] {
		fn := p.Func(modPath + "/std/math/bitslice.Partition")
		if fn == nil {
			r.Fail("UNRESOLVED", "-", "-", "bitslice.Partition", "-", "function not found")
		} else {
			var cases []ogCase
			for _, d := range []int64{0, 8, ogF - 1, ogF, ogF + 1, ogF + 50} {
				d := d
				bind := ogBind{
					value: func(v ssa.Value) (aval, bool) {
						if isMethodCall(v, "FieldBitLen") {
							return aInt(ogF), true
						}
						if isOkOf(v, "ConstantValue") {
							return aBool(false), true
						}
						if pm, ok := v.(*ssa.Parameter); ok && pm.Name() == "split" {
							return aInt(5), true
						}
						return aval{}, false
					},
					cell: func(st, f string) (aval, bool) {
						if f == "digits" {
							return aInt(d), true
						}
						if f == "nocheck" {
							return aBool(false), true
						}
						return aval{}, false
					},
				}
				need := d == 0 || d >= ogF
				cases = append(cases, ogCase{label: fmt.Sprintf("digits=%d (FieldBitLen=%d)", d, ogF), bind: bind, check: func(it *ogInterp) string {
					found, bypass := it.mustPass(func(ins ssa.Instruction) bool { return calleeSuffix(ins, "/std/math/bits.ToBinary") })
					if need && (!found || bypass != nil) {
						return "with no bound or a bound of at least the field size the partition must use the canonical binary decomposition (which compares with p-1); the hinted path checks lower + 2^split*upper == v only modulo p"
					}
					if !need {
						// hinted path: both parts range-checked and recomposed
						n := 0
						for _, b := range it.fn.Blocks {
							if !it.exec[b] {
								continue
							}
							for _, ins := range b.Instrs {
								if c, ok := ins.(*ssa.Call); ok && c.Call.IsInvoke() && c.Call.Method.Name() == "Check" {
									n++
								}
							}
						}
						if _, bypass := it.mustPass(func(ins ssa.Instruction) bool {
							c, ok := ins.(*ssa.Call)
							return ok && c.Call.IsInvoke() && c.Call.Method.Name() == "AssertIsEqual"
						}); bypass != nil {
							return "the hinted partition returns without asserting lower + 2^split*upper == v"
						}
					}
					return ""
				}})
			}
			runOgCases(p, r, rule, fn, "canonical-path-when-digits>=fieldbits", cases)
		}
	}
}

func nextPow2(x int64) int64 {
	n := int64(1)
	for n < x {
		n <<= 1
	}
	return n
}

// RunOrderGuardDomain: PLONK newInstance — the quotient lives in a space of dimension 3(n+2), n = |domain0|.
func RunOrderGuardDomain(p *Prog, r *Report) {
	const rule = "ORDER-GUARD"
	fns := p.FuncsMatching("github.com/consensys/gnark/backend/plonk/<curve>.newInstance")
	if len(fns) < 7 {
		r.Fail("UNRESOLVED", "-", "-", "plonk.newInstance", "-", fmt.Sprintf("%d instances, confirmed 7", len(fns)))
	}
	for _, fn := range fns {
		// the symbol: the argument of the NewDomain call stored into domain0
		domainCalls := func(field string) []*ssa.Call {
			var out []*ssa.Call
			for _, b := range fn.Blocks {
				for _, ins := range b.Instrs {
					st, ok := ins.(*ssa.Store)
					if !ok {
						continue
					}
					fa, ok := st.Addr.(*ssa.FieldAddr)
					if !ok {
						continue
					}
					stt, ok := deref(fa.X.Type()).Underlying().(*types.Struct)
					if !ok || stt.Field(fa.Field).Name() != field {
						continue
					}
					if c, ok := st.Val.(*ssa.Call); ok && strings.HasSuffix(CalleeName(&c.Call), "fft.NewDomain") {
						out = append(out, c)
					}
				}
			}
			return out
		}
		d0 := domainCalls("domain0")
		d1 := domainCalls("domain1")
		if len(d0) != 1 || len(d1) == 0 {
			r.Fail("UNRESOLVED", FuncPkg(fn).Path(), FuncName(fn), "domain0/domain1 construction", p.Pos(FuncPos(fn)), fmt.Sprintf("%d / %d fft.NewDomain calls stored into domain0 / domain1", len(d0), len(d1)))
			continue
		}
		sym := d0[0].Call.Args[0]
		var cases []ogCase
		for _, s := range []int64{2, 3, 4, 5, 6, 7, 8, 9, 15, 16, 17, 100, 1 << 20} {
			s := s
			bind := ogBind{value: func(v ssa.Value) (aval, bool) {
				if v == sym {
					return aInt(s), true
				}
				return aval{}, false
			}}
			cases = append(cases, ogCase{label: fmt.Sprintf("sizeSystem=%d", s), bind: bind, check: func(it *ogInterp) string {
				need := 3 * (nextPow2(s) + 2)
				any := false
				for _, c := range d1 {
					if !it.exec[c.Block()] {
						continue
					}
					any = true
					a := it.val(c.Call.Args[0])
					if a.k != 1 {
						return "size of the quotient domain is not a function of the system size alone"
					}
					if nextPow2(a.i) < need {
						return fmt.Sprintf("quotient domain of cardinality %d for a system of size %d: the quotient has 3(n+2) = %d coefficients with n = %d", nextPow2(a.i), s, need, nextPow2(s))
					}
				}
				if !any {
					return "no quotient domain constructed"
				}
				return ""
			}})
		}
		runOgCases(p, r, rule, fn, "quotient-domain>=3(n+2)", cases)
	}
}
