package main

import (
	"fmt"
	"go/types"
	"sort"
	"strings"

	"golang.org/x/tools/go/ssa"
)

// OUT-DEF (C06): the solver decodes every instruction into a scratch object that is reused from one instruction to
// the next (R1C, SparseR1C, HintMapping held by the per-worker solver state). A Decompress* method therefore has to
// assign every field of its output parameter on every path; a field skipped on some path keeps the terms of the
// previously decoded instruction, and the solver then checks or solves a row the compiled system does not contain.
// Rule: in each method named Decompress* of package constraint, for every field of the struct its first parameter
// points to, every path from entry to return passes a write of that field: a store to the field (or, for a nested
// struct, to each of its fields), a store to the whole object, or a call handing the field's address (or the object)
// to a module function / local closure that itself writes its pointer parameter on every path.

type outDef struct {
	p    *Prog
	memo map[*ssa.Function]map[int]int // 0 unknown/in progress, 1 yes, 2 no
}

// mustWriteParam: every path of fn from entry to a return stores to *param[i] (the whole pointee).
func (o *outDef) mustWriteParam(fn *ssa.Function, i int, depth int) bool {
	if fn == nil || fn.Blocks == nil || i >= len(fn.Params) || depth > 3 {
		return false
	}
	if m := o.memo[fn]; m != nil && m[i] != 0 {
		return m[i] == 1
	}
	if o.memo[fn] == nil {
		o.memo[fn] = map[int]int{}
	}
	o.memo[fn][i] = 2
	pm := fn.Params[i]
	w := o.writeBlocks(fn, func(addr ssa.Value) bool { return addr == pm }, func(arg ssa.Value) bool { return arg == pm }, depth)
	ok := !exitAvoiding(fn, w)
	if ok {
		o.memo[fn][i] = 1
	}
	return ok
}

// writeBlocks: blocks containing a store whose address satisfies isAddr, or a call passing a value satisfying isArg
// to a callee that must-write the corresponding parameter.
func (o *outDef) writeBlocks(fn *ssa.Function, isAddr func(ssa.Value) bool, isArg func(ssa.Value) bool, depth int) map[*ssa.BasicBlock]bool {
	w := map[*ssa.BasicBlock]bool{}
	for _, b := range fn.Blocks {
		for _, ins := range b.Instrs {
			switch x := ins.(type) {
			case *ssa.Store:
				if isAddr(x.Addr) {
					w[b] = true
				}
			case *ssa.Call:
				var callee *ssa.Function
				off := 0
				if c := x.Call.StaticCallee(); c != nil {
					callee = c
				} else if mc, ok := x.Call.Value.(*ssa.MakeClosure); ok {
					callee, _ = mc.Fn.(*ssa.Function)
				} else if u, ok := x.Call.Value.(*ssa.UnOp); ok {
					// closure stored in a local and loaded back
					if al, ok := u.X.(*ssa.Alloc); ok {
						if sv := singleStore(al); sv != nil {
							if mc, ok := sv.(*ssa.MakeClosure); ok {
								callee, _ = mc.Fn.(*ssa.Function)
							}
						}
					}
				}
				if callee == nil || x.Call.IsInvoke() {
					continue
				}
				for ai, a := range x.Call.Args {
					if isArg(a) && o.mustWriteParam(callee, ai+off, depth+1) {
						w[b] = true
					}
				}
			}
		}
	}
	return w
}

// exitAvoiding: some return of fn is reachable from the entry without passing a block of w.
func exitAvoiding(fn *ssa.Function, w map[*ssa.BasicBlock]bool) bool {
	if len(fn.Blocks) == 0 {
		return true
	}
	seen := map[*ssa.BasicBlock]bool{}
	work := []*ssa.BasicBlock{fn.Blocks[0]}
	for len(work) > 0 {
		b := work[len(work)-1]
		work = work[:len(work)-1]
		if seen[b] || w[b] {
			continue
		}
		seen[b] = true
		if _, ok := lastInstr(b).(*ssa.Return); ok {
			return true
		}
		for _, s := range b.Succs {
			work = append(work, s)
		}
	}
	return false
}

func RunOutDef(p *Prog, r *Report) {
	o := &outDef{p: p, memo: map[*ssa.Function]map[int]int{}}
	type res struct {
		ok  bool
		pos string
		fn  string
	}
	out := map[string]*res{}
	for _, fn := range p.Funcs {
		pk := FuncPkg(fn)
		if pk == nil || pk.Path() != modPath+"/constraint" || fn.Parent() != nil || fn.Blocks == nil || fn.Signature.Recv() == nil {
			continue
		}
		if !strings.HasPrefix(funcBaseName(fn), "Decompress") || len(fn.Params) < 2 {
			continue
		}
		pm := fn.Params[1]
		pt, ok := pm.Type().Underlying().(*types.Pointer)
		if !ok {
			continue
		}
		st, ok := pt.Elem().Underlying().(*types.Struct)
		if !ok {
			continue
		}
		whole := o.writeBlocks(fn, func(a ssa.Value) bool { return a == pm }, func(a ssa.Value) bool { return a == pm }, 0)
		var check func(prefix string, isBase func(ssa.Value) bool, st *types.Struct, depth int)
		check = func(prefix string, isBase func(ssa.Value) bool, st *types.Struct, depth int) {
			for fi := 0; fi < st.NumFields(); fi++ {
				fi := fi
				f := st.Field(fi)
				isField := func(a ssa.Value) bool {
					fa, ok := a.(*ssa.FieldAddr)
					return ok && fa.Field == fi && isBase(fa.X)
				}
				w := o.writeBlocks(fn, isField, isField, 0)
				for b := range whole {
					w[b] = true
				}
				key := "field:" + prefix + f.Name()
				k := Abstract(FuncName(fn)) + " | " + key
				good := !exitAvoiding(fn, w)
				if !good {
					// nested struct: all of its fields written individually
					if sub, ok := f.Type().Underlying().(*types.Struct); ok && depth < 2 && sub.NumFields() > 0 {
						check(prefix+f.Name()+".", isField, sub, depth+1)
						continue
					}
				}
				if old, ok := out[k]; ok {
					old.ok = old.ok && good
				} else {
					out[k] = &res{good, p.Pos(FuncPos(fn)), FuncName(fn)}
				}
			}
		}
		check("", func(a ssa.Value) bool { return a == pm }, st, 0)
	}
	var ks []string
	for k := range out {
		ks = append(ks, k)
	}
	sort.Strings(ks)
	for _, k := range ks {
		x := out[k]
		parts := strings.SplitN(k, " | ", 2)
		if x.ok {
			r.Pass("OUT-DEF", modPath+"/constraint", x.fn, parts[1], x.pos, "assigned on every path of the decoder", true)
		} else {
			r.Fail("OUT-DEF", modPath+"/constraint", x.fn, parts[1], x.pos, "some path of this decoder returns without assigning the field of the reused scratch object: it keeps the value decoded for the previous instruction")
		}
	}
	if len(ks) < 20 {
		r.Fail("UNRESOLVED", "-", "-", "out-def", "-", fmt.Sprintf("%d decoder output fields found, confirmed minimum 20", len(ks)))
	}
}

func init() {
	devHooks["outdef"] = func(p *Prog, fnPat, untr string) int {
		r := NewReport("DEV", "quick", 0)
		RunOutDef(p, r)
		for _, o := range r.Obls {
			fmt.Printf("%v %s | %s | %s | %s\n", o.OK, o.Pos, strings.TrimPrefix(o.Func, modPath+"/"), o.Key, o.Detail)
		}
		return 0
	}
}
