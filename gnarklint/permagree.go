package main

import (
	"fmt"
	"go/token"
	"go/types"
	"strings"

	"golang.org/x/tools/go/ssa"
)

// PERM-AGREE (C19): writer / reader agreement on the instance permutation of the GKR assignments.
// Slots filled from the code:
//   - inverse pairs of permutation fields: `p.B = utils.InvertPermutation(p.A)` (constraint.GkrPermutations:
//     InstancesPermutation = SortedInstances^-1, WiresPermutation = SortedWires^-1);
//   - writers: `utils.Permute(row, p.F)` on a row of a value of a named slice-of-slices type (std/gkr `assignment`);
//     contract of utils.Permute: the element at index i moves to index F[i];
//   - readers: `utils.Map(p.G, utils.SliceAt(row))` on a row of the same named type: result[i] = row[G[i]].
// After the writer, the value of original instance i sits at index F[i]; a reader that returns the values in original
// order must therefore index through the same field (G == F). Reading through the inverse field returns the values of
// other instances whenever the permutation is not an involution (which the tests, using swaps only, never exercise).

type permField struct {
	strct string
	field string
}

func permFieldOf(v ssa.Value) (permField, bool) {
	for d := 0; d < 4; d++ {
		switch x := v.(type) {
		case *ssa.UnOp:
			if x.Op == token.MUL {
				v = x.X
				continue
			}
		case *ssa.FieldAddr:
			if n := namedName(x.X.Type()); n != "" {
				return permField{n, fieldName(x.X.Type(), x.Field)}, true
			}
		case *ssa.Field:
			if n := namedName(x.X.Type()); n != "" {
				return permField{n, fieldName(x.X.Type(), x.Field)}, true
			}
		}
		break
	}
	return permField{}, false
}

// rowOwner: v is an element (row) of a value whose type is a named slice of slices; returns the type's name.
func rowOwner(v ssa.Value) string {
	for d := 0; d < 4; d++ {
		switch x := v.(type) {
		case *ssa.UnOp:
			if x.Op == token.MUL {
				v = x.X
				continue
			}
		case *ssa.IndexAddr:
			return namedSliceOfSlices(x.X.Type())
		case *ssa.Index:
			return namedSliceOfSlices(x.X.Type())
		case *ssa.Lookup:
			return ""
		}
		break
	}
	return ""
}

func namedSliceOfSlices(t types.Type) string {
	n, ok := t.(*types.Named)
	if !ok {
		if p, ok := t.Underlying().(*types.Pointer); ok {
			n, _ = p.Elem().(*types.Named)
		}
	}
	if n == nil {
		return ""
	}
	if s, ok := n.Underlying().(*types.Slice); ok {
		if _, ok := s.Elem().Underlying().(*types.Slice); ok {
			return n.Obj().Name()
		}
	}
	return ""
}

func RunPermAgree(p *Prog, r *Report) {
	inverse := map[permField]permField{}
	type use struct {
		owner string
		f     permField
		fn    *ssa.Function
		pos   token.Pos
	}
	var writers, readers []use
	for _, fn := range p.Funcs {
		pk := FuncPkg(fn)
		if pk == nil || fn.Blocks == nil || !strings.HasPrefix(pk.Path(), modPath+"/") {
			continue
		}
		rel := strings.TrimPrefix(pk.Path(), modPath+"/")
		if rel != "constraint" && !strings.HasPrefix(rel, "std/gkr") {
			continue
		}
		for _, b := range fn.Blocks {
			for _, ins := range b.Instrs {
				switch x := ins.(type) {
				case *ssa.Store:
					c, ok := x.Val.(*ssa.Call)
					if !ok || c.Call.StaticCallee() == nil || funcBaseName(c.Call.StaticCallee()) != "InvertPermutation" || len(c.Call.Args) != 1 {
						continue
					}
					dst, ok1 := permFieldOf(x.Addr)
					src, ok2 := permFieldOf(c.Call.Args[0])
					if ok1 && ok2 && dst.strct == src.strct {
						inverse[dst] = src
						inverse[src] = dst
					}
				case *ssa.Call:
					cal := x.Call.StaticCallee()
					if cal == nil || FuncPkg(cal) == nil || FuncPkg(cal).Path() != modPath+"/internal/utils" {
						continue
					}
					switch funcBaseName(cal) {
					case "Permute":
						if len(x.Call.Args) == 2 {
							if f, ok := permFieldOf(x.Call.Args[1]); ok {
								if o := rowOwner(x.Call.Args[0]); o != "" {
									writers = append(writers, use{o, f, fn, x.Pos()})
								}
							}
						}
					case "Map":
						if len(x.Call.Args) == 2 {
							f, ok := permFieldOf(x.Call.Args[0])
							sa, ok2 := x.Call.Args[1].(*ssa.Call)
							if ok && ok2 && sa.Call.StaticCallee() != nil && funcBaseName(sa.Call.StaticCallee()) == "SliceAt" && len(sa.Call.Args) == 1 {
								if o := rowOwner(sa.Call.Args[0]); o != "" {
									readers = append(readers, use{o, f, fn, x.Pos()})
								}
							}
						}
					}
				}
			}
		}
	}
	if len(inverse) == 0 || len(writers) == 0 || len(readers) == 0 {
		r.Fail("UNRESOLVED", "-", "-", "perm-agree", "-", fmt.Sprintf("inverse pairs=%d permute writers=%d indexed readers=%d (confirmed: 2 pairs, assignment.Permute, Solution.Export)", len(inverse)/2, len(writers), len(readers)))
		return
	}
	seen := map[string]bool{}
	for _, rd := range readers {
		for _, w := range writers {
			if w.owner != rd.owner || w.f.strct != rd.f.strct {
				continue
			}
			if w.f != rd.f && inverse[w.f] != rd.f {
				continue // a permutation of another axis
			}
			key := fmt.Sprintf("read:%s.%s/write:%s.%s", rd.f.strct, rd.f.field, w.f.strct, w.f.field)
			k := Abstract(FuncName(rd.fn)) + "|" + key
			if seen[k] {
				continue
			}
			seen[k] = true
			if w.f == rd.f {
				r.Pass("PERM-AGREE", FuncPkg(rd.fn).Path(), FuncName(rd.fn), key, p.Pos(rd.pos), "rows of "+rd.owner+" are permuted with and read back through the same permutation field", true)
			} else {
				r.Fail("PERM-AGREE", FuncPkg(rd.fn).Path(), FuncName(rd.fn), key, p.Pos(rd.pos), fmt.Sprintf("rows of %s are permuted in place with %s (element i moves to index %s[i], %s) but read back through its inverse %s: the values returned for instance i are those of another instance whenever the instance order is not an involution", rd.owner, w.f.field, w.f.field, p.Pos(w.pos), rd.f.field))
			}
		}
	}
	if len(seen) == 0 {
		r.Fail("UNRESOLVED", "-", "-", "perm-agree", "-", "no reader of permuted rows could be matched with its writer")
	}
}

func init() {
	devHooks["permagree"] = func(p *Prog, fnPat, untr string) int {
		r := NewReport("DEV", "quick", 0)
		RunPermAgree(p, r)
		for _, o := range r.Obls {
			fmt.Printf("%v %s | %s | %s | %s\n", o.OK, o.Pos, strings.TrimPrefix(o.Func, modPath+"/"), o.Key, o.Detail)
		}
		return 0
	}
}
