package main

// PERM-CYCLE (C02): the PLONK copy constraints exist only through the wiring permutation that Setup commits to.
// buildPermutation chains, per variable, all 3n positions (L, R, O rows, public placeholders and padding
// included) into one cycle with a "last position seen" table. Structural necessary conditions, per curve:
//   * every entry stored into the permutation that ends up in trace.S is the initial marker (a constant) or a
//     value loaded from the last-seen table — never the position itself or anything else (a fixed point drops the
//     copy constraints of that position);
//   * in its loop, the update of the last-seen table runs in every iteration (no position is skipped);
//   * the position -> variable table receives the three wires XA, XB, XC of every constraint, in every iteration of
//     the constraint loop.

import (
	"fmt"
	"go/token"
	"go/types"
	"sort"
	"strings"

	"golang.org/x/tools/go/ssa"
)

// sliceRoot follows slices / phis back to the allocation (MakeSlice) of a local slice.
func sliceRoot(v ssa.Value, depth int) ssa.Value {
	for d := 0; d < 10; d++ {
		switch x := v.(type) {
		case *ssa.Slice:
			v = x.X
			continue
		case *ssa.UnOp:
			if x.Op == token.MUL {
				if a, ok := x.X.(*ssa.Alloc); ok {
					if sv := singleStore(a); sv != nil {
						v = sv
						continue
					}
				}
			}
		}
		break
	}
	return v
}

// mustRunInLoop: the block b lies in a natural loop and every path from the loop header round to a back edge passes b.
func mustRunInLoop(b *ssa.BasicBlock) (inLoop bool, always bool) {
	fn := b.Parent()
	// innermost loop header: the closest dominator h of b such that some block t with edge t->h is reachable from b
	for h := b; h != nil; h = h.Idom() {
		var latches []*ssa.BasicBlock
		for _, p := range h.Preds {
			if h.Dominates(p) {
				latches = append(latches, p)
			}
		}
		if len(latches) == 0 {
			continue
		}
		// b belongs to the natural loop of h iff it reaches a latch without passing h
		fromB := reach(b, func(from, to *ssa.BasicBlock) bool { return to == h || from == h })
		ok := b == h
		for _, t := range latches {
			if fromB[t] || t == b {
				ok = true
			}
		}
		if !ok {
			continue
		}
		// from the header, without passing b, can a latch be reached (staying among blocks dominated by h)?
		seen := map[*ssa.BasicBlock]bool{}
		stack := []*ssa.BasicBlock{h}
		if h == b {
			return true, true
		}
		for len(stack) > 0 {
			x := stack[len(stack)-1]
			stack = stack[:len(stack)-1]
			if seen[x] || x == b {
				continue
			}
			seen[x] = true
			for _, s := range x.Succs {
				if s == h {
					// back edge taken without b
					return true, false
				}
				if h.Dominates(s) {
					stack = append(stack, s)
				}
			}
		}
		_ = fn
		return true, true
	}
	return false, false
}

func RunPermCycle(p *Prog, r *Report) {
	const rule = "PERM-CYCLE"
	fns := p.FuncsMatching("github.com/consensys/gnark/backend/plonk/<curve>.buildPermutation")
	if len(fns) < 7 {
		r.Fail("UNRESOLVED", "-", "-", "plonk.buildPermutation", "-", fmt.Sprintf("%d instances, confirmed 7", len(fns)))
	}
	for _, fn := range fns {
		pkg := FuncPkg(fn).Path()
		pos := p.Pos(FuncPos(fn))
		// the permutation: value stored into a field named S
		var perm ssa.Value
		for _, b := range fn.Blocks {
			for _, ins := range b.Instrs {
				st, ok := ins.(*ssa.Store)
				if !ok {
					continue
				}
				fa, ok := st.Addr.(*ssa.FieldAddr)
				if !ok || fieldName(fa.X.Type(), fa.Field) != "S" {
					continue
				}
				perm = sliceRoot(st.Val, 0)
			}
		}
		if perm == nil {
			r.Fail("UNRESOLVED", pkg, FuncName(fn), "trace.S", pos, "no store of the permutation into the trace found")
			continue
		}
		// stores into perm
		var bad []string
		tables := map[ssa.Value]bool{}
		nstores := 0
		var classify func(v ssa.Value, d int) string
		classify = func(v ssa.Value, d int) string {
			if d > 6 {
				return "other"
			}
			switch x := v.(type) {
			case *ssa.Const:
				return "const"
			case *ssa.Phi:
				res := ""
				for _, e := range x.Edges {
					c := classify(e, d+1)
					if c == "other" {
						return "other"
					}
					if c == "table" {
						res = "table"
					} else if res == "" {
						res = c
					}
				}
				return res
			case *ssa.UnOp:
				if x.Op == token.MUL {
					if ia, ok := x.X.(*ssa.IndexAddr); ok {
						root := sliceRoot(ia.X, 0)
						if root != perm {
							if _, isMake := root.(*ssa.MakeSlice); isMake {
								tables[root] = true
								return "table"
							}
						}
					}
				}
			}
			return "other"
		}
		for _, b := range fn.Blocks {
			for _, ins := range b.Instrs {
				st, ok := ins.(*ssa.Store)
				if !ok {
					continue
				}
				ia, ok := st.Addr.(*ssa.IndexAddr)
				if !ok || sliceRoot(ia.X, 0) != perm {
					continue
				}
				nstores++
				if c := classify(st.Val, 0); c == "other" {
					bad = append(bad, fmt.Sprintf("%s: entry set to %s", p.Pos(st.Pos()), Desc(st.Val)))
				}
			}
		}
		key := "entries-from-cycle-table"
		switch {
		case nstores < 2 || len(tables) == 0:
			r.Fail("UNRESOLVED", pkg, FuncName(fn), key, pos, fmt.Sprintf("%d stores into the permutation, %d last-seen tables found", nstores, len(tables)))
			continue
		case len(bad) > 0:
			sort.Strings(bad)
			r.Fail(rule, pkg, FuncName(fn), key, pos, "an entry of the wiring permutation is not taken from the last-seen table of its variable (such a position is a fixed point: its copy constraints are not in the key): "+strings.Join(bad, "; "))
		case len(tables) > 1:
			r.Fail(rule, pkg, FuncName(fn), key, pos, "permutation entries are taken from more than one table")
		default:
			r.Pass(rule, pkg, FuncName(fn), key, pos, fmt.Sprintf("%d stores into the permutation: constants or loads from the one last-seen table", nstores), true)
		}
		// updates of the last-seen table with a non-constant value run in every iteration
		var table ssa.Value
		for t := range tables {
			table = t
		}
		nupd := 0
		okAll := true
		var where string
		for _, b := range fn.Blocks {
			for _, ins := range b.Instrs {
				st, ok := ins.(*ssa.Store)
				if !ok {
					continue
				}
				ia, ok := st.Addr.(*ssa.IndexAddr)
				if !ok || sliceRoot(ia.X, 0) != table {
					continue
				}
				if _, isC := st.Val.(*ssa.Const); isC {
					continue
				}
				nupd++
				in, always := mustRunInLoop(b)
				if !in || !always {
					okAll = false
					where = p.Pos(st.Pos())
				}
			}
		}
		key = "every-position-chained"
		if nupd == 0 {
			r.Fail(rule, pkg, FuncName(fn), key, pos, "the last-seen table is never updated with a position")
		} else if !okAll {
			r.Fail(rule, pkg, FuncName(fn), key, where, "the update of the last-seen table can be skipped in an iteration: the skipped position is chained to nothing")
		} else {
			r.Pass(rule, pkg, FuncName(fn), key, pos, fmt.Sprintf("%d update(s) of the last-seen table, each on every path through its loop", nupd), true)
		}
		// position -> variable table: XA, XB, XC of every constraint
		got := map[string]bool{}
		skipped := ""
		for _, b := range fn.Blocks {
			for _, ins := range b.Instrs {
				st, ok := ins.(*ssa.Store)
				if !ok {
					continue
				}
				if _, ok := st.Addr.(*ssa.IndexAddr); !ok {
					continue
				}
				// value derives from a field XA / XB / XC
				v := st.Val
				for d := 0; d < 4; d++ {
					if cv, ok := v.(*ssa.Convert); ok {
						v = cv.X
						continue
					}
					break
				}
				ld, ok := v.(*ssa.UnOp)
				if !ok || ld.Op != token.MUL {
					continue
				}
				fa, ok := ld.X.(*ssa.FieldAddr)
				if !ok {
					continue
				}
				if _, isStruct := deref(fa.X.Type()).Underlying().(*types.Struct); !isStruct {
					continue
				}
				name := fieldName(fa.X.Type(), fa.Field)
				if name != "XA" && name != "XB" && name != "XC" {
					continue
				}
				got[name] = true
				if in, always := mustRunInLoop(b); !in || !always {
					skipped = name + " at " + p.Pos(st.Pos())
				}
			}
		}
		key = "all-three-wires-of-every-constraint"
		if len(got) == 0 {
			// the position table is filled elsewhere (moved into the trace construction): not evaluated here
			r.Add(&Obligation{Rule: rule, Pkg: pkg, Func: FuncName(fn), Key: key, Pos: pos, OK: true, Info: true, Detail: "no wire of a constraint is entered into a table in this function (position table built elsewhere): not evaluated"})
		} else if !(got["XA"] && got["XB"] && got["XC"]) {
			r.Fail(rule, pkg, FuncName(fn), key, pos, fmt.Sprintf("the position table does not receive all of XA, XB, XC of a constraint (found %v)", got))
		} else if skipped != "" {
			r.Fail(rule, pkg, FuncName(fn), key, pos, "a wire of a constraint is entered into the position table only on some iterations: "+skipped)
		} else {
			r.Pass(rule, pkg, FuncName(fn), key, pos, "XA, XB, XC of every constraint are entered, unconditionally, in the constraint loop", true)
		}
	}
}
