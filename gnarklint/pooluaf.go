package main

import (
	"fmt"
	"go/token"
	"go/types"
	"sort"
	"strings"

	"golang.org/x/tools/go/ssa"
)

// POOL-UAF (C10, C11): ownership of pooled memory. An object handed back to a shared pool (sync.Pool.Put, the
// gnark-crypto big.Int pool, the polynomial memory pool's Dump, and module wrappers such as putBuffer) may be
// given to another goroutine at once. The rule takes every release call and requires that the released value and
// the values that alias it (the slice loaded through a released *[]T, sub-slices, element pointers)
//   (a) are not used on any path after a non-deferred release (a path that re-executes the definition of the value,
//       as in a loop, yields a new object and is not counted), and
//   (b) do not escape the releasing function: not returned, not stored into memory that outlives the call, not sent
//       on a channel — for deferred and plain releases alike — and are not handed to a callee that retains its
//       parameter (one level, module callees: stores it into non-local memory or sends it).
// Otherwise two compilations / solves running concurrently can observe each other's data, which breaks both the
// schedule-independence of solving (C10) and the determinism of compilation (C11).

func isPoolRelease(cal *ssa.Function) bool {
	if cal == nil || cal.Signature.Recv() == nil {
		return false
	}
	n := funcBaseName(cal)
	if n != "Put" && n != "Dump" {
		return false
	}
	return strings.Contains(strings.ToLower(namedName(cal.Signature.Recv().Type())), "pool")
}

type poolEngine struct {
	p        *Prog
	wrappers map[*ssa.Function][]int // module function -> parameter indices it releases
	retains  map[*ssa.Function]map[int]bool
}

func newPoolEngine(p *Prog) *poolEngine {
	e := &poolEngine{p: p, wrappers: map[*ssa.Function][]int{}, retains: map[*ssa.Function]map[int]bool{}}
	for _, fn := range p.Funcs {
		if fn.Blocks == nil {
			continue
		}
		for _, b := range fn.Blocks {
			for _, ins := range b.Instrs {
				c, ok := ins.(ssa.CallInstruction)
				if !ok || !isPoolRelease(c.Common().StaticCallee()) {
					continue
				}
				for _, a := range c.Common().Args[1:] {
					if pm, ok := unwrapIface(a).(*ssa.Parameter); ok {
						for i, q := range fn.Params {
							if q == pm {
								e.wrappers[fn] = append(e.wrappers[fn], i)
							}
						}
					}
				}
			}
		}
	}
	return e
}

// releasedRoots: the values released by call instruction c (nil if c is not a release).
func (e *poolEngine) releasedRoots(c ssa.CallInstruction) []ssa.Value {
	cc := c.Common()
	cal := cc.StaticCallee()
	if cal == nil {
		return nil
	}
	var args []ssa.Value
	if isPoolRelease(cal) {
		args = cc.Args[1:]
	} else if idx, ok := e.wrappers[cal]; ok {
		for _, i := range idx {
			if i < len(cc.Args) {
				args = append(args, cc.Args[i])
			}
		}
	} else {
		return nil
	}
	var out []ssa.Value
	for _, a := range args {
		a = unwrapIface(a)
		// variadic pack: slice of a fresh array whose cells were stored individually
		if sl, ok := a.(*ssa.Slice); ok {
			if al, ok := sl.X.(*ssa.Alloc); ok {
				for _, r := range *al.Referrers() {
					if ia, ok := r.(*ssa.IndexAddr); ok {
						for _, rr := range *ia.Referrers() {
							if st, ok := rr.(*ssa.Store); ok && st.Addr == ia {
								out = append(out, unwrapIface(st.Val))
							}
						}
					}
				}
				continue
			}
		}
		if c, ok := a.(*ssa.Const); ok && c.IsNil() {
			continue
		}
		out = append(out, a)
	}
	return out
}

func unwrapIface(v ssa.Value) ssa.Value {
	for {
		switch x := v.(type) {
		case *ssa.MakeInterface:
			v = x.X
		case *ssa.ChangeInterface:
			v = x.X
		default:
			return v
		}
	}
}

// aliases: root plus values that denote (parts of) the same memory.
func aliases(root ssa.Value) map[ssa.Value]bool {
	set := map[ssa.Value]bool{root: true}
	work := []ssa.Value{root}
	for len(work) > 0 {
		v := work[len(work)-1]
		work = work[:len(work)-1]
		refs := v.Referrers()
		if refs == nil {
			continue
		}
		for _, r := range *refs {
			var nv ssa.Value
			switch x := r.(type) {
			case *ssa.UnOp:
				// load through a released pointer-to-slice / pointer-to-struct containing reference data
				if x.Op == token.MUL && x.X == v {
					if pt, ok := v.Type().Underlying().(*types.Pointer); ok {
						switch pt.Elem().Underlying().(type) {
						case *types.Slice, *types.Map, *types.Pointer:
							nv = x
						}
					}
				}
			case *ssa.Slice:
				if x.X == v {
					nv = x
				}
			case *ssa.IndexAddr:
				if x.X == v {
					nv = x
				}
			case *ssa.FieldAddr:
				if x.X == v {
					nv = x
				}
			case *ssa.ChangeType:
				nv = x
			case *ssa.Phi:
				nv = x
			case *ssa.Store:
				// spilled into a local cell (named / defer-spilled result, captured variable): its loads alias too
				if al, ok := x.Addr.(*ssa.Alloc); ok && x.Val == v {
					for _, lr := range *al.Referrers() {
						if u, ok := lr.(*ssa.UnOp); ok && u.Op == token.MUL && !set[u] {
							set[u] = true
							work = append(work, u)
						}
					}
				}
			}
			if nv != nil && !set[nv] {
				set[nv] = true
				work = append(work, nv)
			}
		}
	}
	return set
}

func instrIndex(ins ssa.Instruction) int {
	for i, x := range ins.Block().Instrs {
		if x == ins {
			return i
		}
	}
	return -1
}

// usesAfter: instructions using a value of `al` that are reachable from `rel` without re-executing the definition
// of that value.
func usesAfter(rel ssa.Instruction, al map[ssa.Value]bool) []ssa.Instruction {
	var bad []ssa.Instruction
	for v := range al {
		def, _ := v.(ssa.Instruction) // nil for parameters / free vars
		type pos struct {
			b *ssa.BasicBlock
			i int
		}
		seen := map[*ssa.BasicBlock]bool{}
		work := []pos{{rel.Block(), instrIndex(rel) + 1}}
		for len(work) > 0 {
			p := work[len(work)-1]
			work = work[:len(work)-1]
			stop := false
			for i := p.i; i < len(p.b.Instrs); i++ {
				ins := p.b.Instrs[i]
				if def != nil && ins == def {
					stop = true
					break
				}
				if ins == rel {
					continue
				}
				if _, ok := ins.(*ssa.DebugRef); ok {
					continue
				}
				for _, op := range ins.Operands(nil) {
					if *op == v {
						// a phi merging the value is not a use of the memory
						if _, isPhi := ins.(*ssa.Phi); !isPhi {
							bad = append(bad, ins)
						}
					}
				}
			}
			if stop {
				continue
			}
			for _, s := range p.b.Succs {
				if !seen[s] {
					seen[s] = true
					work = append(work, pos{s, 0})
				}
			}
		}
	}
	sort.Slice(bad, func(i, j int) bool { return bad[i].Pos() < bad[j].Pos() })
	return bad
}

// retainsParam: fn stores parameter i (or a slice / element pointer of it) into non-local memory or sends it.
func (e *poolEngine) retainsParam(fn *ssa.Function, i int) bool {
	if m, ok := e.retains[fn]; ok {
		if v, ok := m[i]; ok {
			return v
		}
	} else {
		e.retains[fn] = map[int]bool{}
	}
	e.retains[fn][i] = false
	res := false
	if fn.Blocks != nil && i < len(fn.Params) {
		for _, x := range escapes(aliases(fn.Params[i]), nil) {
			if _, isRet := x.(*ssa.Return); !isRet { // returning the argument (fluent style) is not retention
				res = true
			}
		}
	}
	e.retains[fn][i] = res
	return res
}

func localAddr(a ssa.Value) bool {
	for d := 0; d < 8; d++ {
		switch x := a.(type) {
		case *ssa.Alloc:
			return true
		case *ssa.IndexAddr:
			a = x.X
		case *ssa.FieldAddr:
			a = x.X
		case *ssa.MakeSlice:
			return true
		case *ssa.Slice:
			a = x.X
		case *ssa.UnOp:
			if x.Op != token.MUL {
				return false
			}
			// load of a local cell holding a slice/pointer that was itself made locally
			if al, ok := x.X.(*ssa.Alloc); ok {
				if sv := singleStore(al); sv != nil {
					a = sv
					continue
				}
			}
			return false
		default:
			return false
		}
	}
	return false
}

// escapes: instructions through which a value of the alias set leaves the function.
func escapes(al map[ssa.Value]bool, pe *poolEngine) []ssa.Instruction {
	var out []ssa.Instruction
	for v := range al {
		refs := v.Referrers()
		if refs == nil {
			continue
		}
		for _, r := range *refs {
			switch x := r.(type) {
			case *ssa.Return:
				out = append(out, x)
			case *ssa.Store:
				if x.Val == v && !localAddr(x.Addr) {
					out = append(out, x)
				}
			case *ssa.Send:
				if x.X == v {
					out = append(out, x)
				}
			case *ssa.MapUpdate:
				if x.Value == v || x.Key == v {
					out = append(out, x)
				}
			case ssa.CallInstruction:
				if pe == nil {
					continue
				}
				cal := x.Common().StaticCallee()
				if cal == nil || FuncPkg(cal) == nil || !strings.HasPrefix(FuncPkg(cal).Path(), modPath+"/") {
					continue
				}
				for i, a := range x.Common().Args {
					if a == v && pe.retainsParam(cal, i) {
						out = append(out, x)
					}
				}
			}
		}
	}
	sort.Slice(out, func(i, j int) bool { return out[i].Pos() < out[j].Pos() })
	return out
}

func RunPoolUAF(p *Prog, r *Report, scope func(pkg string) bool) {
	e := newPoolEngine(p)
	n := 0
	var fns []*ssa.Function
	for _, fn := range p.Funcs {
		pk := FuncPkg(fn)
		if pk == nil || fn.Blocks == nil || fn.Synthetic != "" || !scope(pk.Path()) {
			continue
		}
		fns = append(fns, fn)
	}
	sort.Slice(fns, func(i, j int) bool { return FuncName(fns[i]) < FuncName(fns[j]) })
	for _, fn := range fns {
		ord := 0
		for _, b := range fn.Blocks {
			for _, ins := range b.Instrs {
				c, ok := ins.(ssa.CallInstruction)
				if !ok {
					continue
				}
				roots := e.releasedRoots(c)
				if len(roots) == 0 {
					continue
				}
				_, deferred := ins.(*ssa.Defer)
				for _, root := range roots {
					if _, isParam := root.(*ssa.Parameter); isParam && len(e.wrappers[fn]) > 0 {
						continue // the wrapper itself: its callers are checked
					}
					ord++
					n++
					top := fn
					for top.Parent() != nil {
						top = top.Parent()
					}
					key := fmt.Sprintf("release#%d:%s", ord, funcBaseName(c.Common().StaticCallee()))
					al := aliases(root)
					var probs []string
					if !deferred {
						for _, u := range usesAfter(ins, al) {
							probs = append(probs, "used after the release at "+p.Pos(u.Pos()))
						}
					}
					for _, x := range escapes(al, e) {
						what := "stored into memory that outlives the call"
						switch x.(type) {
						case *ssa.Return:
							what = "returned to the caller"
						case *ssa.Send:
							what = "sent on a channel"
						case ssa.CallInstruction:
							what = "handed to a callee that retains it"
						}
						probs = append(probs, what+" at "+p.Pos(x.Pos()))
					}
					if len(probs) == 0 {
						r.Pass("POOL-UAF", FuncPkg(fn).Path(), FuncName(fn), key, p.Pos(ins.Pos()), fmt.Sprintf("released object (%d aliasing values) is neither used after the release nor escapes the function", len(al)), true)
					} else {
						r.Fail("POOL-UAF", FuncPkg(fn).Path(), FuncName(fn), key, p.Pos(ins.Pos()), "object handed back to the shared pool is still reachable: "+strings.Join(probs, "; ")+" — a concurrent compile/solve may overwrite it")
					}
				}
			}
		}
	}
	r.Extra["pool_release_sites"] = n
}

// POOL-DOUBLE: an object must be handed back to a pool once. A release that a function defers runs on every
// return; if the same object (or an element of the same container) is also released in the body — typically on an
// error path — the pool then owns the object twice and hands it to two users at the same time.
func RunPoolDouble(p *Prog, r *Report, scope func(pkg string) bool) {
	const rule = "POOL-DOUBLE"
	e := newPoolEngine(p)
	canon := func(v ssa.Value) (ssa.Value, string) {
		kind := "value"
		for d := 0; d < 8; d++ {
			switch x := v.(type) {
			case *ssa.UnOp:
				if x.Op != token.MUL {
					return v, kind
				}
				switch a := x.X.(type) {
				case *ssa.IndexAddr:
					kind = "element"
					v = a.X
					continue
				case *ssa.Alloc:
					return a, kind
				case *ssa.FreeVar:
					if b := closureBinding(a); b != nil {
						return b, kind
					}
					return a, kind
				}
				return v, kind
			case *ssa.Slice:
				v = x.X
				continue
			}
			return v, kind
		}
		return v, kind
	}
	n := 0
	for _, fn := range p.Funcs {
		pk := FuncPkg(fn)
		if pk == nil || !scope(pk.Path()) || fn.Parent() != nil || len(fn.Blocks) == 0 {
			continue
		}
		if o := fn.Origin(); o != nil && o != fn {
			continue
		}
		deferredFns := map[*ssa.Function]bool{}
		type site struct {
			ins      ssa.Instruction
			deferred bool
		}
		keys := map[ssa.Value][]site{}
		var scan func(f *ssa.Function, deferred bool)
		scan = func(f *ssa.Function, deferred bool) {
			for _, b := range f.Blocks {
				for _, ins := range b.Instrs {
					if df, ok := ins.(*ssa.Defer); ok {
						if mc, ok := df.Call.Value.(*ssa.MakeClosure); ok {
							if af, ok := mc.Fn.(*ssa.Function); ok {
								deferredFns[af] = true
							}
						}
					}
					c, ok := ins.(ssa.CallInstruction)
					if !ok {
						continue
					}
					_, isDefer := ins.(*ssa.Defer)
					for _, root := range e.releasedRoots(c) {
						k, _ := canon(root)
						keys[k] = append(keys[k], site{ins, deferred || isDefer})
					}
				}
			}
		}
		scan(fn, false)
		for _, af := range fn.AnonFuncs {
			scan(af, deferredFns[af])
		}
		for k, ss := range keys {
			var def, plain []site
			for _, s := range ss {
				if s.deferred {
					def = append(def, s)
				} else {
					plain = append(plain, s)
				}
			}
			if len(def) == 0 {
				continue
			}
			n++
			key := "released:" + Desc(k)
			if len(plain) > 0 {
				r.Fail(rule, pk.Path(), FuncName(fn), key, p.Pos(plain[0].ins.Pos()), fmt.Sprintf("released here and again by the release deferred at %s: after this path the pool holds the same object twice and hands it to two users (concurrent or later solves alias each other's temporaries)", p.Pos(def[0].ins.Pos())))
			} else {
				r.Pass(rule, pk.Path(), FuncName(fn), key, p.Pos(def[0].ins.Pos()), "released by a deferred call only", true)
			}
		}
	}
	r.Pass(rule, "-", "-", "scan", "-", fmt.Sprintf("%d deferred releases examined", n), false)
}
