package main

import (
	"fmt"
	"go/token"
	"go/types"
	"sort"
	"strings"

	"golang.org/x/tools/go/ssa"
)

// PRED-AGREE (C16): a gadget type that offers both a predicate `IsX(args) Variable` and an assertion `AssertIsX(args)`
// states the same mathematical condition twice. The rule extracts from both the *atoms* of the condition — the leaf
// comparisons (IsEqual / AssertIsEqual, IsZero / AssertIsZero-like, nested IsY / AssertIsY) with canonical
// descriptors of their operands (parameter-rooted expression trees, callee names case-folded, receivers dropped,
// pure delegation inlined) — and requires the two atom sets to be equal. A predicate that compares a different pair
// of values than its assertion accepts / rejects different inputs than the assertion (and than the native library).

type predAtom struct {
	kind string
	args []string
}

// splitTopArgs splits "f(a,b)" style argument text at top-level commas.
func splitTopArgs(s string) []string {
	var out []string
	depth, start := 0, 0
	for i, c := range s {
		switch c {
		case '(', '[':
			depth++
		case ')', ']':
			depth--
		case ',':
			if depth == 0 {
				out = append(out, s[start:i])
				start = i + 1
			}
		}
	}
	return append(out, s[start:])
}

// normalise: zero(sub(x,y)) is equal(x,y); zero(sub(x,y).F) is equal(x.F, y.F) (subtraction in the tower fields is
// component-wise); an empty variadic tail (nil) is dropped.
func (a predAtom) normalise() predAtom {
	if a.kind == "zero" && len(a.args) == 1 && strings.HasPrefix(a.args[0], "sub(") {
		t := a.args[0]
		// find the parenthesis closing "sub("
		depth, end := 0, -1
		for i, c := range t {
			if c == '(' {
				depth++
			} else if c == ')' {
				depth--
				if depth == 0 {
					end = i
					break
				}
			}
		}
		if end > 0 {
			path := t[end+1:]
			if path == "" || strings.HasPrefix(path, ".") {
				in := splitTopArgs(t[4:end])
				if len(in) == 3 && in[2] == "nil" {
					in = in[:2]
				}
				if len(in) == 2 {
					return predAtom{kind: "equal", args: []string{in[0] + path, in[1] + path}}
				}
			}
		}
	}
	return a
}

func (a predAtom) String() string {
	a = a.normalise()
	as := append([]string{}, a.args...)
	if a.kind == "equal" {
		sort.Strings(as)
	}
	return a.kind + "(" + strings.Join(as, ", ") + ")"
}

func atomKind(name string) string {
	n := name
	n = strings.TrimPrefix(n, "Assert")
	n = strings.TrimPrefix(n, "assert")
	n = strings.TrimPrefix(n, "Is")
	n = strings.TrimPrefix(n, "is")
	return strings.ToLower(n)
}

type penv map[*ssa.Parameter]string

// exprTree: canonical descriptor of a value as an expression over the parameters of the outermost function; en maps
// the parameters of an inlined callee to the descriptors of the arguments it was called with.
func exprTree(v ssa.Value, en penv, d int) string {
	if d > 14 {
		return "…"
	}
	switch x := v.(type) {
	case *ssa.Parameter:
		if t, ok := en[x]; ok {
			return t
		}
		for i, q := range x.Parent().Params {
			if q == x {
				return fmt.Sprintf("$%d", i)
			}
		}
	case *ssa.Const:
		if x.Value == nil {
			return "nil"
		}
		return x.Value.ExactString()
	case *ssa.Call:
		name, args := callNameArgs(x, en)
		return strings.ToLower(name) + "(" + strings.Join(args, ",") + ")"
	case *ssa.Extract:
		return fmt.Sprintf("%s#%d", exprTree(x.Tuple, en, d+1), x.Index)
	case *ssa.UnOp:
		if x.Op == token.MUL {
			return exprTree(x.X, en, d+1)
		}
	case *ssa.FieldAddr:
		return exprTree(x.X, en, d+1) + "." + fieldName(x.X.Type(), x.Field)
	case *ssa.Field:
		return exprTree(x.X, en, d+1) + "." + fieldName(x.X.Type(), x.Field)
	case *ssa.Alloc:
		if sv := singleStore(x); sv != nil {
			return exprTree(sv, en, d+1)
		}
		return "local"
	case *ssa.MakeInterface:
		return exprTree(x.X, en, d+1)
	case *ssa.ChangeType:
		return exprTree(x.X, en, d+1)
	case *ssa.Convert:
		return exprTree(x.X, en, d+1)
	case *ssa.IndexAddr:
		return exprTree(x.X, en, d+1) + "[" + exprTree(x.Index, en, d+1) + "]"
	}
	return "?"
}

// callNameArgs: callee base name and the descriptors of the data operands: the gadget object (anything rooted at the
// outermost receiver $0), API interfaces and an empty variadic tail are dropped.
func callNameArgs(c *ssa.Call, en penv) (string, []string) {
	name := "?"
	if cal := c.Call.StaticCallee(); cal != nil {
		name = funcBaseName(cal)
	} else if c.Call.IsInvoke() {
		name = c.Call.Method.Name()
	}
	var out []string
	for _, a := range c.Call.Args {
		if _, isIface := a.Type().Underlying().(*types.Interface); isIface && !isVariableLike(a.Type()) {
			continue
		}
		t := exprTree(a, en, 1)
		if t == "$0" || strings.HasPrefix(t, "$0.") || t == "nil" {
			continue
		}
		out = append(out, t)
	}
	return name, out
}

func inPredArea(fn *ssa.Function) bool {
	pk := FuncPkg(fn)
	return pk != nil && fn.Blocks != nil && pkgScope(flowAreas["C16"]...)(pk.Path())
}

func bindEnv(c *ssa.Call, cal *ssa.Function, en penv) penv {
	e2 := penv{}
	for i, pm := range cal.Params {
		if i < len(c.Call.Args) {
			e2[pm] = exprTree(c.Call.Args[i], en, 1)
		}
	}
	return e2
}

// assertAtoms: the leaf assertions (calls named AssertIs*) executed by fn, nested assertion methods of the area
// expanded with their arguments substituted.
func assertAtoms(fn *ssa.Function, en penv, depth int) []predAtom {
	var out []predAtom
	for _, b := range fn.Blocks {
		for _, ins := range b.Instrs {
			c, ok := ins.(*ssa.Call)
			if !ok {
				continue
			}
			name, args := callNameArgs(c, en)
			if !strings.HasPrefix(strings.ToLower(name), "assertis") {
				continue
			}
			if cal := c.Call.StaticCallee(); cal != nil && inPredArea(cal) && depth < 5 {
				if sub := assertAtoms(cal, bindEnv(c, cal, en), depth+1); len(sub) > 0 {
					out = append(out, sub...)
					continue
				}
			}
			out = append(out, predAtom{kind: atomKind(name), args: args})
		}
	}
	return out
}

// predAtoms: the leaf Is* calls whose results reach the returned value through And / Mul, nested predicates of the
// area expanded. ok=false when the result is not such a conjunction.
func predAtoms(fn *ssa.Function, en penv, depth int) ([]predAtom, bool) {
	var out []predAtom
	ok := true
	seen := map[ssa.Value]bool{}
	var walk func(v ssa.Value)
	walk = func(v ssa.Value) {
		if seen[v] {
			return
		}
		seen[v] = true
		switch x := v.(type) {
		case *ssa.Call:
			name, args := callNameArgs(x, en)
			switch {
			case name == "And" || name == "Mul":
				for _, a := range x.Call.Args {
					if isVariableLike(a.Type()) {
						walk(a)
					} else if sl, isSl := a.(*ssa.Slice); isSl {
						// variadic pack
						if al, ok2 := sl.X.(*ssa.Alloc); ok2 {
							for _, r := range *al.Referrers() {
								if ia, ok3 := r.(*ssa.IndexAddr); ok3 {
									for _, rr := range *ia.Referrers() {
										if st, ok4 := rr.(*ssa.Store); ok4 && st.Addr == ia {
											walk(st.Val)
										}
									}
								}
							}
						}
					}
				}
			case strings.HasPrefix(name, "Is") || strings.HasPrefix(name, "is"):
				if cal := x.Call.StaticCallee(); cal != nil && inPredArea(cal) && depth < 5 {
					if sub, sok := predAtoms(cal, bindEnv(x, cal, en), depth+1); sok && len(sub) > 0 {
						out = append(out, sub...)
						return
					}
				}
				out = append(out, predAtom{kind: atomKind(name), args: args})
			default:
				ok = false
			}
		case *ssa.MakeInterface:
			walk(x.X)
		case *ssa.ChangeType:
			walk(x.X)
		case *ssa.UnOp:
			walk(x.X)
		case *ssa.Alloc:
			if sv := singleStore(x); sv != nil {
				walk(sv)
			} else {
				ok = false
			}
		case *ssa.Const:
			// And(..., 1) style neutral elements
		default:
			ok = false
		}
	}
	for _, b := range fn.Blocks {
		if ret, isRet := lastInstr(b).(*ssa.Return); isRet {
			for _, rv := range ret.Results {
				walk(rv)
			}
		}
	}
	return out, ok
}

func atomSet(as []predAtom) []string {
	m := map[string]bool{}
	for _, a := range as {
		m[a.String()] = true
	}
	var out []string
	for k := range m {
		out = append(out, k)
	}
	sort.Strings(out)
	return out
}

func RunPredAgree(p *Prog, r *Report, scope func(string) bool) {
	type key struct{ pkg, recv, name string }
	preds := map[key]*ssa.Function{}
	asserts := map[key]*ssa.Function{}
	for _, fn := range p.Funcs {
		pk := FuncPkg(fn)
		if pk == nil || fn.Blocks == nil || fn.Parent() != nil || fn.Synthetic != "" || !scope(pk.Path()) || fn.Signature.Recv() == nil {
			continue
		}
		if fn.TypeParams().Len() > 0 && len(fn.TypeArgs()) == 0 {
			continue // generic origin: the instances are analysed
		}
		n := funcBaseName(fn)
		k := key{pk.Path(), namedName(fn.Signature.Recv().Type()), ""}
		switch {
		case isAssertName(n):
			k.name = strings.TrimPrefix(n, "AssertIs")
			if asserts[k] == nil {
				asserts[k] = fn
			}
		case isPredName(n) && fn.Signature.Results().Len() == 1:
			k.name = strings.TrimPrefix(n, "Is")
			if preds[k] == nil {
				preds[k] = fn
			}
		}
	}
	var ks []key
	for k := range preds {
		if asserts[k] != nil {
			ks = append(ks, k)
		}
	}
	sort.Slice(ks, func(i, j int) bool {
		return ks[i].pkg+ks[i].recv+ks[i].name < ks[j].pkg+ks[j].recv+ks[j].name
	})
	n := 0
	for _, k := range ks {
		pf, af := preds[k], asserts[k]
		pa, ok := predAtoms(pf, penv{}, 0)
		aa := assertAtoms(af, penv{}, 0)
		if !ok || len(pa) == 0 || len(aa) == 0 {
			r.Add(&Obligation{Rule: "PRED-AGREE", Pkg: k.pkg, Func: FuncName(pf), Key: "pair:" + k.recv + ".Is" + k.name, Pos: p.Pos(FuncPos(pf)), OK: true, Info: true, Detail: "predicate or assertion is not a plain conjunction of leaf comparisons: not compared"})
			continue
		}
		ps, as := atomSet(pa), atomSet(aa)
		n++
		if strings.Join(ps, ";") == strings.Join(as, ";") {
			r.Pass("PRED-AGREE", k.pkg, FuncName(pf), "pair:"+k.recv+".Is"+k.name, p.Pos(FuncPos(pf)), "predicate and assertion test the same atoms: "+strings.Join(ps, " ∧ "), true)
		} else {
			r.Fail("PRED-AGREE", k.pkg, FuncName(pf), "pair:"+k.recv+".Is"+k.name, p.Pos(FuncPos(pf)), fmt.Sprintf("Is%s tests %s but AssertIs%s (%s) asserts %s: the predicate and the assertion accept different inputs", k.name, strings.Join(ps, " ∧ "), k.name, p.Pos(FuncPos(af)), strings.Join(as, " ∧ ")))
		}
	}
	r.Extra["pred_assert_pairs_compared"] = n
}

func init() {
	devHooks["predagree"] = func(p *Prog, fnPat, untr string) int {
		r := NewReport("DEV", "quick", 0)
		RunPredAgree(p, r, pkgScope(flowAreas["C16"]...))
		for _, o := range r.Obls {
			fmt.Printf("%v info=%v %s | %s | %s | %s\n", o.OK, o.Info, o.Pos, strings.TrimPrefix(o.Func, modPath+"/"), o.Key, o.Detail)
		}
		return 0
	}
}

func isPredName(n string) bool   { return strings.HasPrefix(n, "Is") && len(n) > 2 }
func isAssertName(n string) bool { return strings.HasPrefix(n, "AssertIs") && len(n) > 8 }
