package main

import (
	"fmt"
	"strings"

	"golang.org/x/tools/go/ssa"
)

func codecScope(pkg string) bool {
	rel := strings.TrimPrefix(pkg, modPath+"/")
	return strings.HasPrefix(rel, "backend/groth16/") || strings.HasPrefix(rel, "backend/plonk/") || rel == "backend/witness" || strings.HasPrefix(rel, "constraint")
}

func init() {
	register("C09", []string{"./backend/...", "./constraint/...", "./io/..."}, func(p *Prog, r *Report) {
		r.Engines = []string{"codec(CODEC-SEQ,CODEC-FIELDS,CODEC-PRECOMPUTE)", "gate(GATE-CODEC)", "sibling"}
		r.Explanation = "Static comparison of writers and readers. Decided: (CODEC-SEQ) for every type with a writer (WriteTo / WriteRawTo / writeTo / WriteDump) and a reader (ReadFrom / UnsafeReadFrom / readFrom / ReadDump) in the Groth16, PLONK, MPC-setup, witness and constraint packages, the ordered sequence of encoded items (receiver field paths, nested objects, length locals) equals the ordered sequence of decoded items, field by field; (CODEC-FIELDS) every field of the struct is written, written through a derived value, or listed as recomputed on decode; (CODEC-PRECOMPUTE) every successful return of the Groth16 verifying-key decoder passes Precompute(), unconditionally; (CODEC-CBOR) the CBOR decoder of constraint systems sets its element limits to the maximum (the encoder has none) and the encoder is the deterministic core mode; (CODEC-EXACT) no decoder wraps the io.Reader it was given in a read-ahead reader (bufio, io.ReadAll), so the bytes consumed are exactly the reported count and objects can follow one another on a stream; (GATE-CODEC) the calldata codecs of the sparse gates agree; sibling agreement of the generated marshal files. NOT decided: byte-level behaviour of gnark-crypto encoders and CBOR (limits, canonical form), functional equivalence of decoded systems, byte counts."
		r.RuleText = "one obligation per writer/reader pair, per struct field, per decoder; nontrivial = sequences compared / field found in the encoded items"
		r.Assumptions = []string{"gnark-crypto Encoder.Encode / Decoder.Decode are symmetric per item type"}
		RunCodecSeq(p, r, codecScope)
		RunCodecPrecompute(p, r)
		RunCodecCBOR(p, r)
		RunCodecNoReadAhead(p, r, codecScope)
		RunGateBlueprints(p, r)
		RunSibling(p, r, "C09")
		r.RequireMin("CODEC-SEQ", 30)
		r.RequireMin("CODEC-PRECOMPUTE", 7)
	})
}

func init() {
	register("C07", []string{"./frontend/...", "./backend/witness/..."}, func(p *Prog, r *Report) {
		r.Engines = []string{"walk(WALK-ORDER,WALK-VIS,WALK-BALANCE)", "codec(CODEC-SEQ,CODEC-TYPESWITCH)", "effects(WIT-PURE)"}
		r.Explanation = "Static analysis of the schema walk and of the witness object. Decided: (WALK-ORDER) every function of frontend and backend/witness that enumerates leaves with visibility-filtering handlers (parseCircuit, NewWitness, ToJSON / FromJSON helpers) runs the public-filtered walk before the secret-filtered walk, through the single walker schema.Walk; (WALK-VIS) in (*walker).StructField the parent/child visibility conflict test exists and is evaluated after the field's own public/secret option has been applied; (WALK-BALANCE) the reflection walk specialised to the schema walker keeps the walker's path stack balanced: the callbacks that push a frame (found from the code: StructField, SliceElem, ArrayElem) push exactly when they return nil, Exit pops exactly for the matching locations, and in every traversal function every path through a loop iteration and to every non-error return pushes and pops equally often (optional-interface assertions folded for the walker type), so the name and inherited visibility of a leaf never come from a stale frame; (WIT-GLOBAL) the functions of frontend and frontend/schema update no package-level state (no schema or leaf cache shared between circuit values); (CODEC-SEQ) the witness binary writer and reader handle (nbPublic, nbSecret, vector) in the same order; (CODEC-TYPESWITCH) every type switch over the witness vector handles the same set of vector types, so no supported field reaches a panic default; (WIT-PURE) read accessors of the witness (Public, Vector, WriteTo, MarshalBinary, ToJSON, ...) never write the witness object, so their result cannot depend on the call history. NOT decided: index order of the reflection walk, behaviour on arbitrary struct shapes, value conversion and modular reduction, JSON round-trip values."
		r.RuleText = "one obligation per ordered-walk site, per type switch, per accessor; nontrivial = order / case set / purity established"
		r.Assumptions = []string{"schema.Walk visits leaves in declaration order (reflectwalk), shared by compile and witness paths"}
		RunWalkOrder(p, r)
		RunWalkVisibility(p, r)
		RunWalkBalance(p, r)
		RunWitnessPure(p, r)
		RunWitnessTypeSwitches(p, r)
		if de, err := newDetEngine(p); err == nil {
			// the schema / witness functions keep no package-level state (memo tables, caches): the binding of
			// values to variables must not depend on what was bound before
			scope := map[*ssa.Function]bool{}
			for _, fn := range p.Funcs {
				if pk := FuncPkg(fn); pk != nil {
					rel := strings.TrimPrefix(pk.Path(), modPath+"/")
					if rel == "frontend" || strings.HasPrefix(rel, "frontend/schema") {
						scope[fn] = true
					}
				}
			}
			de.RunGlobals(r, "WIT-GLOBAL", scope)
			r.Pass("WIT-GLOBAL", "-", "-", "scan", "-", fmt.Sprintf("%d functions of frontend and frontend/schema examined for package-level state", len(scope)), false)
		}
		RunCodecSeq(p, r, func(pkg string) bool { return pkg == modPath+"/backend/witness" })
		r.RequireMin("WALK-ORDER", 4)
		r.RequireMin("WALK-VIS", 1)
		r.RequireMin("WALK-BALANCE", 4)
		r.RequireMin("WIT-PURE", 5)
		r.RequireMin("CODEC-TYPESWITCH", 5)
	})
}

func init() {
	register("C20", []string{"./backend/groth16/...", "./backend/plonk/...", "./frontend/cs/r1cs/..."}, func(p *Prog, r *Report) {
		r.Engines = []string{"randflow(RAND-SOURCE,RAND-FLOW,RAND-MASK)", "flow(FLOW-REF on the Randomize hint)", "sibling"}
		r.Explanation = "Static provenance analysis of blinding (flow-insensitive backward slices over SSA, closures included). Decided: Groth16 — Prove draws two distinct random scalars with checked errors, proof.Ar and proof.Bs each depend on one of them (different ones) and proof.Krs on both; PLONK — getRandomPolynomial draws every coefficient, four random polynomials are stored as the blinding polynomials, the commitments of L, R, O and Z are computed together with their blinding polynomial, the BSB22 commitment polynomial receives two error-checked random entries, and under the statistical zero-knowledge option the two quotient-shard randomisers are written in place by SetRandom; r1cs Commit — every successful call creates its own Randomize mask wire (must-pass), and the mask reaches the committed set and a constraint (flow). Sibling agreement across the 7 curves. NOT decided: quality or independence of the randomness, that a blinded value is not later overwritten along some path (flow-insensitive), equality of proof elements across runs."
		r.RuleText = "one obligation per blinded element / randomness site per curve; nontrivial = a SetRandom call was found in the slice"
		r.Assumptions = []string{"(*fr.Element).SetRandom fills the receiver from crypto/rand (gnark-crypto)", "gnark-crypto value methods: receiver <- receiver U arguments"}
		RunRandGroth16(p, r)
		RunRandPlonk(p, r)
		RunRandCommitMask(p, r)
		RunSibling(p, r, "C20")
		r.RequireMin("RAND-FLOW", 7*4+14)
		r.RequireMin("RAND-SOURCE", 7*5)
		r.RequireMin("RAND-MASK", 1)
	})
}
