package main

import "strings"

func codecScope(pkg string) bool {
	rel := strings.TrimPrefix(pkg, modPath+"/")
	return strings.HasPrefix(rel, "backend/groth16/") || strings.HasPrefix(rel, "backend/plonk/") || rel == "backend/witness" || strings.HasPrefix(rel, "constraint")
}

func init() {
	register("C09", []string{"./backend/...", "./constraint/...", "./io/..."}, func(p *Prog, r *Report) {
		r.Engines = []string{"codec(CODEC-SEQ,CODEC-FIELDS,CODEC-PRECOMPUTE)", "gate(GATE-CODEC)", "sibling"}
		r.Explanation = "Static comparison of writers and readers. Decided: (CODEC-SEQ) for every type with a writer (WriteTo / WriteRawTo / writeTo / WriteDump) and a reader (ReadFrom / UnsafeReadFrom / readFrom / ReadDump) in the Groth16, PLONK, MPC-setup, witness and constraint packages, the ordered sequence of encoded items (receiver field paths, nested objects, length locals) equals the ordered sequence of decoded items, field by field; (CODEC-FIELDS) every field of the struct is written, written through a derived value, or listed as recomputed on decode; (CODEC-PRECOMPUTE) every successful return of the Groth16 verifying-key decoder passes Precompute(), unconditionally; (GATE-CODEC) the calldata codecs of the sparse gates agree; sibling agreement of the generated marshal files. NOT decided: byte-level behaviour of gnark-crypto encoders and CBOR (limits, canonical form), functional equivalence of decoded systems, byte counts."
		r.RuleText = "one obligation per writer/reader pair, per struct field, per decoder; nontrivial = sequences compared / field found in the encoded items"
		r.Assumptions = []string{"gnark-crypto Encoder.Encode / Decoder.Decode are symmetric per item type"}
		RunCodecSeq(p, r, codecScope)
		RunCodecPrecompute(p, r)
		RunGateBlueprints(p, r)
		RunSibling(p, r, "C09")
		r.RequireMin("CODEC-SEQ", 30)
		r.RequireMin("CODEC-PRECOMPUTE", 7)
	})
}
