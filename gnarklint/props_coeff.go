package main

import "strings"

func coeffScope(pkg string) bool {
	rel := strings.TrimPrefix(pkg, modPath+"/")
	return strings.HasPrefix(rel, "constraint") || strings.HasPrefix(rel, "backend/groth16") || strings.HasPrefix(rel, "frontend/cs")
}

func init() {
	register("C04", []string{"./constraint/...", "./frontend/...", "./backend/groth16/..."}, func(p *Prog, r *Report) {
		r.Engines = []string{"coeffid(COEFF-SWITCH,COEFF-TABLE)", "gate(GATE-SOLVE,GATE-CODEC)", "aliasflag(ARG-ALIAS)", "ordguard(ORDER-GUARD)", "memorules(MEMO-EMIT,MEMO-KEY)"}
		r.Explanation = "Narrow claim (DESIGN.md 4/C04). Decided by symbolic interpretation of the syntax tree: (COEFF-SWITCH) in every switch over a coefficient id (solver computeTerm / accumulateInto / divByCoeff in the 10 constraint packages, Groth16 setupABC.accumulate, mpcsetup Phase2.Initialize accumulateG1/G2) the effect of each special-id fast path (0, 1, 2, -1, -2) is identical, as a polynomial in the operand, the accumulator and the table coefficient, to the table path with the coefficient replaced by the value the id stands for; (COEFF-TABLE) the special slots of the compiler-side and solver-side coefficient tables hold exactly those values and AddCoeff maps each predicate to the matching id. A mismatch makes every circuit using that coefficient compute something else in the solver, the prover keys or the MPC keys. NOT decided: constant folding, expression merging, gate splitting, linear-expression compression, operand-kind independence (value-level; e.g. the known DivUnchecked(0,0) divergence) — these need execution or symbolic semantics of whole circuits. (GATE-SOLVE / GATE-CODEC) the Solve method of each specialised sparse gate (generic, mul, add, bool) accepts or assigns exactly what the gate decoded by DecompressSparseR1C — the gate the backend proves — states, so solving the compiled sparse system and the compiled constraint agree. (ARG-ALIAS) the alias-or-clone helper of the R1CS builder (mulConstant: works in place under a flag) is told to work in place only on builder-owned expressions — fresh wires, clones, builder buffers or, inductively, the running result of the same helper — in every calling context of the enclosing closure, so no API call rescales a variable the caller still holds."
		r.RuleText = "one obligation per (switch, special id) and per table slot / predicate; nontrivial = polynomial effects compared"
		r.Assumptions = []string{"gnark-crypto field element methods Add/Sub/Double/Neg/Mul/Div/Inverse/Set*/ScalarMultiplication have their arithmetic meaning"}
		RunCoeffSwitches(p, r, coeffScope)
		RunCoeffTables(p, r)
		// the specialised sparse gates the scs builder emits: what their Solve accepts / assigns is the gate the
		// backend sees (compile path and witness path agree)
		RunGateBlueprints(p, r)
		r.RequireMin("GATE-SOLVE", 7)
		RunArgAlias(p, r)
		RunOrderGuardBits(p, r, "tobinary")
		r.RequireMin("ORDER-GUARD", 1)
		RunMemoEmit(p, r)
		RunMemoKey(p, r)
		r.Explanation += " Also decided: (ORDER-GUARD) bits.toBinary compares a decomposition that covers the field with p-1 under every ordering of requested digits and field size; (MEMO-EMIT) on the not-found edge of every call that reserves a memo entry for the next instruction, every path adds an instruction before returning; (MEMO-KEY) the boolean table of the sparse builder is keyed by every field of the term."
		r.RequireMin("MEMO-EMIT", 3)
		r.RequireMin("MEMO-KEY", 1)
		r.RequireMin("ARG-ALIAS", 5)
		r.RequireMin("COEFF-SWITCH", 100)
		r.RequireMin("COEFF-TABLE", 40)
	})
}

func init() {
	register("C06", []string{"./constraint/..."}, func(p *Prog, r *Report) {
		r.Engines = []string{"gate(GATE-SOLVE,GATE-CODEC)", "coeffid(COEFF-SWITCH,COEFF-TABLE)", "solver(SOLVE-R1C, SOLVE-RUN)", "outdef(OUT-DEF)", "effects(EFF-RESET,EFF-DCL)", "sibling"}
		r.Explanation = "Static analysis of the solver. Decided: (GATE-SOLVE) for every accepting path of the Solve method of the four sparse-gate blueprints, the value assigned to the unsolved wire makes the gate polynomial qL·xa+qR·xb+qM·xa·xb+qO·xc+qC (wires and coefficients as Decompress defines them) vanish identically as a rational function, or the path tested exactly that polynomial for zero (symbolic interpretation of the syntax tree; the only exemption is the documented commitment-constraint skip); (GATE-CODEC) Compress / Decompress / CalldataSize of each gate agree word by word; (COEFF-SWITCH/TABLE) the special-coefficient fast paths of computeTerm / accumulateInto / divByCoeff in the 10 solver packages equal the table path; (SOLVE-R1C) in solveR1C every nil return passes either the a·b==c comparison or a computation of the single unsolved wire followed by solver.set, and (SOLVE-RUN) solver.run returns nil only after comparing the number of solved wires with the number of wires; (EFF-DCL) no solver-side method pre-checks outside its mutex a field it writes under it (the lookup-table cache is consulted by parallel workers); sibling agreement of the generated solver packages. (OUT-DEF) every Decompress* method of the blueprints assigns every field of the reused scratch object (R1C.L/R/O, every SparseR1C field, HintMapping.HintID/Inputs/OutputRange) on every path, so no term of the previously decoded instruction survives; (EFF-RESET) in (*system).Solve the stateful-blueprint Reset loop precedes solver.run on every path, so a failed solve cannot poison the next one; NOT decided: the level partition for arbitrary instruction mixes, results of hint functions, the R1C division formulas themselves (field arithmetic of wire = c/b - a), scheduling."
		r.RuleText = "one obligation per accepting path of each gate Solve, per calldata word, per (switch, id), per nil return of solveR1C/run; nontrivial = an identity or must-pass witness was checked"
		r.Assumptions = []string{"Solver interface methods GetValue(c,v)=coeff[c]*value[v], GetCoeff, Add, Sub, Mul, Neg, Inverse have their arithmetic meaning"}
		RunGateBlueprints(p, r)
		RunCoeffSwitches(p, r, func(pkg string) bool { return strings.HasPrefix(strings.TrimPrefix(pkg, modPath+"/"), "constraint") })
		RunCoeffTables(p, r)
		RunSolveR1C(p, r)
		RunDoubleChecked(p, r, func(pkg string) bool { return strings.HasPrefix(pkg, modPath+"/constraint") })
		RunSibling(p, r, "C06")
		RunOutDef(p, r)
		RunResetDef(p, r)
		r.Explanation += " (RESET-DEF) Reset assigns, on every path, every field that Solve writes on a stateful blueprint."
		r.RequireMin("RESET-DEF", 2)
		r.RequireMin("OUT-DEF", 20)
		if ee, err := newEffEngine(p, BuildCallGraph(p)); err != nil {
			r.Fail("UNRESOLVED", "-", "-", "rules", "-", err.Error())
		} else {
			ee.RunResetOrder(r)
			r.RequireMin("EFF-RESET", 7)
		}
		r.RequireMin("GATE-SOLVE", 7)
		r.RequireMin("GATE-CODEC", 15)
		r.RequireMin("COEFF-SWITCH", 80)
		r.RequireMin("SOLVE-R1C", 10)
	})
}
