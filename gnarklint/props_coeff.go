package main

import "strings"

func coeffScope(pkg string) bool {
	rel := strings.TrimPrefix(pkg, modPath+"/")
	return strings.HasPrefix(rel, "constraint") || strings.HasPrefix(rel, "backend/groth16") || strings.HasPrefix(rel, "frontend/cs")
}

func init() {
	register("C04", []string{"./constraint/...", "./frontend/...", "./backend/groth16/..."}, func(p *Prog, r *Report) {
		r.Engines = []string{"coeffid(COEFF-SWITCH,COEFF-TABLE)"}
		r.Explanation = "Narrow claim (DESIGN.md 4/C04). Decided by symbolic interpretation of the syntax tree: (COEFF-SWITCH) in every switch over a coefficient id (solver computeTerm / accumulateInto / divByCoeff in the 10 constraint packages, Groth16 setupABC.accumulate, mpcsetup Phase2.Initialize accumulateG1/G2) the effect of each special-id fast path (0, 1, 2, -1, -2) is identical, as a polynomial in the operand, the accumulator and the table coefficient, to the table path with the coefficient replaced by the value the id stands for; (COEFF-TABLE) the special slots of the compiler-side and solver-side coefficient tables hold exactly those values and AddCoeff maps each predicate to the matching id. A mismatch makes every circuit using that coefficient compute something else in the solver, the prover keys or the MPC keys. NOT decided: constant folding, expression merging, gate splitting, linear-expression compression, operand-kind independence (value-level; e.g. the known DivUnchecked(0,0) divergence) — these need execution or symbolic semantics of whole circuits."
		r.RuleText = "one obligation per (switch, special id) and per table slot / predicate; nontrivial = polynomial effects compared"
		r.Assumptions = []string{"gnark-crypto field element methods Add/Sub/Double/Neg/Mul/Div/Inverse/Set*/ScalarMultiplication have their arithmetic meaning"}
		RunCoeffSwitches(p, r, coeffScope)
		RunCoeffTables(p, r)
		r.RequireMin("COEFF-SWITCH", 100)
		r.RequireMin("COEFF-TABLE", 40)
	})
}
