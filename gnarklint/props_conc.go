package main

import "strings"

func init() {
	register("C10", []string{"./..."}, func(p *Prog, r *Report) {
		r.Engines = []string{"effects(EFF-SHARED,EFF-OPTSLICE,EFF-GLOBALREF,EFF-RESET,RESET-DEF,EFF-LOCK,EFF-DCL)", "pooluaf(POOL-UAF,POOL-DOUBLE)", "conc(CONC-CTX,CONC-CLOSE,CONC-DAG,CONC-SIGNAL)", "sibling"}
		r.Explanation = "Static effect and channel-protocol analysis. Decided: (EFF-SHARED) no function reachable (restricted call graph) from (*system).Solve, groth16/plonk Prove and Verify on any curve stores into an object of a shared type (constraint.System, per-curve system, coefficient table, any constraint.Blueprint implementation, proving/verifying keys, PLONK trace) that it did not allocate itself; (EFF-OPTSLICE) every append whose base derives from ProverConfig.SolverOpts works on a three-index slice with cap==len; (EFF-RESET) in Solve the stateful-blueprint Reset loop precedes solver.run on every path; (EFF-LOCK) lock-guarded package-level registries are accessed under their mutex; (EFF-DCL) no method pre-checks, outside the lock, a field that it writes under a mutex of the same object (double-checked locking); (POOL-UAF) every object handed back to a shared pool (big.Int pool, polynomial memory pool, sync.Pool) by solver / prover code is neither used after the release nor escapes the releasing function; the PLONK/Groth16 channel protocol rules of C03 (no wait can block forever). NOT decided: equality of results across schedules, caller-shared hash.Hash option values, races inside gnark-crypto."
		r.RuleText = "one obligation per function reachable from the entry points (no shared write) or per shared write / append / access site; nontrivial = a site needing a witness (capped slice, dominating lock, reviewed reason)"
		r.Assumptions = []string{"call graph: static callees + CHA on gnark-declared interfaces + signature-matched function values; foreign interface methods write only their receiver and arguments", "objects allocated inside the call (solver, PLONK instance, Proof in Prove) are recognised by allocation site"}
		cg := BuildCallGraph(p)
		ee, err := newEffEngine(p, cg)
		if err != nil {
			r.Fail("UNRESOLVED", "-", "-", "rules", "-", err.Error())
			return
		}
		ee.RunShared(r)
		RunPoolUAF(p, r, func(pk string) bool {
			rel := strings.TrimPrefix(pk, modPath+"/")
			return strings.HasPrefix(rel, "constraint") || strings.HasPrefix(rel, "backend") || strings.HasPrefix(rel, "internal/gkr") || strings.HasPrefix(rel, "internal/utils")
		})
		r.RequireMin("POOL-UAF", 20)
		RunPoolDouble(p, r, func(pk string) bool {
			rel := strings.TrimPrefix(pk, modPath+"/")
			return strings.HasPrefix(rel, "constraint") || strings.HasPrefix(rel, "backend") || strings.HasPrefix(rel, "internal/gkr") || strings.HasPrefix(rel, "internal/utils")
		})
		ee.RunOptSlice(r)
		ee.RunOptParam(r)
		ee.RunGlobalRef(r)
		r.Explanation += " Also decided: EFF-OPTSLICE covers appends to option slices received as (variadic) parameters (found F13, repaired); (EFF-GLOBALREF) a map or slice held in a package-level variable is handed out as a copy, never itself; (POOL-DOUBLE) no object is released both by a deferred and by a plain release; (RESET-DEF) Reset assigns every field that Solve writes on a stateful blueprint, on every path."
		ee.RunResetOrder(r)
		RunResetDef(p, r)
		r.RequireMin("RESET-DEF", 2)
		ee.RunLocks(r)
		RunDoubleChecked(p, r, func(pkg string) bool { return strings.HasPrefix(pkg, modPath+"/constraint") || strings.HasPrefix(pkg, modPath+"/backend") })
		RunHashClean(p, r, func(pkg string) bool { return strings.HasPrefix(pkg, modPath+"/backend/") })
		RunSibling(p, r, "C10")
		r.RequireMin("EFF-SHARED", 100)
		r.RequireMin("EFF-OPTSLICE", 14)
		r.RequireMin("EFF-RESET", 7)
	})
	register("C03", []string{"./backend/...", "./constraint/..."}, func(p *Prog, r *Report) {
		r.Engines = []string{"conc(CONC-CTX,CONC-CLOSE,CONC-DAG,CONC-SIGNAL)", "verifier(V-ERR)", "sibling"}
		r.Explanation = "Static analysis of the channel protocol of the 7 PLONK and 7 Groth16 provers. Decided: (CONC-CTX) every receive from a stage channel of the PLONK instance is a select that also watches ctx.Done() and returns an error on cancellation; (CONC-CLOSE) every stage channel has exactly one close site and that close is passed on every successful exit of its stage; (CONC-DAG) the wait-for graph between stages is acyclic; (CONC-SIGNAL) every goroutine body in Groth16 Prove (and the PLONK helpers with local join channels) signals its channel on every exit path; (V-ERR) no error result is discarded in Prove and the stage methods, so a failing Solve reaches the caller; (HASH-KILL / HASH-CLEAN) in the backend packages, data written to a hasher reaches a Sum before any Reset, and a hasher supplied through the prover / verifier options is Reset after every Sum on every path to the exit, so that prover and verifier given the same hasher object stay consistent; (HASH-FRESH) every Sum on a long-lived hasher is separated from earlier uses by a Reset (before or after); (HTF-AGREE) prover and verifier reduce the commitment hash-to-field digest with the same byte-string shape. These are the structural reasons why Prove cannot hang on an unsatisfied witness nor deadlock on a satisfied one. NOT decided: that honest proofs verify (algebra), domain sizing for tiny systems, option-combination consistency, absence of panics inside FFT/MSM."
		r.RuleText = "one obligation per wait site, per stage channel, per goroutine body, per error-returning call; nontrivial = discharged by a found select case / close / signal"
		r.Assumptions = []string{"errgroup.WithContext cancels ctx when a stage returns an error (x/sync contract)"}
		RunPlonkConc(p, r)
		RunSignal(p, r, "github.com/consensys/gnark/backend/groth16/<curve>.Prove", 7)
		RunSignal(p, r, "github.com/consensys/gnark/backend/plonk/<curve>.evaluateBlinded", 7)
		RunSignal(p, r, "github.com/consensys/gnark/backend/plonk/<curve>.(*instance).innerComputeLinearizedPoly", 7)
		ve, err := newVerifierEngine(p)
		if err == nil {
			for _, pat := range []string{"github.com/consensys/gnark/backend/groth16/<curve>.Prove", "github.com/consensys/gnark/backend/plonk/<curve>.Prove",
				"github.com/consensys/gnark/backend/plonk/<curve>.(*instance).solveConstraints"} {
				for _, fn := range p.FuncsMatching(pat) {
					ve.errDisciplineFn(fn, fn, r)
				}
			}
		}
		backendScope := func(pkg string) bool { return strings.HasPrefix(pkg, modPath+"/backend/") }
		RunHashKill(p, r, backendScope)
		RunHashClean(p, r, backendScope)
		RunHashFresh(p, r, backendScope)
		RunHtfAgree(p, r)
		RunSibling(p, r, "C03")
		RunOrderGuardDomain(p, r)
		r.Engines = append(r.Engines, "ordguard(ORDER-GUARD)")
		r.Explanation += " ORDER-GUARD: newInstance is interpreted abstractly (conditional constant propagation) for system sizes 2..2^20; the domain stored in domain1 always has at least 3(n+2) points, n the cardinality of domain0."
		r.RequireMin("ORDER-GUARD", 7)
		r.RequireMin("CONC-CTX", 7*12)
		r.RequireMin("CONC-CLOSE", 7*9)
		r.RequireMin("CONC-DAG", 7)
		r.RequireMin("CONC-SIGNAL", 7*5)
	})
}
