package main

import "sort"

var flowTexts = map[string][3]string{
	"C05": {"frontend builders and std/math/bits",
		"every hint output and fresh internal wire created by the two builders and by the bit-decomposition gadgets reaches a constraint-emitting call (AddR1C / AddSparseR1C / AssertIsBoolean / AssertIsEqual / MustBeLessOrEqCst) — none is left free for the prover — and each reviewed source still reaches its reviewed set of sinks with the reviewed strength (raw = the wire itself is constrained, e.g. booleanity of every hinted bit and the recomposition equality in toBinary)",
		"sufficiency of the emitted constraints (a present but wrong equality passes); that needs the exhaustive small-field sweep, a different technique"},
	"C12": {"std/math/emulated",
		"every emulated-arithmetic hint output (quotient, remainder, carries of mul/reduce — the carries only reach the identity, not a width check: known finding F6; inverse, division, sqrt, subtraction padding; generic NewHint* outputs) reaches limb-width enforcement (Rangechecker.Check raw) and/or the deferred identity check (AssertIsEqual through the mulCheck / mvCheck fields) and the multi-commitment (Commit through multicommitter.vars)",
		"overflow bookkeeping, padding values, the integer semantics of results, sufficiency of the polynomial identity"},
	"C13": {"std/rangecheck, logderivarg, logderivlookup, logderivprecomp, multicommit",
		"every limb-decomposition, multiplicity and lookup-result wire reaches the log-derivative equality (AssertIsEqual) and the commitment (Commit via the multicommitter), and recomposition equalities are present",
		"the algebra of the multiset argument, the limb-width choice, which limbs are looked up (value-level)"},
	"C14": {"std/math/cmp, std/selector, std/math/bitslice, std/math/uints",
		"every indicator / mask / minimum / partition / byte hint output reaches its reviewed assertions (booleanity, equality products, range checks)",
		"exact arithmetic semantics and threshold behaviour"},
	"C16": {"std/algebra, std/signature, std/evmprecompiles",
		"every scalar-decomposition, point, line, inverse / division and residue-witness hint output of the curve, pairing and tower-field gadgets reaches an assertion (AssertIsEqual / Check / AssertIsBoolean ...), directly or through the emulated-field deferred checks",
		"formula correctness, exceptional cases, agreement with native results"},
	"C17": {"std/recursion/{groth16,plonk}, std/commitments/{kzg,pedersen}, std/fiat-shamir",
		"every operand of the in-circuit verifiers' exported functions (inner proof, verifying key, public witness, commitments, openings, transcript inputs) reaches the assertion / pairing-check sinks it reaches today, with at least the reviewed number of distinct sink sites (AssertIsEqual of the pairing / KZG checks, range checks of scalars, transcript hashing), and hint outputs used by the gadgets are constrained",
		"accept-set equality with the native verifiers, the algebra of the checks, Fiat-Shamir ordering (value-level order is not visible to a flow-insensitive analysis)"},
	"C19": {"std/gkr and gkr-poseidon2",
		"the GKR solving-hint and proving-hint outputs reach the in-circuit verifier's assertions (AssertIsEqual via the assignment / proof objects) and the commitment used for the initial challenge",
		"sum-check algebra, the native prover, topological sorting"},
}

func init() {
	for id := range flowAreas {
		id := id
		register(id, []string{"./..."}, func(p *Prog, r *Report) {
			t := flowTexts[id]
			r.Engines = []string{"flow(FLOW-SOME,FLOW-REF,FLOW-PARAM,FLOW-FN,OPT-RELAX,COPY-NOOP,FLOW-MUST,LOOP-MUST,MULACC-OWN)", "hashrules(HASH-KILL)"}
			r.Explanation = "Static value-flow analysis (compositional per-function summaries over SSA, field-based heap for gadget state) of " + t[0] + ". Decided: " + t[1] + ". FLOW-SOME is intrinsic (a free wire must reach some sink, itself or at every same-package call site it is handed to); FLOW-REF / FLOW-PARAM compare with the reviewed table rules/flow.json and demand a superset (sink kind, raw/derived strength, number of call-site-sensitive sink sites). HASH-KILL (typestate): data written to a hasher of these packages reaches a Sum of the same hasher without an intervening Reset. NOT decided: " + t[2] + "."
			r.RuleText = "one obligation per hint-output / internal-wire source (and per same-package call site receiving an escaping one); nontrivial = at least one sink reached"
			r.Assumptions = []string{"may-analysis: over-approximated flows can only hide a missing constraint, never raise a false alarm", "call graph: static callees + CHA on gnark-declared interfaces; frontend.API methods are primitives (sinks or arithmetic)", "hint inputs do not flow to hint outputs (outputs are unconstrained until asserted)"}
			cg := BuildCallGraph(p)
			e := newFlowEngine(p, cg)
			min := map[string]int{"C05": 25, "C12": 5, "C13": 4, "C14": 7, "C16": 50, "C17": 1, "C19": 4}[id]
			RunFlow(p, r, e, id, pkgScope(flowAreas[id]...), min)
			RunHashKill(p, r, pkgScope(flowAreas[id]...))
			RunRelax(p, r, id, pkgScope(flowAreas[id]...))
			RunCopyNoop(p, r, pkgScope(flowAreas[id]...))
			RunFlowMust(p, r, id, pkgScope(flowAreas[id]...))
			RunFlowLoop(p, r, id, pkgScope(flowAreas[id]...))
			RunMulAccOwn(p, r, pkgScope(flowAreas[id]...))
			RunMemoArgs(p, r, pkgScope(flowAreas[id]...))
			r.Explanation += " LOOP-MUST (reference): per function, the constraint sites that run in every iteration of their loop (compositional through helpers) do not fall below the reviewed number, so a per-element constraint cannot be skipped for some elements. MULACC-OWN (intrinsic): the accumulator handed to MulAcc, which may be written in place, is never an operand received from the caller."
			if id == "C05" || id == "C14" {
				r.Engines = append(r.Engines, "ordguard(ORDER-GUARD)")
				r.Explanation += " ORDER-GUARD (intrinsic): the guards that compare the requested number of digits with the field size are decided by the order of the two numbers alone; the function is interpreted abstractly (conditional constant propagation over SSA, flow-sensitive store for the local configuration struct) for a representative of every ordering, and on the executable sub-graph of each: bits.toBinary compares the bits with p-1 (MustBeLessOrEqCst is on every path to a return) whenever the requested digits cover the field; bitslice.Partition takes the canonical binary decomposition whenever no bound or a bound of at least the field size is given, and otherwise asserts the recomposition."
				if id == "C05" {
					RunOrderGuardBits(p, r, "tobinary")
					r.RequireMin("ORDER-GUARD", 1)
					RunMemoKey(p, r)
					r.RequireMin("MEMO-KEY", 1)
				} else {
					RunOrderGuardBits(p, r, "tobinary", "partition")
					r.RequireMin("ORDER-GUARD", 2)
				}
			}
			if id == "C13" {
				r.Engines = append(r.Engines, "statereset(STATE-CLOSE)")
				r.Explanation += " STATE-CLOSE (intrinsic): every finaliser of a collector with a closing flag (a bool field that another function tests in order to panic: commitChecker.closed, multicommitter.closed) marks the collector closed on every return path, so no range check or commitment callback added later is silently dropped."
				RunStateClose(p, r, pkgScope(flowAreas[id]...))
			}
			if id == "C19" {
				r.Engines = append(r.Engines, "permagree(PERM-AGREE)")
				r.Explanation += " PERM-AGREE (intrinsic): rows of the GKR assignment that are permuted in place with utils.Permute(row, p.F) are read back through the same permutation field F (not its inverse, found from `p.B = InvertPermutation(p.A)`), so exported values belong to the instance they are returned for."
				RunPermAgree(p, r)
			}
			if id == "C16" {
				r.Engines = append(r.Engines, "predagree(PRED-AGREE)")
				r.Explanation += " PRED-AGREE (intrinsic): for every gadget type offering both IsX and AssertIsX, the leaf comparisons of the predicate (through And, nested predicates expanded) and of the assertion (nested assertions expanded) are the same set of atoms over canonical operand descriptors."
				RunPredAgree(p, r, pkgScope(flowAreas[id]...))
				r.RequireMin("PRED-AGREE", 12)
				r.Engines = append(r.Engines, "zerotriv(ZERO-TRIVIAL)")
				r.Explanation += " ZERO-TRIVIAL (intrinsic): no function that checks a relation among hint outputs is satisfied, for arbitrary inputs, by the witness in which every hint output is zero (abstract interpretation with the domain 'provably zero under the all-zero hint witness'; multiplicatively homogeneous relations such as a·w == c^λ without a non-zero check are reported)."
				RunZeroTrivial(p, r, pkgScope(flowAreas[id]...))
				r.RequireMin("ZERO-TRIVIAL", 10)
				r.Engines = append(r.Engines, "gadgetlints(BITS-COVER)")
				r.Explanation += " BITS-COVER (intrinsic): when a hinted value is decomposed with ToBits (no explicit size) and the bits are read in a loop up to a separately computed bound, the decomposition is consumed as a whole somewhere — handed to a callee, indexed up to len(), or its tail bits[n:] referenced (asserted zero); otherwise the unread high bits of the hinted sub-scalar are free."
				RunBitsCover(p, r, e, pkgScope(flowAreas[id]...))
			}
			if id == "C12" {
				r.Engines = append(r.Engines, "emuwidth(EMU-WIDTH,EMU-FLAG)")
				r.Explanation += " EMU-WIDTH (intrinsic): every group of limbs that std/math/emulated slices out of a hint result is itself (not merely a value computed from it) range-checked or asserted boolean, in the function or at every same-package call site the group is returned to; unconstrained limb groups are arbitrary native field elements, for which the random-point polynomial identity holds only modulo the native field. EMU-FLAG (intrinsic): the trust flag Element.modReduced is only ever set to false, copied, or set behind a dominating AssertIsLessOrEqual on the same element."
				RunEmuWidth(p, r, e)
				RunEmuFlag(p, r)
				r.RequireMin("EMU-FLAG", 3)
				r.RequireMin("EMU-WIDTH", 8)
			}
			r.RequireMin("FLOW-REF", min)
		})
	}
	_ = sort.Strings
}
