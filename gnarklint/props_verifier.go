package main

import "strings"

var backendPkgsG16 = []string{"./backend/groth16/..."}
var backendPkgsPlonk = []string{"./backend/plonk/..."}

const cgAssumption = "call resolution: static callees; foreign (gnark-crypto / standard library) functions are leaves whose contracts are listed in rules/verifier_events.json"

func init() {
	register("C01", backendPkgsG16, func(p *Prog, r *Report) {
		r.Engines = []string{"verifier(V-PASS,V-COVER,V-GUARD-LEN,V-ERR)", "randflow(SETUP-TOXIC)"}
		r.Explanation = "Static analysis of the 7 generated Groth16 Verify functions (SSA + dominators). Decided: (V-PASS) every accepting exit of Verify passes each reviewed check event — subgroup checks of Ar/Krs/Bs, public-witness length guard, MultiExp over vk.G1.K and the witness, both Miller loops, the final GT equality, and (only bypassable under a condition computed from the trusted key) the Pedersen batch verification — with the reviewed argument provenance; (V-COVER) every field of Proof and the public witness flows into a check event on the accepting paths; (V-GUARD-LEN) every proof-supplied slice that is indexed or ranged over has its length fixed against the key on all accepting paths; (V-ERR) no error result in Verify is discarded; (SETUP-TOXIC) in the trapdoor sampler that Setup calls, each of the scalars tau, alpha, beta, gamma, delta is written only by an error-checked SetRandom on exactly that field and each inverse only by Inverse of its scalar — no scalar is a copy of another, a constant or left at zero. NOT decided: that the pairing equation is the right equation, correctness of Setup's key polynomials, anything inside gnark-crypto, proofs of non-satisfying assignments (algebra)."
		r.RuleText = "one obligation per (rule, sibling package, construct): required check event / untrusted field / untrusted slice / error-returning call; nontrivial = discharged by a witness (a must-pass event, a flow path, a dominating guard)"
		r.Assumptions = []string{cgAssumption, "trust partition: *Proof and the public witness are attacker-controlled; *VerifyingKey and options are trusted", "pedersen.BatchVerifyMultiVk returns an error unless len(commitments)==len(vk) (read in the pinned gnark-crypto source)"}
		ve, err := newVerifierEngine(p)
		if err != nil {
			r.Fail("UNRESOLVED", "-", "-", "rules", "-", err.Error())
			return
		}
		RunSibling(p, r, "C01")
		ve.RunTargets("C01", r, "pass", "cover", "guard-len", "err")
		RunSetupToxic(p, r)
		r.RequireMin("SETUP-TOXIC", 7*7)
		r.RequireMin("V-PASS", 7*10)
		r.RequireMin("V-COVER", 7*6)
	})
	register("C02", backendPkgsPlonk, func(p *Prog, r *Report) {
		r.Engines = []string{"verifier(V-PASS,V-COVER,V-GUARD-LEN,V-ERR)", "permcycle(PERM-CYCLE)"}
		r.Explanation = "Static analysis of the 7 generated PLONK Verify functions. Decided: (V-PASS) every accepting exit passes the reviewed check events — BSB22 count guard, witness length guard, subgroup check of every G1 element of the proof (LRO, Z, H, Bsb22Commitments, both opening quotients), Fiat-Shamir binding of every key digest, public input and prover message and the four challenge derivations, the algebraic-relation equality, the linearised-digest MultiExp, kzg.FoldProof and kzg.BatchVerifyMultiPoints — with reviewed argument provenance (which proof/key fields each check depends on); (V-COVER) every Proof field and the public witness reach a check event; (V-GUARD-LEN) variable-length proof parts are length-fixed on accepting paths; (V-ERR) no discarded error; (PERM-CYCLE) in Setup's buildPermutation every entry of the wiring permutation committed in the key is the initial marker or a value of the per-variable last-seen table (no position is made a fixed point), the last-seen table is updated in every iteration of the position loop, and the three wires of every constraint are entered into the position table. NOT decided: that the algebraic identity is the right one, the selector polynomials of the key, KZG internals, challenge ordering (see fsbind when present)."
		r.RuleText = "one obligation per (rule, sibling package, construct); nontrivial = discharged by a witness"
		r.Assumptions = []string{cgAssumption, "trust partition: *Proof and the public witness are attacker-controlled; *VerifyingKey and options are trusted", "kzg.FoldProof returns an error unless len(digests)==len(ClaimedValues)"}
		ve, err := newVerifierEngine(p)
		if err != nil {
			r.Fail("UNRESOLVED", "-", "-", "rules", "-", err.Error())
			return
		}
		RunSibling(p, r, "C02")
		ve.RunTargets("C02", r, "pass", "cover", "guard-len", "err")
		RunPermCycle(p, r)
		r.RequireMin("PERM-CYCLE", 7*2)
		r.RequireMin("V-PASS", 7*28)
		r.RequireMin("V-COVER", 7*8)
	})
	register("C08", []string{"./backend/groth16/...", "./backend/plonk/...", "./backend/witness/..."}, func(p *Prog, r *Report) {
		r.Engines = []string{"verifier(V-GUARD-IDX,V-GUARD-LEN,V-ERR)", "hdrbound(V-HDR-BOUND)"}
		r.Explanation = "Static analysis of the Groth16 and PLONK Verify functions on all 7 curves. Decided: (V-GUARD-IDX) every index / slice expression whose base is a slice supplied by the proof or the public witness is dominated by a length check that returns an error (or bounded by a loop over that same slice); (V-GUARD-LEN) every such slice has its length compared with a trusted length on all accepting paths; (V-ERR) no error result is discarded in the verifiers and decoders; (V-HDR-BOUND) in backend/witness, the counts decoded from the length header (the fields assigned from an encoding/binary read, found from the decoder itself) never bound an index or slice expression without a dominating comparison with len() of the same slice (forward taint through conversions, arithmetic, spills and in-module callees); slices that only grow by append are checked through their root. NOT decided: panics inside gnark-crypto or the decoders' library code, memory exhaustion from length prefixes, the Solidity helper UnmarshalSolidity (outside the property's quantifier)."
		r.RuleText = "one obligation per index/slice site on an untrusted slice, per untrusted slice path, per error-returning call; nontrivial = a dominating guard / loop bound / consuming use was found"
		r.Assumptions = []string{cgAssumption, "arrays (LRO [3], H [3]) are type-fixed and exempt", "length-fixing callees: pedersen.BatchVerifyMultiVk, kzg.FoldProof (contracts in rules/verifier_events.json)"}
		ve, err := newVerifierEngine(p)
		if err != nil {
			r.Fail("UNRESOLVED", "-", "-", "rules", "-", err.Error())
			return
		}
		ve.RunTargets("C08", r, "guard-idx", "guard-len", "err")
		// error discipline of the decoders of untrusted bytes
		nDec := 0
		for _, fn := range p.Funcs {
			if fn.Parent() != nil || fn.Synthetic != "" {
				continue
			}
			pk := FuncPkg(fn)
			if pk == nil {
				continue
			}
			ap := Abstract(pk.Path())
			if ap != "github.com/consensys/gnark/backend/groth16/<curve>" && ap != "github.com/consensys/gnark/backend/plonk/<curve>" && ap != "github.com/consensys/gnark/backend/witness" {
				continue
			}
			switch funcBaseName(fn) {
			case "ReadFrom", "readFrom", "UnsafeReadFrom", "UnmarshalBinary", "ReadDump", "FromJSON", "UnmarshalJSON":
				nDec++
				ve.errDisciplineFn(fn, fn, r)
			}
		}
		r.Extra["decoders_checked"] = nDec
		RunHeaderBounds(p, r, func(pk string) bool { return pk == modPath+"/backend/witness" })
		r.RequireMin("V-HDR-BOUND", 3)
		r.RequireMin("V-GUARD-IDX", 14*3)
		r.RequireMin("V-GUARD-LEN", 14*2)
	})
	register("C18", []string{"./backend/groth16/..."}, func(p *Prog, r *Report) {
		r.Engines = []string{"verifier(V-PASS,V-COVER,V-ERR)", "coeffid(COEFF-SWITCH)", "sibling"}
		r.Explanation = "Static analysis of Phase1.Verify and Phase2.Verify of the 7 mpcsetup packages. Decided: (V-PASS) every accepting exit passes each update-proof verification (tau, alpha, beta; every sigma_i and delta), the size guards and SameRatioMany, with reviewed argument provenance: each update proof is tied to the previous contribution (the challenge argument derives from p.hash(), never from the untrusted contribution) and to the reviewed parameter pairs (G1.Tau[1], AlphaTau[0], BetaTau[0], G2.Beta; G1/G2.Delta, Z, PKK, SigmaCKK[i], Sigma[i]), SameRatioMany receives the four complete power vectors; (V-COVER) every parameter vector and update proof of the untrusted contribution reaches a check; (V-ERR) no discarded error; (COEFF-SWITCH) in Phase2.Initialize the special-coefficient fast paths of the G1 / G2 accumulators equal the table path and leave the shared Lagrange tables untouched (symbolic interpretation); sibling agreement of the 7 generated packages. NOT decided: update-proof / same-ratio cryptography (gnark-crypto), Lagrange conversion values, equality with single-party setup."
		r.RuleText = "one obligation per (rule, sibling package, construct); nontrivial = discharged by a witness"
		r.Assumptions = []string{cgAssumption, "trust partition: `next` is attacker-controlled, the receiver (previous, already verified contribution) is trusted"}
		ve, err := newVerifierEngine(p)
		if err != nil {
			r.Fail("UNRESOLVED", "-", "-", "rules", "-", err.Error())
			return
		}
		RunSibling(p, r, "C18")
		ve.RunTargets("C18", r, "pass", "cover", "err")
		RunCoeffSwitches(p, r, func(pkg string) bool { return strings.HasSuffix(pkg, "/mpcsetup") })
		r.RequireMin("V-PASS", 7*10)
		r.RequireMin("V-COVER", 7*10)
	})
}

func init() {
	register("C11", []string{"./..."}, func(p *Prog, r *Report) {
		r.Engines = []string{"determinism(DET-MAPRANGE,DET-GLOBAL,DET-SOURCE)", "pooluaf(POOL-UAF)", "statereset(STATE-RESET,STATE-HOOK,OPERAND-STATE)"}
		r.Explanation = "Static analysis of all compile-time code (packages frontend/..., std/..., constraint/..., internal/... except stats/generator/tests). Decided: (DET-MAPRANGE) no `range` over a map has an order-sensitive effect in its body — a call that can reach a mutator of the constraint system / builder / gadget state in the restricted call graph, an append to a slice that outlives the loop and is not sorted, a write to an output stream, a channel send, or a return of a value taken from the current entry — except the reviewed entries of rules/determinism.json; (DET-GLOBAL) code reachable from frontend.Compile and from every exported function of frontend/... and std/... does not store to, map-update, call a mutating method on, or leak the address of a package-level variable, except the reviewed lock-guarded registries; (DET-SOURCE) the same code calls no clock / random / process-id / reflect map-order source and starts no goroutine, except reviewed entries; (POOL-UAF) every object that compile-time code hands back to a shared pool (sync.Pool.Put / putBuffer) is neither used after the release nor escapes the releasing function (returned, stored, retained by a callee), so concurrent compilations cannot see each other's buffers; (STATE-RESET) every Element field on which a deferred emulated-arithmetic check caches its evaluation (the flag set by evalWithChallenge in evalRound1/2) is cleared by that check's cleanEvaluations, so nothing cached on the user's circuit value survives into the next compilation. NOT decided: byte equality across processes in general (only the absence of the enumerated nondeterminism sources), determinism of third-party encoders."
		r.RuleText = "one obligation per map-range site in scope, per use of a package-level variable by compile-reachable code, per nondeterminism-source call; nontrivial = needed a reviewed reason; trivial = no order-sensitive effect found"
		r.Assumptions = []string{"call graph: static callees + class-hierarchy edges on gnark-declared interfaces + signature-matched edges for function values; foreign interface methods are leaves", "builder-state types listed in determinism.go (constraint.System, per-curve system, CoeffTable, r1cs/scs builder, kvstore, multicommitter, commitChecker, emulated.Field, lookup tables)"}
		de, err := newDetEngine(p)
		if err != nil {
			r.Fail("UNRESOLVED", "-", "-", "rules", "-", err.Error())
			return
		}
		de.RunMapRange(r, "DET-MAPRANGE", compileScopePkg)
		scope := de.cg.ReachableFrom(de.compileRoots())
		r.Extra["compile_reachable_functions"] = len(scope)
		de.RunGlobals(r, "DET-GLOBAL", scope)
		de.RunSources(r, "DET-SOURCE", scope)
		RunPoolUAF(p, r, compileScopePkg)
		RunStateReset(p, r)
		RunStateHook(p, r)
		RunOperandState(p, r)
		r.Explanation += " Also decided: DET-GLOBAL reports stateful interface objects (hashers, writers) held in package-level variables; (STATE-HOOK) a flag that emulated-arithmetic code sets on an element received from its caller is reset unconditionally by GnarkInitHook; (OPERAND-STATE) std/algebra gadgets leave no cache of locally computed objects on operands received from the caller (8 sites do: known finding F14)."
		r.RequireMin("STATE-RESET", 9)
		r.RequireMin("POOL-UAF", 3)
		r.RequireMin("DET-MAPRANGE", 20)
	})
}
