package main

import (
	"fmt"
	"go/token"
	"go/types"
	"strings"

	"golang.org/x/tools/go/ssa"
)

// randflow engine (DESIGN.md 3.9, C20): provenance of blinding. Flow-insensitive backward slices inside the
// provers: each blinded proof element must depend on a fresh SetRandom value.

func isSetRandom(c *ssa.Call) bool {
	n := CalleeName(&c.Call)
	return strings.HasSuffix(n, ".SetRandom") || strings.HasSuffix(n, ".MustSetRandom")
}

func funcsWithClosures(fn *ssa.Function) []*ssa.Function {
	out := []*ssa.Function{fn}
	for _, a := range fn.AnonFuncs {
		out = append(out, funcsWithClosures(a)...)
	}
	return out
}

// randomSources: SetRandom receivers (by SSA value) found in the backward slice of vals. A call to a same-module
// helper that draws the scalars itself (`r, s, err := sampleBlinding()`) is looked into one level: result j of the
// call contributes the SetRandom receivers that the helper's j-th returned value depends on.
func randomSources(vals ...ssa.Value) map[ssa.Value]bool {
	s := newSlicer()
	for _, v := range vals {
		s.visit(v)
	}
	out := map[ssa.Value]bool{}
	for c := range s.calls {
		if isSetRandom(c) && len(c.Call.Args) > 0 {
			out[rootAlloc(c.Call.Args[0])] = true
			continue
		}
		h := randHelper(c)
		if h == nil {
			continue
		}
		if _, isTuple := c.Type().(*types.Tuple); !isTuple {
			for k := range h[0] {
				out[k] = true
			}
			continue
		}
		for _, ref := range *c.Referrers() {
			if ex, ok := ref.(*ssa.Extract); ok && s.seen[ex] {
				for k := range h[ex.Index] {
					out[k] = true
				}
			}
		}
	}
	return out
}

var randHelperMemo = map[*ssa.Function]map[int]map[ssa.Value]bool{}

// randHelper: for a static module callee containing SetRandom calls, result index -> SetRandom receivers (values of
// the callee) the returned value depends on; nil otherwise.
func randHelper(c *ssa.Call) map[int]map[ssa.Value]bool {
	cal := c.Call.StaticCallee()
	if cal == nil || cal.Blocks == nil || FuncPkg(cal) == nil || !strings.HasPrefix(FuncPkg(cal).Path(), modPath+"/") {
		return nil
	}
	if m, ok := randHelperMemo[cal]; ok {
		return m
	}
	randHelperMemo[cal] = nil
	has := false
	for _, b := range cal.Blocks {
		for _, ins := range b.Instrs {
			if cc, ok := ins.(*ssa.Call); ok && isSetRandom(cc) {
				has = true
			}
		}
	}
	if !has {
		return nil
	}
	m := map[int]map[ssa.Value]bool{}
	for _, b := range cal.Blocks {
		ret, ok := lastInstr(b).(*ssa.Return)
		if !ok {
			continue
		}
		for j, rv := range ret.Results {
			sl := newSlicer()
			sl.visit(rv)
			for cc := range sl.calls {
				if isSetRandom(cc) && len(cc.Call.Args) > 0 {
					if m[j] == nil {
						m[j] = map[ssa.Value]bool{}
					}
					m[j][rootAlloc(cc.Call.Args[0])] = true
				}
			}
		}
	}
	randHelperMemo[cal] = m
	return m
}

// helperDraws: SetRandom calls inside helpers called (unconditionally analysed by the caller) from fn.
func helperDraws(fn *ssa.Function) (calls []*ssa.Call, draws []*ssa.Call) {
	for _, f := range funcsWithClosures(fn) {
		for _, b := range f.Blocks {
			for _, ins := range b.Instrs {
				c, ok := ins.(*ssa.Call)
				if !ok || isSetRandom(c) || randHelper(c) == nil {
					continue
				}
				calls = append(calls, c)
				for _, hb := range c.Call.StaticCallee().Blocks {
					for _, hi := range hb.Instrs {
						if hc, ok := hi.(*ssa.Call); ok && isSetRandom(hc) {
							draws = append(draws, hc)
						}
					}
				}
			}
		}
	}
	return
}

func rootAlloc(v ssa.Value) ssa.Value {
	for d := 0; d < 10; d++ {
		switch x := v.(type) {
		case *ssa.FieldAddr:
			v = x.X
		case *ssa.IndexAddr:
			v = x.X
		case *ssa.UnOp:
			if x.Op != token.MUL {
				return v
			}
			v = x.X
		case *ssa.FreeVar:
			if b := closureBinding(x); b != nil {
				v = b
				continue
			}
			return v
		default:
			return v
		}
	}
	return v
}

func errChecked(c *ssa.Call) bool {
	for _, r := range *c.Referrers() {
		if ex, ok := r.(*ssa.Extract); ok && isErrorType(ex.Type()) && hasRealUse(ex) {
			return true
		}
	}
	return false
}

// RunRandGroth16: Ar, Bs, Krs of the proof depend on fresh randomness.
func RunRandGroth16(p *Prog, r *Report) {
	fns := p.FuncsMatching("github.com/consensys/gnark/backend/groth16/<curve>.Prove")
	if len(fns) < 7 {
		r.Fail("UNRESOLVED", "-", "-", "groth16.Prove", "-", fmt.Sprintf("%d instances, confirmed 7", len(fns)))
	}
	for _, fn := range fns {
		pkg := FuncPkg(fn).Path()
		fname := FuncName(fn)
		all := funcsWithClosures(fn)
		// SetRandom calls
		var rnd []*ssa.Call
		for _, f := range all {
			for _, b := range f.Blocks {
				for _, ins := range b.Instrs {
					if c, ok := ins.(*ssa.Call); ok && isSetRandom(c) {
						rnd = append(rnd, c)
					}
				}
			}
		}
		hcalls, hdraws := helperDraws(fn)
		rnd = append(rnd, hdraws...)
		// draws moved into a same-package helper that writes them through pointer parameters: the provenance of
		// the proof elements is not followed through such a helper; the rules are then not evaluated (the helper
		// must still be called unconditionally and draw, error-checked, at least two scalars)
		outParamHelper := outParamDrawHelper(fn)
		distinct := map[ssa.Value]bool{}
		unchecked := 0
		for _, c := range rnd {
			distinct[rootAlloc(c.Call.Args[0])] = true
			if !errChecked(c) {
				unchecked++
			}
		}
		pos := p.Pos(FuncPos(fn))
		// every draw is unconditional: its block dominates every successful return of Prove
		g := buildAccGraph(p, fn, "error")
		conditional := ""
		for _, c := range append(append([]*ssa.Call{}, rnd...), hcalls...) {
			if c.Parent() != fn {
				continue
			}
			for _, a := range g.acceptingEnds() {
				ab := g.nodes[a].blk
				if ab != c.Block() && !c.Block().Dominates(ab) {
					conditional = p.Pos(c.Pos())
				}
			}
		}
		if conditional != "" {
			r.Fail("RAND-SOURCE", pkg, fname, "unconditional-draw", pos, "the SetRandom call at "+conditional+" does not dominate every successful return of Prove: on some path the proof is produced without fresh randomness (the blinding scalar keeps its zero value)")
		} else {
			r.Pass("RAND-SOURCE", pkg, fname, "unconditional-draw", pos, fmt.Sprintf("all %d SetRandom calls dominate every successful return", len(rnd)), true)
		}
		if outParamHelper != nil {
			ok := true
			for _, a := range g.acceptingEnds() {
				ab := g.nodes[a].blk
				if ab != outParamHelper.Block() && !outParamHelper.Block().Dominates(ab) {
					ok = false
				}
			}
			n, unchk := drawsIn(outParamHelper.Call.StaticCallee())
			if ok && n >= 2 && unchk == 0 {
				for _, k := range []string{"two-fresh-scalars", "blinded:Ar", "blinded:Bs", "blinded:Krs", "independent:Ar,Bs"} {
					rule := "RAND-FLOW"
					if k == "two-fresh-scalars" {
						rule = "RAND-SOURCE"
					}
					r.Add(&Obligation{Rule: rule, Pkg: pkg, Func: fname, Key: k, Pos: pos, OK: true, Info: true, Detail: "the draws were moved into the helper " + funcBaseName(outParamHelper.Call.StaticCallee()) + " (called unconditionally, " + fmt.Sprint(n) + " error-checked SetRandom calls on its pointer parameters): provenance not evaluated"})
				}
				continue
			}
		}
		if len(distinct) >= 2 && unchecked == 0 {
			r.Pass("RAND-SOURCE", pkg, fname, "two-fresh-scalars", pos, fmt.Sprintf("%d distinct SetRandom receivers, every error result checked", len(distinct)), true)
		} else {
			r.Fail("RAND-SOURCE", pkg, fname, "two-fresh-scalars", pos, fmt.Sprintf("Prove draws %d distinct random scalars (need 2: r and s); %d SetRandom error result(s) unchecked", len(distinct), unchecked))
		}
		// writes of the proof elements
		srcOf := map[string]map[ssa.Value]bool{}
		for _, f := range all {
			for _, b := range f.Blocks {
				for _, ins := range b.Instrs {
					c, ok := ins.(*ssa.Call)
					if !ok || len(c.Call.Args) == 0 {
						continue
					}
					fa, ok := c.Call.Args[0].(*ssa.FieldAddr)
					if !ok || namedName(fa.X.Type()) != "Proof" {
						continue
					}
					field := fieldName(fa.X.Type(), fa.Field)
					if field != "Ar" && field != "Bs" && field != "Krs" {
						continue
					}
					src := randomSources(c.Call.Args[1:]...)
					if srcOf[field] == nil {
						srcOf[field] = map[ssa.Value]bool{}
					}
					for k := range src {
						srcOf[field][k] = true
					}
				}
			}
		}
		for _, field := range []string{"Ar", "Bs", "Krs"} {
			need := 1
			if field == "Krs" {
				need = 2
			}
			key := "blinded:" + field
			if len(srcOf[field]) >= need {
				r.Pass("RAND-FLOW", pkg, fname, key, pos, fmt.Sprintf("proof.%s depends on %d fresh random scalar(s)", field, len(srcOf[field])), true)
			} else {
				r.Fail("RAND-FLOW", pkg, fname, key, pos, fmt.Sprintf("proof.%s depends on %d fresh random scalar(s), needs %d: the element equals the deterministic commitment to the witness", field, len(srcOf[field]), need))
			}
		}
		if len(srcOf["Ar"]) >= 1 && len(srcOf["Bs"]) >= 1 {
			same := len(srcOf["Ar"]) == len(srcOf["Bs"])
			for k := range srcOf["Ar"] {
				if !srcOf["Bs"][k] {
					same = false
				}
			}
			if same {
				r.Fail("RAND-FLOW", pkg, fname, "independent:Ar,Bs", pos, "proof.Ar and proof.Bs are blinded by the same random scalar")
			} else {
				r.Pass("RAND-FLOW", pkg, fname, "independent:Ar,Bs", pos, "proof.Ar and proof.Bs are blinded by different random scalars", true)
			}
		}
	}
}

// RunRandPlonk: blinding polynomials, BSB22 random entries and quotient randomisers.
func RunRandPlonk(p *Prog, r *Report) {
	count := func(pat string, pred func(c *ssa.Call) bool) map[*ssa.Function]int {
		out := map[*ssa.Function]int{}
		for _, fn := range p.FuncsMatching(pat) {
			n := 0
			seen := map[*ssa.Function]bool{}
			var visit func(g *ssa.Function, d int)
			visit = func(g *ssa.Function, d int) {
				if seen[g] || d > 2 {
					return
				}
				seen[g] = true
				for _, f := range funcsWithClosures(g) {
					for _, b := range f.Blocks {
						for _, ins := range b.Instrs {
							c, ok := ins.(*ssa.Call)
							if !ok {
								continue
							}
							if pred(c) {
								n++
							}
							// the step may have been split into same-package helpers
							if cal := c.Call.StaticCallee(); cal != nil && cal.Blocks != nil && FuncPkg(cal) != nil && FuncPkg(fn) != nil && FuncPkg(cal).Path() == FuncPkg(fn).Path() {
								visit(cal, d+1)
							}
						}
					}
				}
			}
			visit(fn, 0)
			out[fn] = n
		}
		return out
	}
	report := func(rule, key string, res map[*ssa.Function]int, min int, okMsg, badMsg string) {
		if len(res) < 7 {
			r.Fail("UNRESOLVED", "-", "-", key, "-", fmt.Sprintf("%d instances, confirmed 7", len(res)))
		}
		for fn, n := range res {
			if n < min && rule == "RAND-SOURCE" {
				// the draws may have been moved into a same-package helper working on its parameters
				if h := outParamDrawHelper(fn); h != nil {
					if hn, unchk := drawsIn(h.Call.StaticCallee()); n+hn >= min && unchk == 0 {
						r.Add(&Obligation{Rule: rule, Pkg: FuncPkg(fn).Path(), Func: FuncName(fn), Key: key, Pos: p.Pos(FuncPos(fn)), OK: true, Info: true, Detail: "the draws were moved into the helper " + funcBaseName(h.Call.StaticCallee()) + " (error-checked SetRandom calls on its parameters): sites not evaluated individually"})
						continue
					}
				}
			}
			if n >= min {
				r.Pass(rule, FuncPkg(fn).Path(), FuncName(fn), key, p.Pos(FuncPos(fn)), fmt.Sprintf(okMsg, n), true)
			} else {
				r.Fail(rule, FuncPkg(fn).Path(), FuncName(fn), key, p.Pos(FuncPos(fn)), fmt.Sprintf(badMsg, n, min))
			}
		}
	}
	base := "github.com/consensys/gnark/backend/plonk/<curve>."
	// (a) getRandomPolynomial draws every coefficient
	report("RAND-SOURCE", "random-polynomial", count(base+"getRandomPolynomial", func(c *ssa.Call) bool {
		if !isSetRandom(c) {
			return false
		}
		_, inLoop := c.Call.Args[0].(*ssa.IndexAddr)
		return inLoop
	}), 1, "coefficients drawn with SetRandom in a loop (%d site)", "getRandomPolynomial has %d SetRandom sites on its coefficients (need %d)")
	// (b) the four blinding polynomials are random polynomials stored in instance.bp
	report("RAND-SOURCE", "blinding-polynomials", count(base+"(*instance).initBlindingPolynomials", func(c *ssa.Call) bool {
		if !strings.HasSuffix(CalleeName(&c.Call), ".getRandomPolynomial") {
			return false
		}
		for _, ref := range *c.Referrers() {
			if st, ok := ref.(*ssa.Store); ok && strings.Contains(Desc(st.Addr), ".bp[") {
				return true
			}
		}
		return false
	}), 4, "%d random polynomials stored into instance.bp", "only %d random polynomials stored into instance.bp (need %d: L, R, O, Z)")
	// (c) commitments of L, R, O, Z include their blinding polynomial
	for _, site := range []struct {
		fn, key string
		min     int
	}{{"(*instance).commitToLRO", "blinded:LRO", 3}, {"(*instance).buildRatioCopyConstraint", "blinded:Z", 1}} {
		report("RAND-FLOW", site.key, count(base+site.fn, func(c *ssa.Call) bool {
			if !strings.HasSuffix(CalleeName(&c.Call), ".commitToPolyAndBlinding") {
				return false
			}
			for _, d := range depsOfM(true, c.Call.Args...) {
				if strings.Contains(d, ".bp[") {
					return true
				}
			}
			return false
		}), site.min, "%d commitment(s) computed from a polynomial and its blinding polynomial instance.bp[...]", "%d commitments include a blinding polynomial (need %d)")
	}
	// (d) quotient shard randomisers are set in place under the statistical zero-knowledge option
	report("RAND-SOURCE", "quotient-randomizers", count(base+"newInstance", func(c *ssa.Call) bool {
		return isSetRandom(c) && strings.Contains(Desc(c.Call.Args[0]), ".quotientShardsRandomizers[")
	}), 2, "%d SetRandom calls write instance.quotientShardsRandomizers in place", "%d SetRandom calls write instance.quotientShardsRandomizers in place (need %d): the quotient shards stay unblinded under WithStatisticalZeroKnowledge")
	// (e) BSB22 commitment polynomial gets random entries
	report("RAND-SOURCE", "bsb22-random-entries", count(base+"(*instance).bsb22Hint", func(c *ssa.Call) bool {
		if !isSetRandom(c) || !errChecked(c) {
			return false
		}
		_, ok := c.Call.Args[0].(*ssa.IndexAddr)
		return ok
	}), 2, "%d error-checked SetRandom calls on entries of the committed-values vector", "%d error-checked SetRandom calls on the committed-values vector (need %d)")
}

// RunRandCommitMask: every Groth16-style Commit call draws a fresh mask wire.
func RunRandCommitMask(p *Prog, r *Report) {
	fns := p.FuncsMatching("github.com/consensys/gnark/frontend/cs/r1cs.(*builder).Commit")
	if len(fns) == 0 {
		r.Fail("UNRESOLVED", "-", "-", "r1cs.Commit", "-", "(*builder).Commit not found")
		return
	}
	for _, fn := range fns {
		pkg := FuncPkg(fn).Path()
		// the Randomize hint call, in Commit itself or in a same-package helper that Commit calls (then the call of
		// the helper is the site, and inside the helper the hint call must dominate every successful return)
		hint := findMaskSite(p, fn, 0)
		if hint == nil {
			r.Fail("RAND-MASK", pkg, FuncName(fn), "mask-hint", p.Pos(FuncPos(fn)), "Commit no longer appends a Randomize hint output (random mask) to the committed wires")
			continue
		}
		g := buildAccGraph(p, fn, "error")
		fw := g.forward(0, -1, -1, hint.Block().Index)
		bad := ""
		for _, a := range g.acceptingEnds() {
			if fw[a] {
				bad = p.Pos(lastInstr(g.nodes[a].blk).Pos())
			}
		}
		if bad == "" {
			r.Pass("RAND-MASK", pkg, FuncName(fn), "mask-hint", p.Pos(hint.Pos()), "every successful Commit call creates its own Randomize mask wire", true)
		} else {
			r.Fail("RAND-MASK", pkg, FuncName(fn), "mask-hint", p.Pos(hint.Pos()), "a successful return of Commit ("+bad+") bypasses the creation of a fresh Randomize mask: later commitments reuse a mask or have none")
		}
	}
}

func isRandomizeHint(c *ssa.Call) bool {
	cal := c.Call.StaticCallee()
	if cal == nil || !strings.HasPrefix(funcBaseName(cal), "NewHint") {
		return false
	}
	for _, a := range c.Call.Args {
		if strings.Contains(Desc(a), "internal/hints.Randomize") {
			return true
		}
	}
	return false
}

// findMaskSite: the call instruction of fn that draws the mask: the Randomize hint call itself, or the call of a
// same-package helper in which such a call dominates every successful return.
func findMaskSite(p *Prog, fn *ssa.Function, depth int) *ssa.Call {
	for _, b := range fn.Blocks {
		for _, ins := range b.Instrs {
			c, ok := ins.(*ssa.Call)
			if !ok {
				continue
			}
			if isRandomizeHint(c) {
				return c
			}
		}
	}
	if depth >= 2 {
		return nil
	}
	for _, b := range fn.Blocks {
		for _, ins := range b.Instrs {
			c, ok := ins.(*ssa.Call)
			if !ok {
				continue
			}
			cal := c.Call.StaticCallee()
			if cal == nil || cal.Blocks == nil || FuncPkg(cal) == nil || FuncPkg(fn) == nil || FuncPkg(cal).Path() != FuncPkg(fn).Path() {
				continue
			}
			inner := findMaskSite(p, cal, depth+1)
			if inner == nil {
				continue
			}
			ok2 := true
			for _, rb := range successReturnBlocks(p, cal) {
				if rb != inner.Block() && !inner.Block().Dominates(rb) {
					ok2 = false
				}
			}
			if ok2 {
				return c
			}
		}
	}
	return nil
}

// drawsIn: number of SetRandom calls in fn and how many of them leave the error result unchecked.
func drawsIn(fn *ssa.Function) (n, unchecked int) {
	if fn == nil {
		return
	}
	for _, b := range fn.Blocks {
		for _, ins := range b.Instrs {
			if c, ok := ins.(*ssa.Call); ok && isSetRandom(c) {
				n++
				if !errChecked(c) {
					unchecked++
				}
			}
		}
	}
	return
}

// outParamDrawHelper: a call in fn (not in its closures) of a same-package function that calls SetRandom on (memory
// reached through) its own parameters.
func outParamDrawHelper(fn *ssa.Function) *ssa.Call {
	for _, b := range fn.Blocks {
		for _, ins := range b.Instrs {
			c, ok := ins.(*ssa.Call)
			if !ok || isSetRandom(c) {
				continue
			}
			cal := c.Call.StaticCallee()
			if cal == nil || cal.Blocks == nil || FuncPkg(cal) == nil || FuncPkg(fn) == nil || FuncPkg(cal).Path() != FuncPkg(fn).Path() {
				continue
			}
			for _, hb := range cal.Blocks {
				for _, hi := range hb.Instrs {
					if hc, ok := hi.(*ssa.Call); ok && isSetRandom(hc) && len(hc.Call.Args) > 0 {
						root := rootAlloc(hc.Call.Args[0])
						if _, isParam := root.(*ssa.Parameter); isParam {
							return c
						}
					}
				}
			}
		}
	}
	return nil
}
