package main

import (
	"encoding/json"
	"fmt"
	"os"
	"path/filepath"
	"sort"
	"strings"
	"time"
)

var verifDir = "/verif"

// Obligation is one rule instance evaluated on one construct.
type Obligation struct {
	Rule       string `json:"rule"`
	Pkg        string `json:"pkg"`
	Func       string `json:"func"`
	Key        string `json:"key"` // stable construct key (no positions)
	Pos        string `json:"pos"`
	OK         bool   `json:"ok"`
	Nontrivial bool   `json:"nontrivial"`
	Detail     string `json:"detail"` // discharge witness or violation description
	Info       bool   `json:"info,omitempty"`
}

// FindingKey identifies a violation independent of curve and position.
func (o *Obligation) FindingKey() string {
	return strings.Join([]string{o.Rule, Abstract(o.Pkg), Abstract(o.Func), Abstract(o.Key)}, "|")
}

type Report struct {
	Property    string
	Tier        string
	Seed        int
	Start       time.Time
	Obls        []*Obligation
	Explanation string
	RuleText    string
	Assumptions []string
	Notes       []string
	Engines     []string
	Counts      map[string]int // per-rule instance count
	MinCounts   map[string]int // per-rule confirmed minimum
	Extra       map[string]any
}

func NewReport(prop, tier string, seed int) *Report {
	return &Report{Property: prop, Tier: tier, Seed: seed, Start: time.Now(), Counts: map[string]int{}, MinCounts: map[string]int{}, Extra: map[string]any{}}
}

func (r *Report) Add(o *Obligation) *Obligation {
	r.Obls = append(r.Obls, o)
	r.Counts[o.Rule]++
	return o
}

func (r *Report) Pass(rule, pkg, fn, key, pos, detail string, nontrivial bool) {
	r.Add(&Obligation{Rule: rule, Pkg: pkg, Func: fn, Key: key, Pos: pos, OK: true, Nontrivial: nontrivial, Detail: detail})
}

func (r *Report) Fail(rule, pkg, fn, key, pos, detail string) {
	r.Add(&Obligation{Rule: rule, Pkg: pkg, Func: fn, Key: key, Pos: pos, OK: false, Nontrivial: true, Detail: detail})
}

// RequireMin records the confirmed minimum number of instances for a rule.
func (r *Report) RequireMin(rule string, n int) { r.MinCounts[rule] = n }

type knownFinding struct {
	Property string `json:"property"`
	Key      string `json:"key"`
	What     string `json:"what"`
	Status   string `json:"status"` // "known" or "fixed"
	Commit   string `json:"commit,omitempty"`
}

type knownFile struct {
	Comment  string         `json:"comment"`
	Findings []knownFinding `json:"findings"`
}

func loadKnown() (map[string]knownFinding, error) {
	b, err := os.ReadFile(filepath.Join(verifDir, "known_findings.json"))
	if err != nil {
		if os.IsNotExist(err) {
			return map[string]knownFinding{}, nil
		}
		return nil, err
	}
	var kf knownFile
	if err := json.Unmarshal(b, &kf); err != nil {
		return nil, err
	}
	m := map[string]knownFinding{}
	for _, f := range kf.Findings {
		if f.Status == "known" {
			m[f.Property+"|"+f.Key] = f
		}
	}
	return m, nil
}

// Finish writes the evidence file, prints KNOWN-FINDING / VIOLATION lines and returns the exit code.
func (r *Report) Finish() int {
	sort.SliceStable(r.Obls, func(i, j int) bool {
		a, b := r.Obls[i], r.Obls[j]
		if a.Rule != b.Rule {
			return a.Rule < b.Rule
		}
		if a.Pkg != b.Pkg {
			return a.Pkg < b.Pkg
		}
		if a.Func != b.Func {
			return a.Func < b.Func
		}
		return a.Key < b.Key
	})
	// instance-count minima
	var rules []string
	for rule := range r.MinCounts {
		rules = append(rules, rule)
	}
	sort.Strings(rules)
	for _, rule := range rules {
		min := r.MinCounts[rule]
		if r.Counts[rule] < min {
			r.Obls = append(r.Obls, &Obligation{Rule: "UNRESOLVED", Pkg: "-", Func: "-", Key: "mincount:" + rule, OK: false, Nontrivial: true,
				Detail: fmt.Sprintf("rule %s matched %d instances, confirmed minimum is %d: anchors no longer resolve (coverage lost)", rule, r.Counts[rule], min)})
		}
	}
	known, err := loadKnown()
	if err != nil {
		fmt.Printf("cannot read known_findings.json: %v\n", err)
		return 2
	}
	total, discharged, nontriv := 0, 0, 0
	distinct := map[string]bool{}
	var viol, knownHits []*Obligation
	for _, o := range r.Obls {
		if o.Info {
			continue
		}
		total++
		if o.OK {
			discharged++
			if o.Nontrivial {
				k := o.Rule + "|" + o.Pkg + "|" + o.Func + "|" + o.Key
				if !distinct[k] {
					distinct[k] = true
					nontriv++
				}
			}
			continue
		}
		if _, ok := known[r.Property+"|"+o.FindingKey()]; ok {
			knownHits = append(knownHits, o)
		} else {
			viol = append(viol, o)
		}
	}
	// samples: a few discharged obligations per rule + all violations
	var samples []any
	perRule := map[string]int{}
	for _, o := range r.Obls {
		if o.OK && o.Nontrivial && perRule[o.Rule] < 3 {
			perRule[o.Rule]++
			samples = append(samples, o)
		}
	}
	for _, o := range viol {
		samples = append(samples, o)
	}
	for _, o := range knownHits {
		if len(samples) < 60 {
			samples = append(samples, o)
		}
	}
	if len(samples) == 0 {
		samples = append(samples, map[string]string{"note": "no nontrivial obligation"})
	}
	if dump := os.Getenv("GNARKLINT_DUMP"); dump != "" {
		if b, err := json.MarshalIndent(r.Obls, "", " "); err == nil {
			os.WriteFile(dump, b, 0o644)
		}
	}
	// replay files
	replayDir := filepath.Join(verifDir, "evidence", "replay")
	os.MkdirAll(replayDir, 0o755)
	old, _ := filepath.Glob(filepath.Join(replayDir, r.Property+"-*.json"))
	for _, f := range old {
		os.Remove(f)
	}
	type perRuleStat struct {
		Instances int `json:"instances"`
		Min       int `json:"confirmed_min"`
		Failed    int `json:"failed"`
	}
	stats := map[string]*perRuleStat{}
	for _, o := range r.Obls {
		if o.Info {
			continue
		}
		s := stats[o.Rule]
		if s == nil {
			s = &perRuleStat{Min: r.MinCounts[o.Rule]}
			stats[o.Rule] = s
		}
		s.Instances++
		if !o.OK {
			s.Failed++
		}
	}
	cov := map[string]any{
		"explanation":         r.Explanation,
		"obligations":         total,
		"discharged":          discharged,
		"evaluations":         total,
		"distinct_nontrivial": nontriv,
		"rule":                r.RuleText,
		"samples":             samples,
		"exhaustive":          true,
		"per_rule":            stats,
		"known_findings_hit":  len(knownHits),
		"engines":             r.Engines,
		"notes":               r.Notes,
	}
	for k, v := range r.Extra {
		cov[k] = v
	}
	ev := map[string]any{
		"property_id": r.Property,
		"tier":        r.Tier,
		"seed":        r.Seed,
		"level":       "other",
		"coverage":    cov,
		"assumptions": r.Assumptions,
		"wall_s":      time.Since(r.Start).Seconds(),
		"violations":  len(viol),
	}
	b, _ := json.MarshalIndent(ev, "", " ")
	os.MkdirAll(filepath.Join(verifDir, "evidence"), 0o755)
	if err := os.WriteFile(filepath.Join(verifDir, "evidence", r.Property+".json"), b, 0o644); err != nil {
		fmt.Printf("cannot write evidence: %v\n", err)
		return 2
	}
	fmt.Printf("property=%s tier=%s obligations=%d discharged=%d distinct_nontrivial=%d known=%d violations=%d wall=%.1fs\n",
		r.Property, r.Tier, total, discharged, nontriv, len(knownHits), len(viol), time.Since(r.Start).Seconds())
	var rs []string
	for k := range stats {
		rs = append(rs, k)
	}
	sort.Strings(rs)
	for _, k := range rs {
		fmt.Printf("  rule %-16s instances=%d min=%d failed=%d\n", k, stats[k].Instances, stats[k].Min, stats[k].Failed)
	}
	// known findings: one line per distinct abstract key
	seenK := map[string]bool{}
	for _, o := range knownHits {
		fk := o.FindingKey()
		if seenK[fk] {
			continue
		}
		seenK[fk] = true
		n := 0
		for _, o2 := range knownHits {
			if o2.FindingKey() == fk {
				n++
			}
		}
		fmt.Printf("KNOWN-FINDING: property=%s %s (%d site(s), e.g. %s) %s\n", r.Property, fk, n, o.Pos, known[r.Property+"|"+fk].What)
	}
	for i, o := range viol {
		rp := filepath.Join(replayDir, fmt.Sprintf("%s-%d.json", r.Property, i+1))
		jb, _ := json.MarshalIndent(map[string]any{"property": r.Property, "obligation": o, "finding_key": o.FindingKey()}, "", " ")
		os.WriteFile(rp, jb, 0o644)
		fmt.Printf("  violated: rule=%s at %s func=%s key=%s :: %s\n", o.Rule, o.Pos, o.Func, o.Key, o.Detail)
		fmt.Printf("VIOLATION property=%s replay=%s\n", r.Property, rp)
	}
	if len(viol) > 0 {
		return 1
	}
	return 0
}
