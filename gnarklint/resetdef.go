package main

// RESET-DEF (C06, C10): a stateful blueprint caches data computed from the witness of the running solve on the
// blueprint object, which lives in the shared constraint system. Reset() is what separates one solve from the
// next: every field that Solve (or a method other than Reset) writes must be assigned by Reset on every path to
// its return — an early return keeps the previous witness's cache alive.

import (
	"fmt"
	"go/types"
	"sort"

	"golang.org/x/tools/go/ssa"
)

func RunResetDef(p *Prog, r *Report) {
	const rule = "RESET-DEF"
	type tinfo struct {
		reset  *ssa.Function
		others []*ssa.Function
	}
	byType := map[string]*tinfo{}
	for _, fn := range p.Funcs {
		pk := FuncPkg(fn)
		if pk == nil || pk.Path() != modPath+"/constraint" || fn.Signature.Recv() == nil || fn.Parent() != nil || len(fn.Blocks) == 0 {
			continue
		}
		if o := fn.Origin(); o != nil && o != fn {
			continue // analyse the generic origin once
		}
		tn := namedName(deref(fn.Signature.Recv().Type()))
		if tn == "" {
			continue
		}
		ti := byType[tn]
		if ti == nil {
			ti = &tinfo{}
			byType[tn] = ti
		}
		if fn.Name() == "Reset" && fn.Signature.Params().Len() == 0 {
			ti.reset = fn
		} else {
			ti.others = append(ti.others, fn)
		}
	}
	var names []string
	for n, ti := range byType {
		if ti.reset != nil {
			names = append(names, n)
		}
	}
	sort.Strings(names)
	n := 0
	for _, tn := range names {
		ti := byType[tn]
		hasSolve := false
		for _, f := range ti.others {
			if f.Name() == "Solve" {
				hasSolve = true
			}
		}
		if !hasSolve {
			continue
		}
		var fieldStoresD func(fn *ssa.Function, depth int) map[string][]*ssa.BasicBlock
		fieldStores := func(fn *ssa.Function) map[string][]*ssa.BasicBlock { return fieldStoresD(fn, 0) }
		fieldStoresD = func(fn *ssa.Function, depth int) map[string][]*ssa.BasicBlock {
			out := map[string][]*ssa.BasicBlock{}
			if len(fn.Params) == 0 {
				return out
			}
			recv := fn.Params[0]
			var fns []*ssa.Function
			fns = append(fns, fn)
			for _, b := range fn.Blocks {
				for _, ins := range b.Instrs {
					// a helper method of the same object that assigns a field on all its paths (`b.clear()`)
					if c, ok := ins.(*ssa.Call); ok && depth < 2 {
						cal := c.Call.StaticCallee()
						if cal != nil && cal.Origin() != nil && cal.Origin() != cal {
							cal = cal.Origin() // a call inside a generic body names an instantiation (wrapper): analyse the origin
						}
						if cal != nil && len(c.Call.Args) > 0 && c.Call.Args[0] == recv && len(cal.Blocks) > 0 && cal != fn {
							for name, blocks := range fieldStoresD(cal, depth+1) {
								w := map[*ssa.BasicBlock]bool{}
								for _, bb := range blocks {
									w[bb] = true
								}
								if !exitAvoiding(cal, w) {
									out[name] = append(out[name], b)
								}
							}
						}
					}
					st, ok := ins.(*ssa.Store)
					if !ok {
						continue
					}
					fa, ok := st.Addr.(*ssa.FieldAddr)
					if !ok || fa.X != recv {
						continue
					}
					if _, isStruct := deref(fa.X.Type()).Underlying().(*types.Struct); !isStruct {
						continue
					}
					name := fieldName(fa.X.Type(), fa.Field)
					out[name] = append(out[name], b)
				}
			}
			return out
		}
		state := map[string]string{}
		for _, f := range ti.others {
			if f.Name() != "Solve" && f.Name() != "solve" {
				// only what a solve writes is per-solve state; constructors / decoders set configuration
				if f.Name() != "Solve" {
					continue
				}
			}
			for name := range fieldStores(f) {
				state[name] = f.Name()
			}
		}
		resetStores := fieldStores(ti.reset)
		var fields []string
		for f := range state {
			fields = append(fields, f)
		}
		sort.Strings(fields)
		for _, f := range fields {
			n++
			key := "reset:" + tn + "." + f
			pos := p.Pos(FuncPos(ti.reset))
			w := map[*ssa.BasicBlock]bool{}
			for _, b := range resetStores[f] {
				w[b] = true
			}
			if len(w) == 0 {
				r.Fail(rule, modPath+"/constraint", FuncName(ti.reset), key, pos, fmt.Sprintf("field %s is written by %s.%s during a solve and never assigned by Reset: the value computed from one witness survives into the next solve", f, tn, state[f]))
			} else if exitAvoiding(ti.reset, w) {
				r.Fail(rule, modPath+"/constraint", FuncName(ti.reset), key, pos, fmt.Sprintf("Reset can return without assigning field %s (written by %s.%s during a solve): on that path the cache of the previous witness is kept", f, tn, state[f]))
			} else {
				r.Pass(rule, modPath+"/constraint", FuncName(ti.reset), key, pos, fmt.Sprintf("every return of Reset passes an assignment of %s", f), true)
			}
		}
	}
	if n < 2 {
		r.Fail("UNRESOLVED", "-", "-", "stateful blueprint fields", "-", fmt.Sprintf("%d per-solve fields of stateful blueprints found, confirmed 2 (BlueprintLookupHint.cachedEntries, cachedOffset)", n))
	}
}
