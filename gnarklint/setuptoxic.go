package main

// SETUP-TOXIC (C01): the Groth16 trapdoor. Soundness of every key produced by Setup rests on τ, α, β, γ, δ being
// fresh, independent field elements nobody knows. In each function whose result is the per-curve toxic-waste
// struct (found from the code: a struct of field elements returned by a function that Setup calls and that draws
// randomness), every field is written either by an error-checked SetRandom on exactly that field, or by
// Inverse of another field of the same object; there is no other write (no copy of one scalar into another, no
// constant), and no field is left unwritten.

import (
	"fmt"
	"go/token"
	"go/types"
	"sort"
	"strings"

	"golang.org/x/tools/go/ssa"
)

func RunSetupToxic(p *Prog, r *Report) {
	const rule = "SETUP-TOXIC"
	setups := p.FuncsMatching("github.com/consensys/gnark/backend/groth16/<curve>.Setup")
	if len(setups) < 7 {
		r.Fail("UNRESOLVED", "-", "-", "groth16.Setup", "-", fmt.Sprintf("%d instances, confirmed 7", len(setups)))
	}
	n := 0
	for _, setup := range setups {
		pkg := FuncPkg(setup).Path()
		// samplers: same-package static callees of Setup that return a struct and contain a SetRandom call
		var samplers []*ssa.Function
		seen := map[*ssa.Function]bool{}
		for _, b := range setup.Blocks {
			for _, ins := range b.Instrs {
				c, ok := ins.(*ssa.Call)
				if !ok {
					continue
				}
				cal := c.Call.StaticCallee()
				if cal == nil || seen[cal] || FuncPkg(cal) == nil || FuncPkg(cal).Path() != pkg || cal.Signature.Results().Len() == 0 {
					continue
				}
				seen[cal] = true
				if _, isStruct := deref(cal.Signature.Results().At(0).Type()).Underlying().(*types.Struct); !isStruct {
					continue
				}
				nd, _ := drawsIn(cal)
				if nd > 0 {
					samplers = append(samplers, cal)
				}
			}
		}
		if len(samplers) == 0 {
			r.Fail("UNRESOLVED", pkg, FuncName(setup), "toxic-waste sampler", p.Pos(FuncPos(setup)), "Setup calls no same-package function returning a struct of freshly drawn scalars")
			continue
		}
		for _, fn := range samplers {
			st := deref(fn.Signature.Results().At(0).Type()).Underlying().(*types.Struct)
			type fieldFacts struct {
				draws, unchecked int
				inverseOf       []string
				other           []string
			}
			facts := make([]fieldFacts, st.NumFields())
			// the result object: allocs of the struct type in fn
			fieldOf := func(v ssa.Value) (int, bool) {
				fa, ok := v.(*ssa.FieldAddr)
				if !ok {
					return 0, false
				}
				if !types.Identical(deref(fa.X.Type()).Underlying(), st) {
					return 0, false
				}
				return fa.Field, true
			}
			for _, b := range fn.Blocks {
				for _, ins := range b.Instrs {
					switch x := ins.(type) {
					case *ssa.Store:
						if f, ok := fieldOf(x.Addr); ok {
							facts[f].other = append(facts[f].other, "store at "+p.Pos(x.Pos()))
						} else if a, ok := x.Addr.(*ssa.Alloc); ok && types.Identical(deref(a.Type()).Underlying(), st) {
							if _, isC := x.Val.(*ssa.Const); !isC {
								if _, isL := x.Val.(*ssa.UnOp); isL {
									for i := range facts {
										facts[i].other = append(facts[i].other, "whole-object store at "+p.Pos(x.Pos()))
									}
								}
							}
						}
					case *ssa.Call:
						if len(x.Call.Args) == 0 || x.Call.IsInvoke() {
							continue
						}
						f, ok := fieldOf(x.Call.Args[0])
						if !ok {
							continue
						}
						name := CalleeName(&x.Call)
						short := name[strings.LastIndex(name, ".")+1:]
						switch {
						case isSetRandom(x):
							facts[f].draws++
							if !errChecked(x) && !strings.HasPrefix(short, "Must") {
								facts[f].unchecked++
							}
						case short == "Inverse" && len(x.Call.Args) == 2:
							if g, ok := fieldOf(x.Call.Args[1]); ok && g != f {
								facts[f].inverseOf = append(facts[f].inverseOf, st.Field(g).Name())
							} else {
								facts[f].other = append(facts[f].other, "Inverse of something else at "+p.Pos(x.Pos()))
							}
						case short == "IsZero" || short == "Equal" || short == "IsOne" || short == "String" || short == "Cmp" || short == "Bytes" || short == "BigInt":
							// reads
						default:
							facts[f].other = append(facts[f].other, short+" at "+p.Pos(x.Pos()))
						}
					}
				}
			}
			for i := 0; i < st.NumFields(); i++ {
				fld := st.Field(i)
				key := "toxic:" + fld.Name()
				ff := facts[i]
				pos := p.Pos(FuncPos(fn))
				switch {
				case len(ff.other) > 0:
					sort.Strings(ff.other)
					r.Fail(rule, pkg, FuncName(fn), key, pos, fmt.Sprintf("trapdoor scalar %s is also written by %v; every trapdoor scalar must be a fresh SetRandom draw (or the inverse of one)", fld.Name(), ff.other))
				case ff.draws > 0 && ff.unchecked == 0 && len(ff.inverseOf) == 0:
					n++
					r.Pass(rule, pkg, FuncName(fn), key, pos, fmt.Sprintf("%s: %d error-checked SetRandom draw(s) on exactly this field, no other write", fld.Name(), ff.draws), true)
				case ff.draws == 0 && len(ff.inverseOf) == 1:
					n++
					r.Pass(rule, pkg, FuncName(fn), key, pos, fmt.Sprintf("%s = Inverse(%s), no other write", fld.Name(), ff.inverseOf[0]), true)
				case ff.unchecked > 0:
					r.Fail(rule, pkg, FuncName(fn), key, pos, fmt.Sprintf("the error of the SetRandom draw of trapdoor scalar %s is ignored: on failure the scalar keeps a predictable value", fld.Name()))
				default:
					r.Fail(rule, pkg, FuncName(fn), key, pos, fmt.Sprintf("trapdoor scalar %s is never drawn (draws=%d, inverse-of=%v): it keeps its zero value or a value computable from the others", fld.Name(), ff.draws, ff.inverseOf))
				}
			}
			// the sampler's failure must make Setup fail: the error result of the call is used
			_ = token.NoPos
		}
	}
	_ = n
}
