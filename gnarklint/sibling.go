package main

import (
	"bufio"
	"go/token"
	"go/types"
	"encoding/json"
	"fmt"
	"os"
	"path/filepath"
	"regexp"
	"sort"
	"strings"

	"golang.org/x/tools/go/ssa"
)

// sibling engine (DESIGN.md 3.11): the per-curve packages are generated from one template; for every
// function of a family the multiset of structural facts (resolved callees with argument provenance,
// three-index slices, go/defer/send/select, stored struct fields) must be equal across the members.
// Facts are order-insensitive, so reordering independent statements or renaming locals does not alarm.

type propAnchors struct {
	ID    string
	Files map[string]bool // abstracted file paths
}

func loadAnchors(prop string) (*propAnchors, error) {
	f, err := os.Open(filepath.Join(verifDir, "properties.jsonl"))
	if err != nil {
		return nil, err
	}
	defer f.Close()
	sc := bufio.NewScanner(f)
	sc.Buffer(make([]byte, 1<<20), 1<<24)
	for sc.Scan() {
		var rec struct {
			ID      string `json:"id"`
			Anchors struct {
				Files []string `json:"files"`
			} `json:"anchors"`
		}
		if err := json.Unmarshal(sc.Bytes(), &rec); err != nil {
			continue
		}
		if rec.ID == prop {
			pa := &propAnchors{ID: prop, Files: map[string]bool{}}
			for _, fl := range rec.Anchors.Files {
				pa.Files[Abstract(fl)] = true
			}
			return pa, nil
		}
	}
	return nil, fmt.Errorf("property %s not found in properties.jsonl", prop)
}

// noise packages: calls into them never enter the sibling facts (messages, logging, timing)
var siblingNoisePkgs = map[string]bool{"fmt": true, "errors": true, "time": true, "strings": true, "strconv": true, "log": true,
	"github.com/rs/zerolog": true, "github.com/consensys/gnark/logger": true, "runtime": true, "runtime/debug": true, "sort": true, "slices": true}

// funcFacts: order-insensitive structural facts of fn with calls to helpers of the same package inlined (their
// facts are rewritten into fn's parameter space), so that extracting or inlining a helper does not change them.
func funcFacts(fn *ssa.Function) map[string]int {
	return funcFactsD(fn, 0, map[*ssa.Function]bool{})
}

func funcFactsD(fn *ssa.Function, depth int, onStack map[*ssa.Function]bool) map[string]int {
	facts := map[string]int{}
	if onStack[fn] {
		return facts
	}
	onStack[fn] = true
	defer delete(onStack, fn)
	var walk func(f *ssa.Function)
	walk = func(f *ssa.Function) {
		for _, b := range f.Blocks {
			for _, ins := range b.Instrs {
				switch x := ins.(type) {
				case *ssa.Call:
					cal := x.Call.StaticCallee()
					if cal != nil {
						if pk := FuncPkg(cal); pk != nil {
							if siblingNoisePkgs[pk.Path()] {
								continue
							}
							if pk == FuncPkg(fn) && cal.Blocks != nil && depth < 2 && cal.Parent() == nil {
								var args []string
								for _, a := range x.Call.Args {
									args = append(args, normFact(Abstract(normIdx(Desc(a)))))
								}
								for k, n := range funcFactsD(cal, depth+1, onStack) {
									facts[substKey(k, args)] += n
								}
								continue
							}
						}
					}
					if bi, ok := x.Call.Value.(*ssa.Builtin); ok && (bi.Name() == "len" || bi.Name() == "cap" || bi.Name() == "print" || bi.Name() == "println") {
						continue
					}
					if x.Call.IsInvoke() {
						if n, ok := x.Call.Value.Type().(*types.Named); ok && n.Obj().Pkg() != nil && siblingNoisePkgs[n.Obj().Pkg().Path()] {
							continue
						}
					}
					facts[normFact("call:"+Abstract(normIdx(CallKey(&x.Call))))]++
				case *ssa.Go:
					facts["go:"+Abstract(CalleeName(&x.Call))]++
				case *ssa.Defer:
					facts["defer:"+Abstract(CalleeName(&x.Call))]++
				case *ssa.Send:
					facts["send:"+Abstract(normIdx(Desc(x.Chan)))]++
				case *ssa.Select:
					facts[fmt.Sprintf("select:%d blocking=%v", len(x.States), x.Blocking)]++
				case *ssa.Slice:
					if x.Max != nil {
						facts["slice3:"+Abstract(normIdx(Desc(x.X)))]++
					}
				case *ssa.Store:
					if fa, ok := x.Addr.(*ssa.FieldAddr); ok {
						facts["store:"+Abstract(namedName(fa.X.Type()))+"."+fieldName(fa.X.Type(), fa.Field)]++
					}
				case *ssa.Panic:
					facts["panic"]++
				case *ssa.BinOp:
					// coarse arithmetic fingerprint: operator classes only (a != b vs !(a == b), i++ vs i += 1 agree)
					switch x.Op {
					case token.ADD, token.SUB:
						if _, isStr := x.Type().Underlying().(*types.Basic); isStr && x.Type().Underlying().(*types.Basic).Info()&types.IsString != 0 {
							break
						}
						facts["arith:addsub"]++
					case token.MUL, token.QUO, token.REM:
						facts["arith:muldiv"]++
					case token.SHL, token.SHR, token.AND, token.OR, token.XOR, token.AND_NOT:
						facts["arith:bits"]++
					case token.EQL, token.NEQ, token.LSS, token.LEQ, token.GTR, token.GEQ:
						// comparisons with nil (error plumbing) come and go with helper extraction: not arithmetic
						if cx, ok := x.X.(*ssa.Const); ok && cx.IsNil() {
							break
						}
						if cy, ok := x.Y.(*ssa.Const); ok && cy.IsNil() {
							break
						}
						facts["arith:compare"]++
					}
				}
			}
		}
		for _, a := range f.AnonFuncs {
			walk(a)
		}
	}
	walk(fn)
	return facts
}

func factsKey(m map[string]int) string {
	var ks []string
	for k, v := range m {
		ks = append(ks, fmt.Sprintf("%s×%d", k, v))
	}
	sort.Strings(ks)
	return strings.Join(ks, "\n")
}

// RunSibling compares, for property prop, every top-level function declared in an anchored file of a curve family.
func RunSibling(p *Prog, r *Report, prop string) {
	pa, err := loadAnchors(prop)
	if err != nil {
		r.Fail("UNRESOLVED", "-", "-", "anchors", "-", err.Error())
		return
	}
	type member struct {
		fn    *ssa.Function
		facts map[string]int
		key   string
	}
	fam := map[string][]*member{}
	for _, fn := range p.Funcs {
		if fn.Parent() != nil || fn.Synthetic != "" {
			continue
		}
		pk := FuncPkg(fn)
		if pk == nil || CurveOf(pk.Path()) == "" || fieldRe.MatchString(pk.Path()) {
			continue
		}
		file := p.RelFile(FuncPos(fn))
		if file == "" || !pa.Files[Abstract(file)] {
			continue
		}
		an := Abstract(FuncName(fn))
		f := funcFacts(fn)
		fam[an] = append(fam[an], &member{fn, f, factsKey(f)})
	}
	var names []string
	for n := range fam {
		names = append(names, n)
	}
	sort.Strings(names)
	for _, n := range names {
		ms := fam[n]
		if len(ms) < 3 {
			continue
		}
		// majority fingerprint
		cnt := map[string]int{}
		for _, m := range ms {
			cnt[m.key]++
		}
		best, bestN := "", 0
		for k, c := range cnt {
			if c > bestN || (c == bestN && k < best) {
				best, bestN = k, c
			}
		}
		var ref *member
		for _, m := range ms {
			if m.key == best {
				ref = m
				break
			}
		}
		for _, m := range ms {
			pkg := FuncPkg(m.fn).Path()
			if m.key == best {
				r.Pass("SIBLING", pkg, FuncName(m.fn), "facts", p.Pos(FuncPos(m.fn)), fmt.Sprintf("structural facts (%d) equal to %d/%d siblings", len(m.facts), bestN, len(ms)), len(m.facts) > 3)
				continue
			}
			// difference
			var diff []string
			for k, v := range ref.facts {
				if m.facts[k] != v {
					diff = append(diff, fmt.Sprintf("%s: %d vs %d in siblings", k, m.facts[k], v))
				}
			}
			for k, v := range m.facts {
				if _, ok := ref.facts[k]; !ok {
					diff = append(diff, fmt.Sprintf("%s: %d vs 0 in siblings", k, v))
				}
			}
			sort.Strings(diff)
			if len(diff) > 6 {
				diff = diff[:6]
			}
			if why, ok := siblingAsym[Abstract(FuncName(m.fn))]; ok {
				r.Pass("SIBLING", pkg, FuncName(m.fn), "facts", p.Pos(FuncPos(m.fn)), "declared asymmetry: "+why, true)
				continue
			}
			r.Fail("SIBLING", pkg, FuncName(m.fn), "facts", p.Pos(FuncPos(m.fn)), fmt.Sprintf("generated sibling deviates from the %d other instantiations of the same template: %s", bestN, strings.Join(diff, " ; ")))
		}
	}
}

// declared asymmetries between siblings (function abstract name -> reason)
var siblingAsym = map[string]string{
	"github.com/consensys/gnark/backend/plonk/<curve>.(*VerifyingKey).ExportSolidity":   "Solidity export exists for bn254 only; the other curves return 'not implemented'",
	"github.com/consensys/gnark/backend/groth16/<curve>.(*VerifyingKey).ExportSolidity": "Solidity export exists for bn254 only; the other curves return 'not implemented'",
}

var arrSizeRe = regexp.MustCompile(`\[\d+\](byte|uint64|uint32)`)

var bigIntRe = regexp.MustCompile(`\b([3-9]\d|\d{3,})\b`)

// normFact removes curve-size dependent numbers: array sizes and integer constants >= 30 (field / point byte sizes).
func normFact(s string) string {
	s = arrSizeRe.ReplaceAllString(s, "[N]$1")
	return bigIntRe.ReplaceAllString(s, "K")
}
