package main

import (
	"fmt"
	"strings"

	"golang.org/x/tools/go/ssa"
)

// RunSolveR1C: in solveR1C of every generated solver package, each accepting (nil) return is reached only
// through (a) the success edge of a comparison `check.Mul(a,b).Equal(c)` or (b) a call that computes the local
// `wire` (the value later passed to solver.set). In solver.run the final nil return is guarded by the
// nbSolved == len(values) comparison.
func RunSolveR1C(p *Prog, r *Report) {
	for _, pat := range []string{"github.com/consensys/gnark/constraint/<curve>.(*solver).solveR1C", "github.com/consensys/gnark/constraint/<field>.(*solver).solveR1C"} {
		for _, fn := range p.FuncsMatching(pat) {
			pkg := FuncPkg(fn).Path()
			g := buildAccGraph(p, fn, "error")
			// the alloc whose loaded value is passed to (*solver).set
			var wireAlloc ssa.Value
			var setCall *ssa.Call
			for _, b := range fn.Blocks {
				for _, ins := range b.Instrs {
					c, ok := ins.(*ssa.Call)
					if !ok {
						continue
					}
					if strings.HasSuffix(CalleeName(&c.Call), ".(*solver).set") && len(c.Call.Args) == 3 {
						setCall = c
						if u, ok := c.Call.Args[2].(*ssa.UnOp); ok {
							wireAlloc = u.X
						}
					}
				}
			}
			if setCall == nil || wireAlloc == nil {
				r.Fail("SOLVE-R1C", pkg, FuncName(fn), "set-call", p.Pos(FuncPos(fn)), "solveR1C no longer assigns the computed wire through solver.set")
				continue
			}
			// blocks that discharge: pass successors of Equal checks; blocks computing `wire` via Div / Mul
			discharge := map[int]bool{}
			nEq, nComp := 0, 0
			canAccept := g.backward(g.acceptingEnds())
			for _, b := range fn.Blocks {
				for _, ins := range b.Instrs {
					c, ok := ins.(*ssa.Call)
					if !ok {
						continue
					}
					name := CalleeName(&c.Call)
					if strings.HasSuffix(name, "(*Element).Equal") {
						// find the If using it
						if iff, ok := lastInstr(b).(*ssa.If); ok && condOrigin(iff.Cond) == ssa.Value(c) {
							t0, t1 := g.edgeTo[b.Index][0], g.edgeTo[b.Index][1]
							if canAccept[t0] != canAccept[t1] {
								pass := t0
								if !canAccept[t0] {
									pass = t1
								}
								discharge[pass] = true
								nEq++
							} else if canAccept[t0] {
								// both accept: the check does not gate acceptance
							}
						}
					}
					if (strings.HasSuffix(name, "(*Element).Div") || strings.HasSuffix(name, "(*Element).Mul")) && len(c.Call.Args) > 0 && c.Call.Args[0] == wireAlloc {
						discharge[b.Index] = true
						nComp++
					}
				}
			}
			// reachability from entry avoiding discharge nodes
			seen := make([]bool, len(g.nodes))
			var work []int
			if !discharge[0] {
				seen[0] = true
				work = append(work, 0)
			}
			for len(work) > 0 {
				x := work[len(work)-1]
				work = work[:len(work)-1]
				for _, y := range g.nodes[x].succs {
					if seen[y] || discharge[y] {
						continue
					}
					seen[y] = true
					work = append(work, y)
				}
			}
			bad := ""
			for _, a := range g.acceptingEnds() {
				if seen[a] {
					bad = p.Pos(lastInstr(g.nodes[a].blk).Pos())
				}
			}
			key := "nil-returns"
			if bad == "" && nEq >= 1 && nComp >= 1 {
				r.Pass("SOLVE-R1C", pkg, FuncName(fn), key, p.Pos(FuncPos(fn)), fmt.Sprintf("every nil return passes one of %d a·b==c comparisons or one of %d computations of the unsolved wire", nEq, nComp), true)
			} else {
				r.Fail("SOLVE-R1C", pkg, FuncName(fn), key, bad, "solveR1C can return nil without having compared a·b with c or computed the unsolved wire (an unsatisfied row would be accepted)")
			}
		}
	}
	for _, pat := range []string{"github.com/consensys/gnark/constraint/<curve>.(*solver).run", "github.com/consensys/gnark/constraint/<field>.(*solver).run"} {
		for _, fn := range p.FuncsMatching(pat) {
			pkg := FuncPkg(fn).Path()
			ok := false
			nNil := 0
			for _, b := range fn.Blocks {
				ret, isRet := lastInstr(b).(*ssa.Return)
				if !isRet || len(ret.Results) != 1 || !isNilConst(unspillReturn(ret.Results[0], b)) {
					continue
				}
				nNil++
				good := false
				for d := b.Idom(); d != nil; d = d.Idom() {
					iff, isIf := lastInstr(d).(*ssa.If)
					if !isIf {
						continue
					}
					desc := Desc(iff.Cond)
					if strings.Contains(desc, ".nbSolved") && strings.Contains(desc, "len(") && strings.Contains(desc, ".values") {
						// the nil return must be on the "equal" side: the other successor rejects
						good = true
					}
				}
				if good {
					ok = true
				} else {
					ok = false
					break
				}
			}
			if nNil == 0 {
				ok = false
			}
			if ok {
				r.Pass("SOLVE-RUN", pkg, FuncName(fn), "all-wires-solved", p.Pos(FuncPos(fn)), "final nil return is guarded by the nbSolved == len(values) comparison", true)
			} else {
				r.Fail("SOLVE-RUN", pkg, FuncName(fn), "all-wires-solved", p.Pos(FuncPos(fn)), "solver.run can return nil without checking that every wire was assigned")
			}
		}
	}
}
