package main

import (
	"fmt"
	"go/token"
	"os"
	"strings"

	"golang.org/x/tools/go/ssa"
)

// RunSolveR1C: in solveR1C of every generated solver package, each accepting (nil) return is reached only
// through (a) the success edge of a comparison `check.Mul(a,b).Equal(c)` or (b) a call that computes the local
// `wire` (the value later passed to solver.set). In solver.run the final nil return is guarded by the
// nbSolved == len(values) comparison.
func RunSolveR1C(p *Prog, r *Report) {
	for _, pat := range []string{"github.com/consensys/gnark/constraint/<curve>.(*solver).solveR1C", "github.com/consensys/gnark/constraint/<field>.(*solver).solveR1C"} {
		for _, fn := range p.FuncsMatching(pat) {
			pkg := FuncPkg(fn).Path()
			g := buildAccGraph(p, fn, "error")
			// the alloc whose loaded value is passed to (*solver).set
			var wireAlloc ssa.Value
			var setCall *ssa.Call
			for _, b := range fn.Blocks {
				for _, ins := range b.Instrs {
					c, ok := ins.(*ssa.Call)
					if !ok {
						continue
					}
					if strings.HasSuffix(CalleeName(&c.Call), ".(*solver).set") && len(c.Call.Args) == 3 {
						setCall = c
						if u, ok := c.Call.Args[2].(*ssa.UnOp); ok {
							wireAlloc = u.X
						}
					}
				}
			}
			if setCall == nil || wireAlloc == nil {
				r.Fail("SOLVE-R1C", pkg, FuncName(fn), "set-call", p.Pos(FuncPos(fn)), "solveR1C no longer assigns the computed wire through solver.set")
				continue
			}
			// blocks that discharge: pass successors of Equal checks; blocks computing `wire` via Div / Mul
			discharge := map[int]bool{}
			dischargeEdge := map[[2]int]bool{}
			nEq, nComp := 0, 0
			canAccept := g.backward(g.acceptingEnds())
			for _, b := range fn.Blocks {
				for _, ins := range b.Instrs {
					c, ok := ins.(*ssa.Call)
					if !ok {
						continue
					}
					name := CalleeName(&c.Call)
					if strings.HasSuffix(name, "(*Element).Equal") {
						// find the If using it
						if iff, ok := lastInstr(b).(*ssa.If); ok && condOrigin(iff.Cond) == ssa.Value(c) {
							t0, t1 := g.edgeTo[b.Index][0], g.edgeTo[b.Index][1]
							if canAccept[t0] != canAccept[t1] {
								pass := t0
								if !canAccept[t0] {
									pass = t1
								}
								dischargeEdge[[2]int{b.Index, pass}] = true
								nEq++
							} else if canAccept[t0] {
								// both accept: the check does not gate acceptance
							}
						}
					}
					// the comparison extracted into a helper of the same package that returns nil only behind it
					if cal := c.Call.StaticCallee(); cal != nil && FuncPkg(cal) != nil && FuncPkg(cal).Path() == pkg && cal != fn && equalGuarded(p, cal) {
						discharge[b.Index] = true
						nEq++
					}
					if (strings.HasSuffix(name, "(*Element).Div") || strings.HasSuffix(name, "(*Element).Mul")) && len(c.Call.Args) > 0 && c.Call.Args[0] == wireAlloc {
						discharge[b.Index] = true
						nComp++
					}
				}
			}
			// infeasible edges: `switch loc` without default where loc ranges over a finite set of constants
			for e := range infeasibleSwitchEdges(fn) {
				dischargeEdge[e] = true
			}
			// reachability from entry avoiding discharge nodes
			seen := make([]bool, len(g.nodes))
			var work []int
			if !discharge[0] {
				seen[0] = true
				work = append(work, 0)
			}
			for len(work) > 0 {
				x := work[len(work)-1]
				work = work[:len(work)-1]
				for _, y := range g.nodes[x].succs {
					if seen[y] || discharge[y] || dischargeEdge[[2]int{x, y}] {
						continue
					}
					seen[y] = true
					work = append(work, y)
				}
			}
			bad := ""
			for _, a := range g.acceptingEnds() {
				if seen[a] {
					bad = p.Pos(lastInstr(g.nodes[a].blk).Pos())
				}
			}
			if os.Getenv("R1CDBG") != "" {
				fmt.Println("R1CDBG", pkg, "discharge", discharge, "accepting", g.acceptingEnds(), "nEq", nEq, "nComp", nComp)
				for i, n := range g.nodes {
					fmt.Printf("  node %d class=%d succs=%v seen=%v\n", i, n.class, n.succs, seen[i])
				}
			}
			key := "nil-returns"
			if bad == "" && nEq >= 1 && nComp >= 1 {
				r.Pass("SOLVE-R1C", pkg, FuncName(fn), key, p.Pos(FuncPos(fn)), fmt.Sprintf("every nil return passes one of %d a·b==c comparisons or one of %d computations of the unsolved wire", nEq, nComp), true)
			} else {
				r.Fail("SOLVE-R1C", pkg, FuncName(fn), key, bad, "solveR1C can return nil without having compared a·b with c or computed the unsolved wire (an unsatisfied row would be accepted)")
			}
		}
	}
	for _, pat := range []string{"github.com/consensys/gnark/constraint/<curve>.(*solver).run", "github.com/consensys/gnark/constraint/<field>.(*solver).run"} {
		for _, fn := range p.FuncsMatching(pat) {
			pkg := FuncPkg(fn).Path()
			ok := false
			nNil := 0
			for _, b := range fn.Blocks {
				ret, isRet := lastInstr(b).(*ssa.Return)
				if !isRet || len(ret.Results) != 1 || !isNilConst(unspillReturn(ret.Results[0], b)) {
					continue
				}
				nNil++
				good := false
				for d := b.Idom(); d != nil; d = d.Idom() {
					iff, isIf := lastInstr(d).(*ssa.If)
					if !isIf {
						continue
					}
					desc := Desc(iff.Cond)
					if strings.Contains(desc, ".nbSolved") && strings.Contains(desc, "len(") && strings.Contains(desc, ".values") {
						// the nil return must be on the "equal" side: the other successor rejects
						good = true
					}
				}
				if good {
					ok = true
				} else {
					ok = false
					break
				}
			}
			if nNil == 0 {
				ok = false
			}
			if ok {
				r.Pass("SOLVE-RUN", pkg, FuncName(fn), "all-wires-solved", p.Pos(FuncPos(fn)), "final nil return is guarded by the nbSolved == len(values) comparison", true)
			} else {
				r.Fail("SOLVE-RUN", pkg, FuncName(fn), "all-wires-solved", p.Pos(FuncPos(fn)), "solver.run can return nil without checking that every wire was assigned")
			}
		}
	}
}

// infeasibleSwitchEdges: for a variable cell that only ever holds constants from a finite set S (zero value, constants
// stored directly, constants passed to a closure parameter that is stored into it), the false edge of a test
// `cell == k` is infeasible once every value of S has been excluded by that test and the dominating tests whose
// false edges lead to it.
func infeasibleSwitchEdges(fn *ssa.Function) map[[2]int]bool {
	out := map[[2]int]bool{}
	type test struct {
		blk  *ssa.BasicBlock
		k    int64
		cell *ssa.Alloc
	}
	var tests []test
	for _, b := range fn.Blocks {
		iff, ok := lastInstr(b).(*ssa.If)
		if !ok {
			continue
		}
		bo, ok := iff.Cond.(*ssa.BinOp)
		if !ok || bo.Op != token.EQL {
			continue
		}
		ld, ok := bo.X.(*ssa.UnOp)
		k, ok2 := bo.Y.(*ssa.Const)
		if !ok || !ok2 || ld.Op != token.MUL || k.Value == nil {
			continue
		}
		cell, ok := ld.X.(*ssa.Alloc)
		if !ok {
			continue
		}
		tests = append(tests, test{b, k.Int64(), cell})
	}
	values := func(cell *ssa.Alloc) (map[int64]bool, bool) {
		S := map[int64]bool{0: true}
		okAll := true
		var scan func(f *ssa.Function, cellV ssa.Value)
		scan = func(f *ssa.Function, cellV ssa.Value) {
			for _, b := range f.Blocks {
				for _, ins := range b.Instrs {
					st, ok := ins.(*ssa.Store)
					if !ok || st.Addr != cellV {
						continue
					}
					switch v := st.Val.(type) {
					case *ssa.Const:
						if v.Value != nil {
							S[v.Int64()] = true
						}
					case *ssa.Parameter:
						// constants passed at the call sites of this closure
						cl := v.Parent()
						idx := paramIndex(v)
						found := false
						for _, pb := range fn.Blocks {
							for _, pi := range pb.Instrs {
								c, ok := pi.(*ssa.Call)
								if !ok {
									continue
								}
								mc, ok := c.Call.Value.(*ssa.MakeClosure)
								if !ok || mc.Fn != cl || idx >= len(c.Call.Args) {
									continue
								}
								if kc, ok := c.Call.Args[idx].(*ssa.Const); ok && kc.Value != nil {
									S[kc.Int64()] = true
									found = true
								} else {
									okAll = false
								}
							}
						}
						if !found {
							okAll = false
						}
					default:
						okAll = false
					}
				}
			}
		}
		scan(fn, cell)
		for _, a := range fn.AnonFuncs {
			for i, fv := range a.FreeVars {
				for _, b := range fn.Blocks {
					for _, ins := range b.Instrs {
						if mc, ok := ins.(*ssa.MakeClosure); ok && mc.Fn == a && i < len(mc.Bindings) && mc.Bindings[i] == ssa.Value(cell) {
							scan(a, fv)
						}
					}
				}
			}
		}
		return S, okAll
	}
	for _, t := range tests {
		S, ok := values(t.cell)
		if !ok {
			continue
		}
		excl := map[int64]bool{t.k: true}
		for _, d := range tests {
			if d.cell != t.cell || d.blk == t.blk {
				continue
			}
			fs := d.blk.Succs[1]
			if fs == t.blk || fs.Dominates(t.blk) {
				excl[d.k] = true
			}
		}
		all := true
		for v := range S {
			if !excl[v] {
				all = false
			}
		}
		if all {
			out[[2]int{t.blk.Index, t.blk.Succs[1].Index}] = true
		}
	}
	return out
}

var equalGuardedMemo = map[*ssa.Function]bool{}

// equalGuarded: h returns an error, contains a field-element Equal comparison, and every nil return of h lies behind
// the success edge of such a comparison.
func equalGuarded(p *Prog, h *ssa.Function) bool {
	if v, ok := equalGuardedMemo[h]; ok {
		return v
	}
	equalGuardedMemo[h] = false
	res := h.Signature.Results()
	if h.Blocks == nil || res.Len() != 1 || !isErrorType(res.At(0).Type()) {
		return false
	}
	g := buildAccGraph(p, h, "error")
	canAccept := g.backward(g.acceptingEnds())
	edge := map[[2]int]bool{}
	n := 0
	for _, b := range h.Blocks {
		for _, ins := range b.Instrs {
			c, ok := ins.(*ssa.Call)
			if !ok || !strings.HasSuffix(CalleeName(&c.Call), "(*Element).Equal") {
				continue
			}
			if iff, ok := lastInstr(b).(*ssa.If); ok && condOrigin(iff.Cond) == ssa.Value(c) {
				t0, t1 := g.edgeTo[b.Index][0], g.edgeTo[b.Index][1]
				if canAccept[t0] != canAccept[t1] {
					pass := t0
					if !canAccept[t0] {
						pass = t1
					}
					edge[[2]int{b.Index, pass}] = true
					n++
				}
			}
		}
	}
	if n == 0 {
		return false
	}
	seen := make([]bool, len(g.nodes))
	seen[0] = true
	work := []int{0}
	for len(work) > 0 {
		x := work[len(work)-1]
		work = work[:len(work)-1]
		for _, y := range g.nodes[x].succs {
			if seen[y] || edge[[2]int{x, y}] {
				continue
			}
			seen[y] = true
			work = append(work, y)
		}
	}
	for _, a := range g.acceptingEnds() {
		if seen[a] {
			return false
		}
	}
	equalGuardedMemo[h] = true
	return true
}
