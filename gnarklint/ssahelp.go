package main

import (
	"fmt"
	"go/constant"
	"go/token"
	"go/types"
	"sort"
	"strings"

	"golang.org/x/tools/go/ssa"
)

// ---------------------------------------------------------------------------
// value descriptors: canonical, position-free descriptions of SSA values
// rooted at function parameters ("$i" = i-th parameter incl. receiver).

type descCtx struct {
	p     *Prog
	depth int
	seen  map[ssa.Value]bool
}

func newDescCtx(p *Prog) *descCtx { return &descCtx{p: p, seen: map[ssa.Value]bool{}} }

// closureBinding resolves a FreeVar to the value bound in the parent's MakeClosure.
func closureBinding(fv *ssa.FreeVar) ssa.Value {
	fn := fv.Parent()
	par := fn.Parent()
	if par == nil {
		return nil
	}
	idx := -1
	for i, f := range fn.FreeVars {
		if f == fv {
			idx = i
		}
	}
	if idx < 0 {
		return nil
	}
	for _, b := range par.Blocks {
		for _, ins := range b.Instrs {
			if mc, ok := ins.(*ssa.MakeClosure); ok && mc.Fn == fn && idx < len(mc.Bindings) {
				return mc.Bindings[idx]
			}
		}
	}
	return nil
}

// singleStore returns the unique value stored into an Alloc that is never otherwise written
// (spilled parameter / single-assignment local); nil if not unique.
func singleStore(a *ssa.Alloc) ssa.Value {
	var val ssa.Value
	n := 0
	for _, r := range *a.Referrers() {
		if st, ok := r.(*ssa.Store); ok && st.Addr == a {
			val = st.Val
			n++
		}
	}
	if n == 1 {
		return val
	}
	return nil
}

func paramIndex(pm *ssa.Parameter) int {
	for i, q := range pm.Parent().Params {
		if q == pm {
			return i
		}
	}
	return -1
}

func fieldName(t types.Type, idx int) string {
	st, ok := deref(t).Underlying().(*types.Struct)
	if !ok || idx >= st.NumFields() {
		return fmt.Sprintf("f%d", idx)
	}
	return st.Field(idx).Name()
}

// Desc returns a canonical descriptor of v.
func Desc(v ssa.Value) string {
	return descV(v, 0, map[ssa.Value]bool{})
}

func descV(v ssa.Value, depth int, seen map[ssa.Value]bool) string {
	if v == nil {
		return "nil"
	}
	if depth > 24 || seen[v] {
		return "…"
	}
	seen[v] = true
	defer delete(seen, v)
	switch x := v.(type) {
	case *ssa.Parameter:
		if x.Parent().Parent() != nil {
			return fmt.Sprintf("cp$%d", paramIndex(x))
		}
		return fmt.Sprintf("$%d", paramIndex(x))
	case *ssa.FreeVar:
		if b := closureBinding(x); b != nil {
			return descV(b, depth+1, seen)
		}
		return "freevar"
	case *ssa.Const:
		if x.Value == nil {
			return "nil"
		}
		if x.Value.Kind() == constant.String {
			s := constant.StringVal(x.Value)
			if len(s) > 24 {
				s = s[:24]
			}
			return fmt.Sprintf("%q", s)
		}
		return x.Value.ExactString()
	case *ssa.Global:
		return "global:" + x.Name()
	case *ssa.Function:
		return "func:" + Abstract(FuncName(x))
	case *ssa.Builtin:
		return x.Name()
	case *ssa.FieldAddr:
		return descV(x.X, depth+1, seen) + "." + fieldName(x.X.Type(), x.Field)
	case *ssa.Field:
		return descV(x.X, depth+1, seen) + "." + fieldName(x.X.Type(), x.Field)
	case *ssa.UnOp:
		switch x.Op {
		case token.MUL:
			return descV(x.X, depth+1, seen)
		case token.ARROW:
			return "<-" + descV(x.X, depth+1, seen)
		case token.NOT:
			return "!" + descV(x.X, depth+1, seen)
		case token.SUB:
			return "-" + descV(x.X, depth+1, seen)
		}
		return x.Op.String() + descV(x.X, depth+1, seen)
	case *ssa.IndexAddr:
		return descV(x.X, depth+1, seen) + "[" + idxDesc(x.Index, depth, seen) + "]"
	case *ssa.Index:
		return descV(x.X, depth+1, seen) + "[" + idxDesc(x.Index, depth, seen) + "]"
	case *ssa.Lookup:
		return descV(x.X, depth+1, seen) + "[" + idxDesc(x.Index, depth, seen) + "]"
	case *ssa.Slice:
		s := descV(x.X, depth+1, seen)
		if x.Low == nil && x.High == nil {
			return s
		}
		lo, hi := "", ""
		if x.Low != nil {
			lo = idxDesc(x.Low, depth, seen)
		}
		if x.High != nil {
			hi = idxDesc(x.High, depth, seen)
		}
		return s + "[" + lo + ":" + hi + "]"
	case *ssa.Alloc:
		if sv := singleStore(x); sv != nil && x.Heap {
			if _, isParam := sv.(*ssa.Parameter); isParam {
				return descV(sv, depth+1, seen)
			}
		}
		// composite array literal: new [n]T with IndexAddr+Store of elements
		if arr, ok := deref(x.Type()).Underlying().(*types.Array); ok && arr.Len() <= 16 {
			if el := arrayLitElems(x); el != nil {
				parts := make([]string, len(el))
				for i, e := range el {
					parts[i] = descV(e, depth+1, seen)
				}
				return "{" + strings.Join(parts, ",") + "}"
			}
		}
		if sv := singleStore(x); sv != nil {
			switch sv.(type) {
			case *ssa.Parameter, *ssa.MakeChan:
				return descV(sv, depth+1, seen)
			}
		}
		return "local(" + namedName(x.Type()) + ")"
	case *ssa.Phi:
		var parts []string
		set := map[string]bool{}
		for _, e := range x.Edges {
			d := descV(e, depth+1, seen)
			if d == "…" || set[d] {
				continue
			}
			set[d] = true
			parts = append(parts, d)
		}
		sort.Strings(parts)
		if len(parts) == 1 {
			return parts[0]
		}
		if isIntType(x.Type()) {
			return "i"
		}
		return "phi(" + strings.Join(parts, "|") + ")"
	case *ssa.Call:
		return callDesc(&x.Call, depth, seen)
	case *ssa.Extract:
		return descV(x.Tuple, depth+1, seen) + fmt.Sprintf("#%d", x.Index)
	case *ssa.BinOp:
		return "(" + descV(x.X, depth+1, seen) + x.Op.String() + descV(x.Y, depth+1, seen) + ")"
	case *ssa.Convert:
		return descV(x.X, depth+1, seen)
	case *ssa.ChangeType:
		return descV(x.X, depth+1, seen)
	case *ssa.ChangeInterface:
		return descV(x.X, depth+1, seen)
	case *ssa.MakeInterface:
		return descV(x.X, depth+1, seen)
	case *ssa.TypeAssert:
		return descV(x.X, depth+1, seen)
	case *ssa.MakeSlice:
		return "make(" + namedName(x.Type()) + ")"
	case *ssa.MakeChan:
		return "chan"
	case *ssa.MakeMap:
		return "map"
	case *ssa.MakeClosure:
		return "closure:" + Abstract(FuncName(x.Fn.(*ssa.Function)))
	case *ssa.Range:
		return "range(" + descV(x.X, depth+1, seen) + ")"
	case *ssa.Next:
		return "next(" + descV(x.Iter, depth+1, seen) + ")"
	case *ssa.SliceToArrayPointer:
		return descV(x.X, depth+1, seen)
	}
	return fmt.Sprintf("?%T", v)
}

func isIntType(t types.Type) bool {
	b, ok := t.Underlying().(*types.Basic)
	return ok && b.Info()&types.IsInteger != 0
}

func idxDesc(v ssa.Value, depth int, seen map[ssa.Value]bool) string {
	if c, ok := v.(*ssa.Const); ok && c.Value != nil {
		return c.Value.ExactString()
	}
	if depth > 6 {
		return "i"
	}
	switch x := v.(type) {
	case *ssa.Phi:
		return "i"
	case *ssa.BinOp:
		return idxDesc(x.X, depth+1, seen) + x.Op.String() + idxDesc(x.Y, depth+1, seen)
	case *ssa.Call:
		if b, ok := x.Call.Value.(*ssa.Builtin); ok && b.Name() == "len" {
			return "len(" + descV(x.Call.Args[0], depth+1, seen) + ")"
		}
		return "i"
	case *ssa.Convert:
		return idxDesc(x.X, depth+1, seen)
	case *ssa.Extract:
		return "i"
	}
	d := descV(v, depth+1, seen)
	if strings.HasPrefix(d, "$") || strings.HasPrefix(d, "local") {
		return d
	}
	return "i"
}

// arrayLitElems recognises `new [n]T; &t[i] = e_i` and returns the stored elements in index order.
func arrayLitElems(a *ssa.Alloc) []ssa.Value {
	arr := deref(a.Type()).Underlying().(*types.Array)
	out := make([]ssa.Value, arr.Len())
	found := 0
	for _, r := range *a.Referrers() {
		switch ia := r.(type) {
		case *ssa.IndexAddr:
			c, ok := ia.Index.(*ssa.Const)
			if !ok {
				return nil
			}
			i, _ := constant.Int64Val(c.Value)
			for _, rr := range *ia.Referrers() {
				if st, ok := rr.(*ssa.Store); ok && st.Addr == ia {
					if int(i) < len(out) && out[i] == nil {
						out[i] = st.Val
						found++
					}
				}
			}
		case *ssa.Slice:
		default:
			_ = ia
		}
	}
	if found != len(out) || found == 0 {
		return nil
	}
	return out
}

// CalleeName returns the abstracted qualified name of the static callee, or "invoke:Iface.Method", or "dynamic".
func CalleeName(c *ssa.CallCommon) string {
	if c.IsInvoke() {
		return "invoke:" + namedQualAbs(c.Value.Type()) + "." + c.Method.Name()
	}
	if b, ok := c.Value.(*ssa.Builtin); ok {
		return "builtin:" + b.Name()
	}
	if f := c.StaticCallee(); f != nil {
		return Abstract(FuncName(f))
	}
	return "dynamic"
}

func namedQualAbs(t types.Type) string { return Abstract(namedQual(t)) }

func callDesc(c *ssa.CallCommon, depth int, seen map[ssa.Value]bool) string {
	name := CalleeName(c)
	var parts []string
	if c.IsInvoke() {
		parts = append(parts, descV(c.Value, depth+1, seen))
	}
	for _, a := range c.Args {
		parts = append(parts, descV(a, depth+1, seen))
	}
	return name + "(" + strings.Join(parts, ",") + ")"
}

// CallKey is the canonical event key of a call: callee + argument descriptors.
func CallKey(c *ssa.CallCommon) string {
	return callDesc(c, 0, map[ssa.Value]bool{})
}

// ---------------------------------------------------------------------------
// backward dependency slice (flow-insensitive, may-analysis)

type slicer struct {
	seen      map[ssa.Value]bool
	seenA     map[ssa.Value]bool      // visited in address mode
	params    map[*ssa.Parameter]bool // parameters reached
	paths     map[string]bool         // param-rooted descriptors of the locations actually read / passed
	calls     map[*ssa.Call]bool
	stop      func(v ssa.Value) bool // values at which slicing stops (treated as clean)
	noObj     bool                   // do not treat pointer-like call results / loads as shared mutable objects
	seenAlias map[ssa.Value]bool
	budget    int
}

func newSlicer() *slicer {
	return &slicer{seen: map[ssa.Value]bool{}, seenA: map[ssa.Value]bool{}, params: map[*ssa.Parameter]bool{}, paths: map[string]bool{}, calls: map[*ssa.Call]bool{}, budget: 300000}
}

func (s *slicer) record(v ssa.Value) {
	d := Desc(v)
	if strings.HasPrefix(d, "$") {
		s.paths[d] = true
	}
}

func (s *slicer) visit(v ssa.Value) { s.visitM(v, false) }

// visitM walks the backward dependencies of v. In address mode (addr=true) v is only the base of an
// address computation whose result has already been recorded, so intermediate locations are not recorded.
func (s *slicer) visitM(v ssa.Value, addr bool) {
	if v == nil || s.budget <= 0 {
		return
	}
	if addr {
		if s.seenA[v] || s.seen[v] {
			return
		}
		s.seenA[v] = true
	} else {
		if s.seen[v] {
			return
		}
		if s.stop != nil && s.stop(v) {
			return
		}
		s.seen[v] = true
	}
	s.budget--
	if !addr && !s.noObj {
		s.objectUses(v)
	}
	switch x := v.(type) {
	case *ssa.Parameter:
		s.params[x] = true
		if !addr {
			s.record(x)
		}
	case *ssa.FreeVar:
		if b := closureBinding(x); b != nil {
			s.visitM(b, addr)
		}
		s.visitAddrUses(x)
	case *ssa.Const, *ssa.Global, *ssa.Function, *ssa.Builtin:
	case *ssa.FieldAddr:
		if !addr {
			s.record(x)
		}
		s.visitM(x.X, true)
	case *ssa.Field:
		if !addr {
			s.record(x)
		}
		s.visitM(x.X, true)
	case *ssa.IndexAddr:
		if !addr {
			s.record(x)
		}
		// element-wise contract of gnark-crypto BatchScalarMultiplicationG1/G2(base, scalars): result[i] = scalars[i]·base
		if c, ok := resolveCell(x.X).(*ssa.Call); ok && strings.Contains(CalleeName(&c.Call), ".BatchScalarMultiplicationG") && len(c.Call.Args) == 2 {
			if k, ok := x.Index.(*ssa.Const); ok && k.Value != nil {
				if sl, ok := c.Call.Args[1].(*ssa.Slice); ok {
					if al, ok := sl.X.(*ssa.Alloc); ok {
						if el := arrayLitElems(al); el != nil {
							i, _ := constant.Int64Val(k.Value)
							if int(i) < len(el) {
								s.calls[c] = true
								s.visitM(c.Call.Args[0], false)
								s.visitM(el[i], false)
								return
							}
						}
					}
				}
			}
		}
		s.visitM(x.X, true)
		s.visitM(x.Index, false)
	case *ssa.Index:
		if !addr {
			s.record(x)
		}
		s.visitM(x.X, true)
		s.visitM(x.Index, false)
	case *ssa.Lookup:
		s.visitM(x.X, false)
		s.visitM(x.Index, false)
	case *ssa.Slice:
		if !addr {
			s.record(x)
		}
		if x.Low == nil && x.High == nil {
			s.visitM(x.X, addr)
		} else {
			s.visitM(x.X, true)
		}
		s.visitM(x.Low, false)
		s.visitM(x.High, false)
	case *ssa.UnOp:
		if x.Op == token.MUL {
			if !addr {
				s.record(x)
			}
			switch x.X.(type) {
			case *ssa.FieldAddr, *ssa.IndexAddr, *ssa.Parameter:
				s.visitM(x.X, true)
			default:
				s.visitM(x.X, addr)
			}
			return
		}
		s.visitM(x.X, false)
	case *ssa.Alloc:
		if sv := singleStore(x); sv != nil && x.Heap {
			if pm, ok := sv.(*ssa.Parameter); ok {
				s.visitM(pm, addr)
				return
			}
		}
		s.visitAddrUses(x)
	case *ssa.MakeSlice, *ssa.MakeMap, *ssa.MakeChan:
		s.visitAddrUses(v)
	case *ssa.Call:
		s.calls[x] = true
		if x.Call.IsInvoke() {
			s.visitM(x.Call.Value, false)
		} else if _, ok := x.Call.Value.(*ssa.Function); !ok {
			s.visitM(x.Call.Value, false)
		}
		for _, a := range x.Call.Args {
			s.visitM(a, false)
		}
	case *ssa.MakeClosure:
		for _, b := range x.Bindings {
			s.visitM(b, false)
		}
	default:
		var ops []*ssa.Value
		if ins, ok := v.(ssa.Instruction); ok {
			ops = ins.Operands(ops)
			for _, op := range ops {
				if *op != nil {
					s.visitM(*op, false)
				}
			}
		}
	}
}

func pointerLike(t types.Type) bool {
	switch t.Underlying().(type) {
	case *types.Pointer, *types.Interface, *types.Map, *types.Chan:
		return true
	}
	return false
}

var loadIndex = map[*ssa.Function]map[string][]ssa.Value{}

func sameObjectLoads(v *ssa.UnOp) []ssa.Value {
	fn := v.Parent()
	idx, ok := loadIndex[fn]
	if !ok {
		idx = map[string][]ssa.Value{}
		for _, b := range fn.Blocks {
			for _, ins := range b.Instrs {
				if u, ok := ins.(*ssa.UnOp); ok && u.Op == token.MUL && pointerLike(u.Type()) {
					d := Desc(u)
					if d != "" && !strings.Contains(d, "…") && !strings.Contains(d, "?") {
						idx[d] = append(idx[d], u)
					}
				}
			}
		}
		loadIndex[fn] = idx
	}
	return idx[Desc(v)]
}

// objectUses: a pointer-like value denotes a mutable object; whatever other calls receive the same
// object may have written it from their other arguments (flow-insensitive may-dependency).
func (s *slicer) objectUses(v ssa.Value) {
	switch v.(type) {
	case *ssa.Call, *ssa.Extract, *ssa.UnOp, *ssa.Phi, *ssa.TypeAssert, *ssa.MakeInterface, *ssa.ChangeInterface:
	default:
		return
	}
	if !pointerLike(v.Type()) {
		return
	}
	if u, ok := v.(*ssa.UnOp); ok {
		if u.Op != token.MUL {
			return
		}
		for _, w := range sameObjectLoads(u) {
			s.callsReceiving(w)
		}
		return
	}
	s.callsReceiving(v)
}

func (s *slicer) callsReceiving(v ssa.Value) {
	refs := v.Referrers()
	if refs == nil {
		return
	}
	for _, r := range *refs {
		if c, ok := r.(*ssa.Call); ok {
			s.calls[c] = true
			if c.Call.IsInvoke() && c.Call.Value != v {
				s.visitM(c.Call.Value, false)
			}
			for _, a := range c.Call.Args {
				if a != v {
					s.visitM(a, false)
				}
			}
		}
	}
}

// visitAddrUses: for a memory object (alloc, freevar cell, slice, map), everything written into it:
// stored values, and all arguments of calls that receive its address.
func (s *slicer) visitAddrUses(v ssa.Value) {
	refs := v.Referrers()
	if refs == nil {
		return
	}
	for _, r := range *refs {
		switch ins := r.(type) {
		case *ssa.Store:
			if ins.Addr == v {
				s.visit(ins.Val)
			}
		case *ssa.MapUpdate:
			if ins.Map == v {
				s.visit(ins.Key)
				s.visit(ins.Value)
			}
		case *ssa.Call:
			// address passed to a call: the callee may write it from its other arguments.
			// Foreign (gnark-crypto / std) methods write only their receiver: a pointer passed in another
			// argument position is read-only.
			if cal := ins.Call.StaticCallee(); cal != nil && cal.Signature.Recv() != nil {
				if pk := FuncPkg(cal); pk != nil && !inModule(pk.Path()) && len(ins.Call.Args) > 0 && ins.Call.Args[0] != v && !outParamMethods[cal.Name()] {
					continue
				}
			}
			s.calls[ins] = true
			if ins.Call.IsInvoke() {
				s.visit(ins.Call.Value)
			}
			for _, a := range ins.Call.Args {
				if a != v {
					s.visit(a)
				}
			}
			// fluent methods return their receiver: the result aliases v (x.Mul(..).Add(..))
			if len(ins.Call.Args) > 0 && ins.Call.Args[0] == v && types.Identical(ins.Type(), v.Type()) {
				if s.seenAlias == nil {
					s.seenAlias = map[ssa.Value]bool{}
				}
				if !s.seenAlias[ins] {
					s.seenAlias[ins] = true
					s.visitAddrUses(ins)
				}
			}
		case *ssa.Go:
			for _, a := range ins.Call.Args {
				if a != v {
					s.visit(a)
				}
			}
			s.visit(ins.Call.Value)
		case *ssa.Defer:
			for _, a := range ins.Call.Args {
				if a != v {
					s.visit(a)
				}
			}
		case *ssa.FieldAddr:
			if ins.X == v {
				s.visitAddrUses(ins)
			}
		case *ssa.IndexAddr:
			if ins.X == v {
				s.visitAddrUses(ins)
			}
		case *ssa.Slice:
			if ins.X == v {
				s.visitAddrUses(ins)
			}
		case *ssa.MakeClosure:
			// captured by closure: writes inside the closure through the matching FreeVar
			fn := ins.Fn.(*ssa.Function)
			for i, b := range ins.Bindings {
				if b == v && i < len(fn.FreeVars) {
					s.visit(fn.FreeVars[i])
				}
			}
		case *ssa.Send:
			if ins.Chan == v {
				s.visit(ins.X)
			}
		case *ssa.UnOp:
			// load of a channel/pointer cell: follow sends on loaded channel
			if ins.Op == token.MUL {
				if _, isChan := ins.Type().Underlying().(*types.Chan); isChan {
					s.visitAddrUses(ins)
				}
			}
		}
	}
}

// Slice returns the set of parameters and param-rooted paths v may depend on.
func SliceOf(vals ...ssa.Value) *slicer {
	s := newSlicer()
	for _, v := range vals {
		s.visit(v)
	}
	return s
}

// dependsOnParams reports whether v may depend on any parameter of fn (the outermost function) with index in idx.
func dependsOnParams(v ssa.Value, fn *ssa.Function, idx map[int]bool, stop func(ssa.Value) bool) bool {
	s := newSlicer()
	s.stop = stop
	s.visit(v)
	for pm := range s.params {
		if pm.Parent() == fn && idx[paramIndex(pm)] {
			return true
		}
	}
	return false
}

func isAncestor(a, fn *ssa.Function) bool {
	for f := fn.Parent(); f != nil; f = f.Parent() {
		if f == a {
			return true
		}
	}
	return false
}

// ---------------------------------------------------------------------------
// misc

func isErrorType(t types.Type) bool {
	return types.Identical(t, types.Universe.Lookup("error").Type())
}

func isBoolType(t types.Type) bool {
	b, ok := t.Underlying().(*types.Basic)
	return ok && b.Kind() == types.Bool
}

func isNilConst(v ssa.Value) bool {
	c, ok := v.(*ssa.Const)
	return ok && c.Value == nil
}

func lastInstr(b *ssa.BasicBlock) ssa.Instruction {
	if len(b.Instrs) == 0 {
		return nil
	}
	return b.Instrs[len(b.Instrs)-1]
}

// reach computes the set of blocks reachable from start (inclusive) following Succs, skipping edges for which skip returns true.
func reach(start *ssa.BasicBlock, skip func(from, to *ssa.BasicBlock) bool) map[*ssa.BasicBlock]bool {
	seen := map[*ssa.BasicBlock]bool{start: true}
	work := []*ssa.BasicBlock{start}
	for len(work) > 0 {
		b := work[len(work)-1]
		work = work[:len(work)-1]
		for _, s := range b.Succs {
			if skip != nil && skip(b, s) {
				continue
			}
			if !seen[s] {
				seen[s] = true
				work = append(work, s)
			}
		}
	}
	return seen
}

// resolveCell looks through a load of a single-assignment variable cell (also when captured by a closure).
func resolveCell(v ssa.Value) ssa.Value {
	for d := 0; d < 4; d++ {
		u, ok := v.(*ssa.UnOp)
		if !ok || u.Op != token.MUL {
			return v
		}
		var cell ssa.Value = u.X
		if fv, ok := cell.(*ssa.FreeVar); ok {
			if b := closureBinding(fv); b != nil {
				cell = b
			}
		}
		al, ok := cell.(*ssa.Alloc)
		if !ok {
			return v
		}
		sv := singleStore(al)
		if sv == nil {
			return v
		}
		v = sv
	}
	return v
}

// foreign methods that write a non-receiver pointer argument
var outParamMethods = map[string]bool{"BigInt": true, "ToBigIntRegular": true, "BigIntRegular": true, "FillBytes": true, "Read": true, "Decode": true, "Unmarshal": true}
