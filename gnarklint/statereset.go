package main

import (
	"fmt"
	"go/token"
	"sort"
	"strings"

	"golang.org/x/tools/go/ssa"
)

// STATE-RESET (C11): the deferred checks of std/math/emulated cache, on Element objects that belong to the user's
// circuit value (and therefore survive from one compilation to the next), the evaluation at the verifier challenge
// together with a flag `isEvaluated`. The flag is set by the function that stores `true` into it (found from the
// code: evalWithChallenge) and must be cleared by the checker's cleanEvaluations, otherwise the next compilation of
// the same circuit value skips the evaluation and emits a different constraint system.
// Rule: for every type that has the methods evalRound1 / evalRound2 / cleanEvaluations, every receiver field that
// is handed to a flag-setting function in an eval round is a field whose flag cleanEvaluations stores false into.

const evalFlagField = "isEvaluated"

// flagSetters: functions of pkg that store constant true into <param>.isEvaluated; value = parameter index.
func flagSetters(p *Prog, pkgPath string) map[*ssa.Function]int {
	out := map[*ssa.Function]int{}
	for _, fn := range p.Funcs {
		pk := FuncPkg(fn)
		if pk == nil || pk.Path() != pkgPath || fn.Blocks == nil {
			continue
		}
		for _, b := range fn.Blocks {
			for _, ins := range b.Instrs {
				st, ok := ins.(*ssa.Store)
				if !ok {
					continue
				}
				fa, ok := st.Addr.(*ssa.FieldAddr)
				if !ok || fieldName(fa.X.Type(), fa.Field) != evalFlagField {
					continue
				}
				c, ok := st.Val.(*ssa.Const)
				if !ok || c.Value == nil || c.Value.String() != "true" {
					continue
				}
				if pm, ok := fa.X.(*ssa.Parameter); ok {
					for i, q := range fn.Params {
						if q == pm {
							out[fn] = i
						}
					}
				}
			}
		}
	}
	return out
}

// pointees: the receiver-rooted descriptors a pointer value may denote; looks through a load from a cell of a local
// array / slice literal (for _, e := range []*T{a, b, c}).
func pointees(v ssa.Value) []string {
	if u, ok := v.(*ssa.UnOp); ok && u.Op == token.MUL {
		if ia, ok := u.X.(*ssa.IndexAddr); ok {
			base := ia.X
			if sl, ok := base.(*ssa.Slice); ok {
				base = sl.X
			}
			if al, ok := base.(*ssa.Alloc); ok {
				var out []string
				for _, r := range *al.Referrers() {
					if cell, ok := r.(*ssa.IndexAddr); ok {
						for _, rr := range *cell.Referrers() {
							if st, ok := rr.(*ssa.Store); ok && st.Addr == cell {
								out = append(out, pointees(st.Val)...)
							}
						}
					}
				}
				if len(out) > 0 {
					return out
				}
			}
		}
	}
	// range over an array value: Index(load(alloc), i)
	if ix, ok := v.(*ssa.Index); ok {
		if u, ok := ix.X.(*ssa.UnOp); ok && u.Op == token.MUL {
			if al, ok := u.X.(*ssa.Alloc); ok {
				var out []string
				for _, r := range *al.Referrers() {
					if cell, ok := r.(*ssa.IndexAddr); ok {
						for _, rr := range *cell.Referrers() {
							if st, ok := rr.(*ssa.Store); ok && st.Addr == cell {
								out = append(out, pointees(st.Val)...)
							}
						}
					}
				}
				if len(out) > 0 {
					return out
				}
			}
		}
	}
	return []string{normIdx(Desc(v))}
}

func RunStateReset(p *Prog, r *Report) {
	pkgPath := modPath + "/std/math/emulated"
	setters := flagSetters(p, pkgPath)
	if len(setters) == 0 {
		r.Fail("UNRESOLVED", "-", "-", "state-reset:setter", "-", "no function storing true into Element.isEvaluated found (confirmed: evalWithChallenge)")
		return
	}
	type tinfo struct {
		evald   map[string]token.Pos
		cleaned map[string]bool
		clean   *ssa.Function
	}
	types_ := map[string]*tinfo{}
	get := func(k string) *tinfo {
		if types_[k] == nil {
			types_[k] = &tinfo{evald: map[string]token.Pos{}, cleaned: map[string]bool{}}
		}
		return types_[k]
	}
	for _, fn := range p.Funcs {
		pk := FuncPkg(fn)
		if pk == nil || pk.Path() != pkgPath || fn.Blocks == nil || fn.Signature.Recv() == nil {
			continue
		}
		tn := namedName(fn.Signature.Recv().Type())
		switch funcBaseName(fn) {
		case "evalRound1", "evalRound2":
			ti := get(tn)
			for _, b := range fn.Blocks {
				for _, ins := range b.Instrs {
					c, ok := ins.(*ssa.Call)
					if !ok {
						continue
					}
					cal := c.Call.StaticCallee()
					if cal == nil {
						continue
					}
					idx, ok := setters[cal]
					if !ok {
						if o := cal.Origin(); o != nil {
							idx, ok = setters[o]
						}
					}
					if !ok || idx >= len(c.Call.Args) {
						continue
					}
					for _, d := range pointees(c.Call.Args[idx]) {
						if strings.HasPrefix(d, "$0.") {
							if _, seen := ti.evald[d]; !seen {
								ti.evald[d] = c.Pos()
							}
						}
					}
				}
			}
		case "cleanEvaluations":
			ti := get(tn)
			ti.clean = fn
			for _, b := range fn.Blocks {
				for _, ins := range b.Instrs {
					st, ok := ins.(*ssa.Store)
					if !ok {
						continue
					}
					fa, ok := st.Addr.(*ssa.FieldAddr)
					if !ok || fieldName(fa.X.Type(), fa.Field) != evalFlagField {
						continue
					}
					if c, ok := st.Val.(*ssa.Const); !ok || c.Value == nil || c.Value.String() != "false" {
						continue
					}
					for _, d := range pointees(fa.X) {
						ti.cleaned[d] = true
					}
				}
			}
		}
	}
	var names []string
	for k := range types_ {
		names = append(names, k)
	}
	sort.Strings(names)
	n := 0
	for _, tn := range names {
		ti := types_[tn]
		if ti.clean == nil {
			r.Fail("STATE-RESET", pkgPath, tn, "cleanEvaluations", "-", "type has eval rounds that cache evaluations on circuit elements but no cleanEvaluations method")
			continue
		}
		var fs []string
		for f := range ti.evald {
			fs = append(fs, f)
		}
		sort.Strings(fs)
		for _, f := range fs {
			n++
			key := "evaluated-field:" + strings.TrimPrefix(f, "$0.")
			if ti.cleaned[f] {
				r.Pass("STATE-RESET", pkgPath, FuncName(ti.clean), key, p.Pos(ti.evald[f]), "the evaluation cached on this element in an eval round is cleared by cleanEvaluations", true)
			} else {
				r.Fail("STATE-RESET", pkgPath, FuncName(ti.clean), key, p.Pos(ti.evald[f]), fmt.Sprintf("%s.%s is marked evaluated in an eval round but cleanEvaluations never clears its flag: the cached evaluation (a wire of the previous builder) survives into the next compilation of the same circuit value", tn, strings.TrimPrefix(f, "$0.")))
			}
		}
	}
	if n < 9 {
		r.Fail("UNRESOLVED", "-", "-", "state-reset:fields", "-", fmt.Sprintf("%d evaluated fields found, confirmed 10 (mulCheck a,b,r,k,c,p; mvCheck vals[],r,k,c)", n))
	}
}

func init() {
	devHooks["statereset"] = func(p *Prog, fnPat, untr string) int {
		r := NewReport("DEV", "quick", 0)
		RunStateReset(p, r)
		for _, o := range r.Obls {
			fmt.Printf("%v %s | %s | %s | %s\n", o.OK, o.Pos, strings.TrimPrefix(o.Func, modPath+"/"), o.Key, o.Detail)
		}
		return 0
	}
}
