package main

import (
	"fmt"
	"go/token"
	"go/types"
	"sort"
	"strings"

	"golang.org/x/tools/go/ssa"
)

// STATE-RESET (C11): the deferred checks of std/math/emulated cache, on Element objects that belong to the user's
// circuit value (and therefore survive from one compilation to the next), the evaluation at the verifier challenge
// together with a flag `isEvaluated`. The flag is set by the function that stores `true` into it (found from the
// code: evalWithChallenge) and must be cleared by the checker's cleanEvaluations, otherwise the next compilation of
// the same circuit value skips the evaluation and emits a different constraint system.
// Rule: for every type that has the methods evalRound1 / evalRound2 / cleanEvaluations, every receiver field that
// is handed to a flag-setting function in an eval round is a field whose flag cleanEvaluations stores false into.

const evalFlagField = "isEvaluated"

// flagSetters: functions of pkg that store constant true into <param>.isEvaluated; value = parameter index.
func flagSetters(p *Prog, pkgPath string) map[*ssa.Function]int { return flagStorers(p, pkgPath, "true") }

// flagStorers: functions of pkg that store the given constant into <param>.isEvaluated; value = parameter index.
func flagStorers(p *Prog, pkgPath string, val string) map[*ssa.Function]int {
	out := map[*ssa.Function]int{}
	for _, fn := range p.Funcs {
		pk := FuncPkg(fn)
		if pk == nil || pk.Path() != pkgPath || fn.Blocks == nil {
			continue
		}
		for _, b := range fn.Blocks {
			for _, ins := range b.Instrs {
				st, ok := ins.(*ssa.Store)
				if !ok {
					continue
				}
				fa, ok := st.Addr.(*ssa.FieldAddr)
				if !ok || fieldName(fa.X.Type(), fa.Field) != evalFlagField {
					continue
				}
				c, ok := st.Val.(*ssa.Const)
				if !ok || c.Value == nil || c.Value.String() != val {
					continue
				}
				if pm, ok := fa.X.(*ssa.Parameter); ok {
					for i, q := range fn.Params {
						if q == pm {
							out[fn] = i
						}
					}
				}
			}
		}
	}
	return out
}

// pointees: the receiver-rooted descriptors a pointer value may denote; looks through a load from a cell of a local
// array / slice literal (for _, e := range []*T{a, b, c}).
func pointees(v ssa.Value) []string {
	if u, ok := v.(*ssa.UnOp); ok && u.Op == token.MUL {
		if ia, ok := u.X.(*ssa.IndexAddr); ok {
			base := ia.X
			if sl, ok := base.(*ssa.Slice); ok {
				base = sl.X
			}
			if al, ok := base.(*ssa.Alloc); ok {
				var out []string
				for _, r := range *al.Referrers() {
					if cell, ok := r.(*ssa.IndexAddr); ok {
						for _, rr := range *cell.Referrers() {
							if st, ok := rr.(*ssa.Store); ok && st.Addr == cell {
								out = append(out, pointees(st.Val)...)
							}
						}
					}
				}
				if len(out) > 0 {
					return out
				}
			}
		}
	}
	// range over an array value: Index(load(alloc), i)
	if ix, ok := v.(*ssa.Index); ok {
		if u, ok := ix.X.(*ssa.UnOp); ok && u.Op == token.MUL {
			if al, ok := u.X.(*ssa.Alloc); ok {
				var out []string
				for _, r := range *al.Referrers() {
					if cell, ok := r.(*ssa.IndexAddr); ok {
						for _, rr := range *cell.Referrers() {
							if st, ok := rr.(*ssa.Store); ok && st.Addr == cell {
								out = append(out, pointees(st.Val)...)
							}
						}
					}
				}
				if len(out) > 0 {
					return out
				}
			}
		}
	}
	return []string{normIdx(Desc(v))}
}

func RunStateReset(p *Prog, r *Report) {
	pkgPath := modPath + "/std/math/emulated"
	setters := flagSetters(p, pkgPath)
	clearers := flagStorers(p, pkgPath, "false")
	if len(setters) == 0 {
		r.Fail("UNRESOLVED", "-", "-", "state-reset:setter", "-", "no function storing true into Element.isEvaluated found (confirmed: evalWithChallenge)")
		return
	}
	type tinfo struct {
		evald   map[string]token.Pos
		cleaned map[string]bool
		clean   *ssa.Function
	}
	types_ := map[string]*tinfo{}
	get := func(k string) *tinfo {
		if types_[k] == nil {
			types_[k] = &tinfo{evald: map[string]token.Pos{}, cleaned: map[string]bool{}}
		}
		return types_[k]
	}
	for _, fn := range p.Funcs {
		pk := FuncPkg(fn)
		if pk == nil || pk.Path() != pkgPath || fn.Blocks == nil || fn.Signature.Recv() == nil {
			continue
		}
		tn := namedName(fn.Signature.Recv().Type())
		switch funcBaseName(fn) {
		case "evalRound1", "evalRound2":
			ti := get(tn)
			for _, b := range fn.Blocks {
				for _, ins := range b.Instrs {
					c, ok := ins.(*ssa.Call)
					if !ok {
						continue
					}
					cal := c.Call.StaticCallee()
					if cal == nil {
						continue
					}
					idx, ok := setters[cal]
					if !ok {
						if o := cal.Origin(); o != nil {
							idx, ok = setters[o]
						}
					}
					if !ok || idx >= len(c.Call.Args) {
						continue
					}
					for _, d := range pointees(c.Call.Args[idx]) {
						if strings.HasPrefix(d, "$0.") {
							if _, seen := ti.evald[d]; !seen {
								ti.evald[d] = c.Pos()
							}
						}
					}
				}
			}
		case "cleanEvaluations":
			ti := get(tn)
			ti.clean = fn
			for _, b := range fn.Blocks {
				for _, ins := range b.Instrs {
					// a helper that clears the flag of its parameter (resetEval(e)) clears it for the argument
					if c, ok := ins.(*ssa.Call); ok {
						if cal := c.Call.StaticCallee(); cal != nil {
							idx, ok := clearers[cal]
							if !ok {
								if o := cal.Origin(); o != nil {
									idx, ok = clearers[o]
								}
							}
							if ok && idx < len(c.Call.Args) {
								for _, d := range pointees(c.Call.Args[idx]) {
									ti.cleaned[d] = true
								}
							}
						}
						continue
					}
					st, ok := ins.(*ssa.Store)
					if !ok {
						continue
					}
					fa, ok := st.Addr.(*ssa.FieldAddr)
					if !ok || fieldName(fa.X.Type(), fa.Field) != evalFlagField {
						continue
					}
					if c, ok := st.Val.(*ssa.Const); !ok || c.Value == nil || c.Value.String() != "false" {
						continue
					}
					for _, d := range pointees(fa.X) {
						ti.cleaned[d] = true
					}
				}
			}
		}
	}
	var names []string
	for k := range types_ {
		names = append(names, k)
	}
	sort.Strings(names)
	n := 0
	for _, tn := range names {
		ti := types_[tn]
		if ti.clean == nil {
			r.Fail("STATE-RESET", pkgPath, tn, "cleanEvaluations", "-", "type has eval rounds that cache evaluations on circuit elements but no cleanEvaluations method")
			continue
		}
		var fs []string
		for f := range ti.evald {
			fs = append(fs, f)
		}
		sort.Strings(fs)
		for _, f := range fs {
			n++
			key := "evaluated-field:" + strings.TrimPrefix(f, "$0.")
			if ti.cleaned[f] {
				r.Pass("STATE-RESET", pkgPath, FuncName(ti.clean), key, p.Pos(ti.evald[f]), "the evaluation cached on this element in an eval round is cleared by cleanEvaluations", true)
			} else {
				r.Fail("STATE-RESET", pkgPath, FuncName(ti.clean), key, p.Pos(ti.evald[f]), fmt.Sprintf("%s.%s is marked evaluated in an eval round but cleanEvaluations never clears its flag: the cached evaluation (a wire of the previous builder) survives into the next compilation of the same circuit value", tn, strings.TrimPrefix(f, "$0.")))
			}
		}
	}
	if n < 9 {
		r.Fail("UNRESOLVED", "-", "-", "state-reset:fields", "-", fmt.Sprintf("%d evaluated fields found, confirmed 10 (mulCheck a,b,r,k,c,p; mvCheck vals[],r,k,c)", n))
	}
}

func init() {
	devHooks["statereset"] = func(p *Prog, fnPat, untr string) int {
		r := NewReport("DEV", "quick", 0)
		RunStateReset(p, r)
		for _, o := range r.Obls {
			fmt.Printf("%v %s | %s | %s | %s\n", o.OK, o.Pos, strings.TrimPrefix(o.Func, modPath+"/"), o.Key, o.Detail)
		}
		return 0
	}
}

// STATE-CLOSE (C13): typestate of collectors with a closing flag. A struct with a bool field that some function tests
// in order to panic ("checker already closed", "called WithCommitment recursively") is a collector that must be closed
// by its finaliser: otherwise items appended after the finaliser ran are never processed (a range check that is never
// emitted). Rule: in every function that stores true into such a flag (directly, or in a closure it defers), every
// path from the entry to a return passes the store / the defer registration, or the true edge of a test of the flag
// itself (already closed).
func RunStateClose(p *Prog, r *Report, scope func(string) bool) {
	type flag struct {
		strct string
		field string
	}
	flagOf := func(v ssa.Value) (flag, bool) {
		fa, ok := v.(*ssa.FieldAddr)
		if !ok {
			return flag{}, false
		}
		if b, ok := fa.Type().Underlying().(*types.Pointer); !ok || !isBoolType(b.Elem()) {
			return flag{}, false
		}
		n := namedName(fa.X.Type())
		if n == "" {
			return flag{}, false
		}
		return flag{n, fieldName(fa.X.Type(), fa.Field)}, true
	}
	// guard flags: tested by an If whose true successor panics
	guards := map[flag]bool{}
	var fns []*ssa.Function
	for _, fn := range p.Funcs {
		pk := FuncPkg(fn)
		if pk == nil || fn.Blocks == nil || !scope(pk.Path()) {
			continue
		}
		fns = append(fns, fn)
		for _, b := range fn.Blocks {
			iff, ok := lastInstr(b).(*ssa.If)
			if !ok {
				continue
			}
			u, ok := iff.Cond.(*ssa.UnOp)
			if !ok || u.Op != token.MUL {
				continue
			}
			f, ok := flagOf(u.X)
			if !ok {
				continue
			}
			if _, isPanic := lastInstr(b.Succs[0]).(*ssa.Panic); isPanic {
				guards[f] = true
			}
		}
	}
	sort.Slice(fns, func(i, j int) bool { return FuncName(fns[i]) < FuncName(fns[j]) })
	storesTrue := func(fn *ssa.Function) map[flag][]*ssa.BasicBlock {
		out := map[flag][]*ssa.BasicBlock{}
		for _, b := range fn.Blocks {
			for _, ins := range b.Instrs {
				st, ok := ins.(*ssa.Store)
				if !ok {
					continue
				}
				c, ok := st.Val.(*ssa.Const)
				if !ok || c.Value == nil || c.Value.String() != "true" {
					continue
				}
				if f, ok := flagOf(st.Addr); ok && guards[f] {
					out[f] = append(out[f], b)
				}
			}
		}
		return out
	}
	n := 0
	seen := map[string]bool{}
	for _, fn := range fns {
		if fn.Parent() != nil {
			continue
		}
		closeBlocks := storesTrue(fn)
		// deferred closures that store the flag
		for _, b := range fn.Blocks {
			for _, ins := range b.Instrs {
				d, ok := ins.(*ssa.Defer)
				if !ok {
					continue
				}
				if mc, ok := d.Call.Value.(*ssa.MakeClosure); ok {
					if cf, ok := mc.Fn.(*ssa.Function); ok {
						for f := range storesTrue(cf) {
							closeBlocks[f] = append(closeBlocks[f], b)
						}
					}
				}
			}
		}
		for f, blks := range closeBlocks {
			key := "closes:" + f.strct + "." + f.field
			k := Abstract(FuncName(fn)) + "|" + key
			if seen[k] {
				continue
			}
			seen[k] = true
			n++
			w := map[*ssa.BasicBlock]bool{}
			for _, b := range blks {
				w[b] = true
			}
			// the true edge of a test of the flag itself: already closed (edge-, not block-sensitive: with
			// `if c.closed || other { return }` both conditions share the return block)
			skip := map[[2]*ssa.BasicBlock]bool{}
			for _, b := range fn.Blocks {
				if iff, ok := lastInstr(b).(*ssa.If); ok {
					if u, ok := iff.Cond.(*ssa.UnOp); ok && u.Op == token.MUL {
						if g, ok := flagOf(u.X); ok && g == f {
							skip[[2]*ssa.BasicBlock{b, b.Succs[0]}] = true
						}
					}
				}
			}
			if exitAvoidingEdges(fn, w, skip) {
				r.Fail("STATE-CLOSE", FuncPkg(fn).Path(), FuncName(fn), key, p.Pos(FuncPos(fn)), "some return of the finaliser is reached without marking the collector closed: items added afterwards are accepted silently and never processed")
			} else {
				r.Pass("STATE-CLOSE", FuncPkg(fn).Path(), FuncName(fn), key, p.Pos(FuncPos(fn)), "every return of the finaliser marks the collector closed (or it was closed already)", true)
			}
		}
	}
	if n < 2 {
		r.Fail("UNRESOLVED", "-", "-", "state-close", "-", fmt.Sprintf("%d closing-flag finalisers found, confirmed 2 (commitChecker.commit, multicommitter.commitAndCall)", n))
	}
}

// exitAvoidingEdges: some return is reachable from the entry without entering a block of w and without taking an
// edge of skip.
func exitAvoidingEdges(fn *ssa.Function, w map[*ssa.BasicBlock]bool, skip map[[2]*ssa.BasicBlock]bool) bool {
	seen := map[*ssa.BasicBlock]bool{}
	work := []*ssa.BasicBlock{fn.Blocks[0]}
	for len(work) > 0 {
		b := work[len(work)-1]
		work = work[:len(work)-1]
		if seen[b] || w[b] {
			continue
		}
		seen[b] = true
		if _, ok := lastInstr(b).(*ssa.Return); ok {
			return true
		}
		for _, s := range b.Succs {
			if !skip[[2]*ssa.BasicBlock{b, s}] {
				work = append(work, s)
			}
		}
	}
	return false
}

// STATE-HOOK (C11): the elements of the user's circuit value outlive a compilation. A gadget function that sets a
// field of an element it received from its caller (a trust flag such as modReduced) changes what the next
// compilation of the same circuit value emits, unless the per-compilation initialisation hook (GnarkInitHook,
// called by the schema walk on every element of the circuit) resets that field unconditionally. Fields that are
// both set and cleared inside the deferred-check machinery (cleanEvaluations) are covered by STATE-RESET.
func RunStateHook(p *Prog, r *Report) {
	const rule = "STATE-HOOK"
	pkgPath := modPath + "/std/math/emulated"
	var hook *ssa.Function
	cleaned := map[string]bool{}
	for _, fn := range p.Funcs {
		pk := FuncPkg(fn)
		if pk == nil || pk.Path() != pkgPath || len(fn.Blocks) == 0 {
			continue
		}
		if o := fn.Origin(); o != nil && o != fn {
			continue
		}
		if fn.Name() == "GnarkInitHook" && namedName(deref(fn.Signature.Recv().Type())) == "Element" {
			hook = fn
		}
		if fn.Name() == "cleanEvaluations" {
			for _, b := range fn.Blocks {
				for _, ins := range b.Instrs {
					if st, ok := ins.(*ssa.Store); ok {
						if fa, ok := st.Addr.(*ssa.FieldAddr); ok && namedName(deref(fa.X.Type())) == "Element" {
							cleaned[fieldName(fa.X.Type(), fa.Field)] = true
						}
					}
				}
			}
		}
	}
	if hook == nil {
		r.Fail("UNRESOLVED", "-", "-", "emulated.(*Element).GnarkInitHook", "-", "initialisation hook not found")
		return
	}
	// fields reset by the hook on every path
	hookStores := map[string]map[*ssa.BasicBlock]bool{}
	for _, b := range hook.Blocks {
		for _, ins := range b.Instrs {
			st, ok := ins.(*ssa.Store)
			if !ok {
				continue
			}
			if fa, ok := st.Addr.(*ssa.FieldAddr); ok && fa.X == hook.Params[0] {
				if c, ok := st.Val.(*ssa.Const); ok && (c.Value == nil || c.Value.String() == "false" || c.Value.String() == "0") {
					n := fieldName(fa.X.Type(), fa.Field)
					if hookStores[n] == nil {
						hookStores[n] = map[*ssa.BasicBlock]bool{}
					}
					hookStores[n][b] = true
				}
			}
		}
	}
	type site struct {
		fn  *ssa.Function
		pos token.Pos
	}
	set := map[string][]site{}
	for _, fn := range p.Funcs {
		pk := FuncPkg(fn)
		if pk == nil || pk.Path() != pkgPath || len(fn.Blocks) == 0 || fn == hook || fn.Name() == "cleanEvaluations" {
			continue
		}
		if o := fn.Origin(); o != nil && o != fn {
			continue
		}
		for _, b := range fn.Blocks {
			for _, ins := range b.Instrs {
				st, ok := ins.(*ssa.Store)
				if !ok {
					continue
				}
				fa, ok := st.Addr.(*ssa.FieldAddr)
				if !ok || namedName(deref(fa.X.Type())) != "Element" {
					continue
				}
				// the element is one the function received: a parameter (also spilled) or loaded from a parameter's structure
				base := fa.X
				if u, ok := base.(*ssa.UnOp); ok && u.Op == token.MUL {
					if a, ok := u.X.(*ssa.Alloc); ok {
						if sv := singleStore(a); sv != nil {
							base = sv
						}
					}
				}
				if _, isParam := base.(*ssa.Parameter); !isParam {
					continue
				}
				// storing the zero value is a reset, not a set
				if c, ok := st.Val.(*ssa.Const); ok && (c.Value == nil || c.Value.String() == "false" || c.Value.String() == "0") {
					continue
				}
				n := fieldName(fa.X.Type(), fa.Field)
				set[n] = append(set[n], site{fn, st.Pos()})
			}
		}
	}
	var names []string
	for n := range set {
		names = append(names, n)
	}
	sort.Strings(names)
	cnt := 0
	for _, n := range names {
		if cleaned[n] {
			continue
		}
		cnt++
		s0 := set[n][0]
		key := "element-field:" + n
		w := hookStores[n]
		switch {
		case len(w) == 0:
			r.Fail(rule, pkgPath, FuncName(s0.fn), key, p.Pos(s0.pos), fmt.Sprintf("field %s of an element received from the caller is set here and never reset by GnarkInitHook: the flag survives on the user's circuit value and changes what its next compilation emits", n))
		case exitAvoiding(hook, w):
			r.Fail(rule, pkgPath, FuncName(s0.fn), key, p.Pos(s0.pos), fmt.Sprintf("field %s of an element received from the caller is set here, and GnarkInitHook resets it only on some paths: for an element that keeps its limbs the flag survives into the next compilation of the same circuit value", n))
		default:
			r.Pass(rule, pkgPath, FuncName(s0.fn), key, p.Pos(s0.pos), fmt.Sprintf("field %s is set on caller-owned elements (%d site(s)) and reset unconditionally by GnarkInitHook", n, len(set[n])), true)
		}
	}
	if cnt < 1 {
		r.Fail("UNRESOLVED", "-", "-", "element fields set on caller-owned elements", "-", "none found, confirmed 1 (modReduced)")
	}
}

// OPERAND-STATE (C11): a gadget that caches something it computed on an operand object received from its caller
// (`Q[i].Lines = &lines`) writes into the user's circuit value when the operand is a field of the circuit: the
// next compilation of the same value finds the cache, emits a different system, and the schema walk even
// enumerates the cached elements as inputs. Reported: in std/algebra/…, a store of the address of a locally
// computed object (or a locally built slice / map) into a pointer-, slice- or map-typed field of an object reached
// through a parameter other than the method receiver.
func RunOperandState(p *Prog, r *Report) {
	const rule = "OPERAND-STATE"
	n := 0
	for _, fn := range p.Funcs {
		pk := FuncPkg(fn)
		if pk == nil || len(fn.Blocks) == 0 || fn.Parent() != nil {
			continue
		}
		rel := strings.TrimPrefix(pk.Path(), modPath+"/")
		if !strings.HasPrefix(rel, "std/algebra/") {
			continue
		}
		if o := fn.Origin(); o != nil && o != fn {
			continue
		}
		ord := map[string]int{}
		for _, b := range fn.Blocks {
			for _, ins := range b.Instrs {
				st, ok := ins.(*ssa.Store)
				if !ok {
					continue
				}
				fa, ok := st.Addr.(*ssa.FieldAddr)
				if !ok {
					continue
				}
				switch fa.Type().(*types.Pointer).Elem().Underlying().(type) {
				case *types.Pointer, *types.Slice, *types.Map:
				default:
					continue
				}
				// stored value: address of something allocated here
				local := false
				switch v := st.Val.(type) {
				case *ssa.Alloc:
					local = true
				case *ssa.MakeSlice, *ssa.MakeMap:
					local = true
				case *ssa.Slice:
					if _, ok := v.X.(*ssa.Alloc); ok {
						local = true
					}
				}
				if !local {
					continue
				}
				// the object: reached from a parameter that is not the receiver
				base := fa.X
				var pm *ssa.Parameter
				for d := 0; d < 8 && base != nil; d++ {
					switch x := base.(type) {
					case *ssa.Parameter:
						pm = x
						base = nil
					case *ssa.UnOp:
						if x.Op == token.MUL {
							if a, ok := x.X.(*ssa.Alloc); ok {
								base = singleStore(a)
							} else {
								base = x.X
							}
						} else {
							base = nil
						}
					case *ssa.IndexAddr:
						base = x.X
					case *ssa.FieldAddr:
						base = x.X
					case *ssa.Slice:
						base = x.X
					default:
						base = nil
					}
				}
				if pm == nil {
					continue
				}
				if fn.Signature.Recv() != nil && len(fn.Params) > 0 && pm == fn.Params[0] {
					continue
				}
				n++
				fname := fieldName(fa.X.Type(), fa.Field)
				k := "operand-cache:" + namedName(deref(fa.X.Type())) + "." + fname
				ord[k]++
				key := fmt.Sprintf("%s#%d", k, ord[k])
				r.Fail(rule, pk.Path(), FuncName(fn), key, p.Pos(st.Pos()), fmt.Sprintf("a locally computed object is cached in field %s of an operand received through parameter %s: when the operand is a field of the user's circuit value the cache survives the compilation, and compiling the same value again yields a different constraint system", fname, pm.Name()))
			}
		}
	}
	r.Pass(rule, "-", "-", "scan", "-", fmt.Sprintf("%d caches on caller-owned operands found in std/algebra", n), false)
}
