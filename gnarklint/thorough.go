package main

import (
	"fmt"
	"sort"
	"go/types"
	"strings"

	"golang.org/x/tools/go/ssa"
)

var devHooks = map[string]func(p *Prog, fnPat, untr string) int{}

func runThorough(pr *propertyRunner, p *Prog, r *Report) {}

func devMore(p *Prog, mode, fnPat, untr string) int {
	switch mode {
	case "vemit":
		emitTarget(p, fnPat, parseIdx(untr))
		return 0
	}
	if h, ok := devHooks[mode]; ok {
		return h(p, fnPat, untr)
	}
	fmt.Println("unknown dev mode", mode)
	return 2
}

func init() {
	devHooks["maprange"] = func(p *Prog, fnPat, untr string) int {
		e, err := newDetEngine(p)
		if err != nil {
			fmt.Println(err)
			return 2
		}
		fmt.Println("allTypes", len(e.cg.allTypes))
		for _, t := range e.cg.allTypes {
			if strings.Contains(t.String(), "bn254.system") {
				fmt.Println("  type", t)
			}
		}
		for _, fn := range p.FuncsMatching(fnPat) {
			for _, b := range fn.Blocks {
				for _, ins := range b.Instrs {
					if ci, ok := ins.(ssa.CallInstruction); ok && ci.Common().IsInvoke() {
						n, ok := modIface(ci.Common().Value.Type())
						fmt.Printf("  invoke %s type %T %v modIface=%v\n", ci.Common().Method.Name(), ci.Common().Value.Type(), ci.Common().Value.Type(), ok)
						if ok {
							iface := n.Underlying().(*types.Interface)
							for _, t := range e.cg.allTypes {
								if strings.Contains(t.String(), "bn254.system") {
									fmt.Println("    implements", t, types.Implements(t, iface), types.MissingMethod)
								}
							}
						}
						break
					}
				}
			}
			for _, ml := range findMapLoops(fn) {
				fmt.Println("loop", ml.ord, "header", ml.header, "body blocks", len(ml.body))
				for _, b := range fn.Blocks {
					if !ml.body[b] {
						continue
					}
					for _, ins := range b.Instrs {
						if ci, ok := ins.(ssa.CallInstruction); ok {
							cs := e.cg.Callees(ci.Common())
							fmt.Printf("  call %s -> %d callees", CalleeName(ci.Common()), len(cs))
							for _, c := range cs {
								fmt.Printf(" [%s eff=%v prim=%v]", FuncName(c), e.effect[c], e.prim[c])
							}
							fmt.Println()
						}
					}
				}
			}
		}
		return 0
	}
}

func init() {
	devHooks["flow"] = func(p *Prog, fnPat, untr string) int {
		cg := BuildCallGraph(p)
		e := newFlowEngine(p, cg)
		n := 0
		seenLine := map[string]bool{}
		for _, fn := range p.Funcs {
			pk := FuncPkg(fn)
			if pk == nil || !strings.Contains(pk.Path(), fnPat) {
				continue
			}
			for _, src := range e.findSources(fn) {
				n++
				f := e.Facts(src)
				var direct, heap []string
				for k, l := range f {
					if strings.HasPrefix(k, "heap:") {
						heap = append(heap, strings.TrimPrefix(k, "heap:"))
					} else if strings.HasPrefix(k, "store:") {
						direct = append(direct, "store:"+k[strings.LastIndex(k, "/")+1:]+":"+l.String())
					} else {
						direct = append(direct, k+":"+l.String())
					}
				}
				sort.Strings(direct)
				sort.Strings(heap)
				line := fmt.Sprintf("%s | %s | %s | heap{%s}", strings.TrimPrefix(Abstract(FuncName(fn)), modPath+"/"), strings.Replace(src.Key(), modPath+"/", "", -1), strings.Join(direct, " "), strings.Join(heap, ","))
				if !seenLine[line] {
					seenLine[line] = true
					fmt.Println(line)
				}
			}
		}
		fmt.Println("sources:", n)
		return 0
	}
}

func init() {
	devHooks["calls"] = func(p *Prog, fnPat, untr string) int {
		for _, fn := range p.FuncsMatching(fnPat) {
			for _, b := range fn.Blocks {
				for _, ins := range b.Instrs {
					if c, ok := ins.(*ssa.Call); ok {
						cal := c.Call.StaticCallee()
						rn := ""
						if cal != nil && cal.Signature.Recv() != nil {
							rn = namedName(cal.Signature.Recv().Type())
						}
						fmt.Printf("%s static=%v recv=%q invoke=%v valuetype=%T\n", CalleeName(&c.Call), cal != nil, rn, c.Call.IsInvoke(), c.Call.Value)
					}
				}
			}
		}
		return 0
	}
}

func init() {
	devHooks["ifs"] = func(p *Prog, fnPat, untr string) int {
		for _, fn := range p.FuncsMatching(fnPat) {
			for _, b := range fn.Blocks {
				if ret, ok := lastInstr(b).(*ssa.Return); ok {
					fmt.Printf("return in block %d: %v\n", b.Index, ret.Results)
					for d := b.Idom(); d != nil; d = d.Idom() {
						if iff, ok := lastInstr(d).(*ssa.If); ok {
							fmt.Printf("   dom if (block %d): %s\n", d.Index, Desc(iff.Cond))
						}
					}
				}
			}
			break
		}
		return 0
	}
}

func init() {
	devHooks["codec"] = func(p *Prog, fnPat, untr string) int {
		for _, cp := range findCodecPairs(p, codecScope) {
			if !strings.Contains(cp.typ, fnPat) {
				continue
			}
			fmt.Printf("== %s  %s / %s\n  W: %v\n  R: %v\n", cp.typ, funcBaseName(cp.writer), funcBaseName(cp.reader), codecSeq(cp.writer), codecSeq(cp.reader))
		}
		return 0
	}
}
