package main

import "fmt"

func runThorough(pr *propertyRunner, p *Prog, r *Report) {}

func devMore(p *Prog, mode, fnPat, untr string) int {
	switch mode {
	case "vemit":
		emitTarget(p, fnPat, parseIdx(untr))
		return 0
	}
	fmt.Println("unknown dev mode", mode)
	return 2
}
