package main

import (
	"encoding/json"
	"fmt"
	"go/types"
	"os"
	"os/exec"
	"path/filepath"
	"sort"
	"strings"
	"sync"

	"golang.org/x/tools/go/ssa"
)

var devHooks = map[string]func(p *Prog, fnPat, untr string) int{}

type stMutant struct {
	ID          string   `json:"id"`
	Property    string   `json:"property"`
	ExpectRules []string `json:"expect_rules"`
	File        string   `json:"file"`
	Note        string   `json:"note"`
	Benign      bool     `json:"benign"`
}

// runThorough: quick tier plus (a) the self-test mutants of the property — each is applied to a scratch copy of the
// repository's current working tree (outside /repo and /verif, removed afterwards), re-analysed in a child process,
// and must make the expected rule fire; (b) a second load of the property's packages with the build tags
// `debug` and `prover_checks`, which must still type-check (coverage of build-tagged files).
func runThorough(pr *propertyRunner, p *Prog, r *Report) {
	b, err := os.ReadFile(filepath.Join(verifDir, "selftest", "mutants.json"))
	if err != nil {
		r.Fail("UNRESOLVED", "-", "-", "selftest/mutants.json", "-", err.Error())
		return
	}
	var mf struct {
		Mutants []stMutant `json:"mutants"`
	}
	if err := json.Unmarshal(b, &mf); err != nil {
		r.Fail("UNRESOLVED", "-", "-", "selftest/mutants.json", "-", err.Error())
		return
	}
	var mine []stMutant
	for _, m := range mf.Mutants {
		if m.Property == pr.id {
			mine = append(mine, m)
		}
	}
	self, _ := os.Executable()
	type res struct {
		m      stMutant
		status string // detected | missed | skipped
		fired  []string
		detail string
	}
	results := make([]res, len(mine))
	sem := make(chan struct{}, 3)
	var wg sync.WaitGroup
	for i, m := range mine {
		wg.Add(1)
		go func(i int, m stMutant) {
			defer wg.Done()
			sem <- struct{}{}
			defer func() { <-sem }()
			scratch, err := os.MkdirTemp("", "gnarklint-selftest-")
			if err != nil {
				results[i] = res{m: m, status: "skipped", detail: err.Error()}
				return
			}
			defer os.RemoveAll(scratch)
			repoCopy := filepath.Join(scratch, "repo")
			if out, err := exec.Command("rsync", "-a", "--exclude", ".git", repoDir+"/", repoCopy+"/").CombinedOutput(); err != nil {
				results[i] = res{m: m, status: "skipped", detail: "copy failed: " + string(out)}
				return
			}
			patch := filepath.Join(verifDir, "selftest", "patches", m.ID+".diff")
			cmd := exec.Command("patch", "-p1", "-s", "-f", "--no-backup-if-mismatch", "-i", patch)
			cmd.Dir = repoCopy
			if out, err := cmd.CombinedOutput(); err != nil {
				results[i] = res{m: m, status: "skipped", detail: "patch no longer applies: " + firstLine(string(out))}
				return
			}
			vdir := filepath.Join(scratch, "verif")
			os.MkdirAll(filepath.Join(vdir, "evidence"), 0o755)
			os.Symlink(filepath.Join(verifDir, "rules"), filepath.Join(vdir, "rules"))
			os.Symlink(filepath.Join(verifDir, "known_findings.json"), filepath.Join(vdir, "known_findings.json"))
			os.Symlink(filepath.Join(verifDir, "properties.jsonl"), filepath.Join(vdir, "properties.jsonl"))
			child := exec.Command(self, "-property", pr.id, "-tier", "quick")
			child.Env = append(os.Environ(), "GNARKLINT_REPO="+repoCopy, "GNARKLINT_VERIF="+vdir)
			out, _ := child.CombinedOutput()
			fired := map[string]bool{}
			for _, line := range strings.Split(string(out), "\n") {
				if i := strings.Index(line, "violated: rule="); i >= 0 {
					rest := line[i+len("violated: rule="):]
					if j := strings.Index(rest, " "); j > 0 {
						fired[rest[:j]] = true
					}
				}
			}
			var fl []string
			for k := range fired {
				fl = append(fl, k)
			}
			sort.Strings(fl)
			st := "missed"
			for _, e := range m.ExpectRules {
				if fired[e] {
					st = "detected"
				}
			}
			if m.Benign {
				// behaviour-preserving refactor: nothing may fire
				if len(fl) == 0 {
					st = "detected"
				} else {
					st = "missed"
				}
			}
			det := ""
			if fired["UNRESOLVED"] && st == "missed" {
				det = "only UNRESOLVED fired (mutant may not type-check)"
			}
			results[i] = res{m: m, status: st, fired: fl, detail: det}
		}(i, m)
	}
	wg.Wait()
	nDet, nSkip := 0, 0
	var summary []map[string]any
	for _, x := range results {
		key := "mutant:" + x.m.ID
		switch x.status {
		case "detected":
			nDet++
			if x.m.Benign {
				r.Pass("SELFTEST", "-", x.m.File, key, "-", "behaviour-preserving refactor ("+x.m.Note+") raises no alarm", true)
			} else {
				r.Pass("SELFTEST", "-", x.m.File, key, "-", fmt.Sprintf("mutant detected by %v (expected one of %v)", x.fired, x.m.ExpectRules), true)
			}
		case "skipped":
			nSkip++
			r.Add(&Obligation{Rule: "SELFTEST", Pkg: "-", Func: x.m.File, Key: key, Pos: "-", OK: true, Info: true, Detail: "mutant-skipped: " + x.detail})
		default:
			if x.m.Benign {
				r.Fail("SELFTEST", "-", x.m.File, key, "-", fmt.Sprintf("false alarm: behaviour-preserving refactor (%s) fired %v", x.m.Note, x.fired))
			} else {
				r.Fail("SELFTEST", "-", x.m.File, key, "-", fmt.Sprintf("the checker did not detect its own self-test mutant (expected one of %v, fired %v) %s", x.m.ExpectRules, x.fired, x.detail))
			}
		}
		summary = append(summary, map[string]any{"id": x.m.ID, "status": x.status, "fired": x.fired, "expect": x.m.ExpectRules})
	}
	r.Extra["selftest"] = map[string]any{"mutants": len(mine), "detected": nDet, "skipped": nSkip, "results": summary}
	// (b) tagged load
	if tp, err := LoadProg(pr.patterns, "debug,prover_checks", nil); err != nil {
		r.Fail("UNRESOLVED", "-", "-", "tagged-load", "-", "packages do not type-check with tags debug,prover_checks: "+firstLine(err.Error()))
	} else {
		r.Extra["tagged_load"] = map[string]any{"tags": "debug,prover_checks", "packages": len(tp.ByPth), "module_functions": len(tp.Funcs)}
	}
}

func firstLine(s string) string {
	if i := strings.Index(s, "\n"); i >= 0 {
		return s[:i]
	}
	return s
}

func devMore(p *Prog, mode, fnPat, untr string) int {
	switch mode {
	case "vemit":
		emitTarget(p, fnPat, parseIdx(untr))
		return 0
	}
	if h, ok := devHooks[mode]; ok {
		return h(p, fnPat, untr)
	}
	fmt.Println("unknown dev mode", mode)
	return 2
}

func init() {
	devHooks["maprange"] = func(p *Prog, fnPat, untr string) int {
		e, err := newDetEngine(p)
		if err != nil {
			fmt.Println(err)
			return 2
		}
		fmt.Println("allTypes", len(e.cg.allTypes))
		for _, t := range e.cg.allTypes {
			if strings.Contains(t.String(), "bn254.system") {
				fmt.Println("  type", t)
			}
		}
		for _, fn := range p.FuncsMatching(fnPat) {
			for _, b := range fn.Blocks {
				for _, ins := range b.Instrs {
					if ci, ok := ins.(ssa.CallInstruction); ok && ci.Common().IsInvoke() {
						n, ok := modIface(ci.Common().Value.Type())
						fmt.Printf("  invoke %s type %T %v modIface=%v\n", ci.Common().Method.Name(), ci.Common().Value.Type(), ci.Common().Value.Type(), ok)
						if ok {
							iface := n.Underlying().(*types.Interface)
							for _, t := range e.cg.allTypes {
								if strings.Contains(t.String(), "bn254.system") {
									fmt.Println("    implements", t, types.Implements(t, iface))
								}
							}
						}
						break
					}
				}
			}
			for _, ml := range findMapLoops(fn) {
				fmt.Println("loop", ml.ord, "header", ml.header, "body blocks", len(ml.body))
				for _, b := range fn.Blocks {
					if !ml.body[b] {
						continue
					}
					for _, ins := range b.Instrs {
						if ci, ok := ins.(ssa.CallInstruction); ok {
							cs := e.cg.Callees(ci.Common())
							fmt.Printf("  call %s -> %d callees", CalleeName(ci.Common()), len(cs))
							for _, c := range cs {
								fmt.Printf(" [%s eff=%v prim=%v]", FuncName(c), e.effect[c], e.prim[c])
							}
							fmt.Println()
						}
					}
				}
			}
		}
		return 0
	}
}

func init() {
	devHooks["flow"] = func(p *Prog, fnPat, untr string) int {
		cg := BuildCallGraph(p)
		e := newFlowEngine(p, cg)
		n := 0
		seenLine := map[string]bool{}
		for _, fn := range p.Funcs {
			pk := FuncPkg(fn)
			if pk == nil || !strings.Contains(pk.Path(), fnPat) {
				continue
			}
			for _, src := range e.findSources(fn) {
				n++
				f := e.Facts(src)
				var direct, heap []string
				for k, l := range f {
					if strings.HasPrefix(k, "heap:") {
						heap = append(heap, strings.TrimPrefix(k, "heap:"))
					} else if strings.HasPrefix(k, "store:") {
						direct = append(direct, "store:"+k[strings.LastIndex(k, "/")+1:]+":"+l.String())
					} else {
						direct = append(direct, k+":"+l.String())
					}
				}
				sort.Strings(direct)
				sort.Strings(heap)
				line := fmt.Sprintf("%s | %s | %s | heap{%s}", strings.TrimPrefix(Abstract(FuncName(fn)), modPath+"/"), strings.Replace(src.Key(), modPath+"/", "", -1), strings.Join(direct, " "), strings.Join(heap, ","))
				if !seenLine[line] {
					seenLine[line] = true
					fmt.Println(line)
				}
			}
		}
		fmt.Println("sources:", n)
		return 0
	}
}

func init() {
	devHooks["calls"] = func(p *Prog, fnPat, untr string) int {
		for _, fn := range p.FuncsMatching(fnPat) {
			for _, b := range fn.Blocks {
				for _, ins := range b.Instrs {
					if c, ok := ins.(*ssa.Call); ok {
						cal := c.Call.StaticCallee()
						rn := ""
						if cal != nil && cal.Signature.Recv() != nil {
							rn = namedName(cal.Signature.Recv().Type())
						}
						fmt.Printf("%s static=%v recv=%q invoke=%v valuetype=%T\n", CalleeName(&c.Call), cal != nil, rn, c.Call.IsInvoke(), c.Call.Value)
					}
				}
			}
		}
		return 0
	}
}

func init() {
	devHooks["ifs"] = func(p *Prog, fnPat, untr string) int {
		for _, fn := range p.FuncsMatching(fnPat) {
			for _, b := range fn.Blocks {
				if ret, ok := lastInstr(b).(*ssa.Return); ok {
					fmt.Printf("return in block %d: %v\n", b.Index, ret.Results)
					for d := b.Idom(); d != nil; d = d.Idom() {
						if iff, ok := lastInstr(d).(*ssa.If); ok {
							fmt.Printf("   dom if (block %d): %s\n", d.Index, Desc(iff.Cond))
						}
					}
				}
			}
			break
		}
		return 0
	}
}

func init() {
	devHooks["codec"] = func(p *Prog, fnPat, untr string) int {
		for _, cp := range findCodecPairs(p, codecScope) {
			if !strings.Contains(cp.typ, fnPat) {
				continue
			}
			fmt.Printf("== %s  %s / %s\n  W: %v\n  R: %v\n", cp.typ, funcBaseName(cp.writer), funcBaseName(cp.reader), codecSeq(cp.writer), codecSeq(cp.reader))
		}
		return 0
	}
}

func init() {
	devHooks["hashfresh"] = func(p *Prog, fnPat, untr string) int {
		r := NewReport("DEV", "quick", 0)
		RunHashFresh(p, r, func(pkg string) bool { return strings.Contains(pkg, fnPat) })
		RunHashKill(p, r, func(pkg string) bool { return strings.Contains(pkg, fnPat) })
		for _, o := range r.Obls {
			st := "ok"
			if !o.OK {
				st = "FAIL"
			}
			fmt.Printf("%s %s %s %s %s\n", st, o.Rule, o.Pos, strings.TrimPrefix(o.Func, modPath+"/"), o.Key)
		}
		return 0
	}
}
