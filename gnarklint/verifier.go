package main

import (
	"encoding/json"
	"fmt"
	"go/token"
	"go/types"
	"os"
	"path/filepath"
	"regexp"
	"sort"
	"strings"

	"golang.org/x/tools/go/ssa"
)

// ---------------------------------------------------------------------------
// rules/verifier_events.json

type reqEvent struct {
	Callee  string   `json:"callee"`
	Deps    []string `json:"deps,omitempty"`     // paths the checked operands must depend on by value flow (matched against the direct slice)
	DepsAny []string `json:"deps_any,omitempty"` // paths matched against the full slice (shared objects such as hash/transcript state included)
	Consts  []string `json:"consts,omitempty"`   // string constants among the (substituted) arguments
	Status  string   `json:"status"`             // must | cond
	Count   int      `json:"count,omitempty"`    // multiplicity (default 1)
	Why     string   `json:"why,omitempty"`
}

type vTarget struct {
	ID         string     `json:"id"`
	Func       string     `json:"func"` // abstract function name
	Untrusted  []int      `json:"untrusted"`
	Instances  int        `json:"instances"` // confirmed number of sibling instances
	Properties []string   `json:"properties"`
	Guard      bool       `json:"guard"` // apply V-GUARD
	Cover      bool       `json:"cover"` // apply V-COVER
	CoverSkip  []string   `json:"cover_skip,omitempty"`
	Required   []reqEvent `json:"required"`
}

type vRules struct {
	Comment string    `json:"comment"`
	Targets []vTarget `json:"targets"`
	// trusted callees that fix the length of one argument (relative to another trusted one)
	LenFixers []lenFixer `json:"len_fixers"`
	// callees whose error result may be ignored, with the reason
	ErrExempt map[string]string `json:"err_exempt"`
}

type lenFixer struct {
	Callee string `json:"callee"`
	Arg    int    `json:"arg"`             // argument index (incl. receiver) whose length is fixed
	Field  string `json:"field,omitempty"` // optional field selector below the argument
	Why    string `json:"why"`
}

func loadVRules() (*vRules, error) {
	b, err := os.ReadFile(filepath.Join(verifDir, "rules", "verifier_events.json"))
	if err != nil {
		return nil, err
	}
	var r vRules
	if err := json.Unmarshal(b, &r); err != nil {
		return nil, fmt.Errorf("verifier_events.json: %w", err)
	}
	return &r, nil
}

func statusRank(s string) int {
	switch s {
	case "must":
		return 2
	case "cond":
		return 1
	}
	return 0
}

func isPathPrefix(short, long string) bool {
	return len(long) > len(short) && strings.HasPrefix(long, short) && (long[len(short)] == '.' || long[len(short)] == '[')
}

// depSatisfied: required path p is covered by a current dependency set.
func depSatisfied(p string, cur []string) bool {
	for _, d := range cur {
		if d == p || isPathPrefix(d, p) || d == p+"[]" {
			return true
		}
	}
	return false
}

var quotedRe = regexp.MustCompile(`"[^"]*"`)

func eventConsts(ev *Event) []string {
	var m []string
	for _, c := range ev.Consts {
		if strings.HasPrefix(c, "\"") {
			m = append(m, c)
		}
	}
	sort.Strings(m)
	return uniq(m)
}

func matchReq(rq *reqEvent, ev *Event) bool {
	if ev.Callee != rq.Callee || statusRank(ev.Status) < statusRank(rq.Status) {
		return false
	}
	for _, d := range rq.Deps {
		if !depSatisfied(d, ev.Direct) {
			return false
		}
	}
	for _, d := range rq.DepsAny {
		if !depSatisfied(d, ev.Deps) {
			return false
		}
	}
	cs := eventConsts(ev)
	for _, c := range rq.Consts {
		found := false
		for _, x := range cs {
			if x == c {
				found = true
			}
		}
		if !found {
			return false
		}
	}
	return true
}

func reqKey(rq *reqEvent) string {
	k := rq.Callee
	if len(rq.Consts) > 0 {
		k += " consts=" + strings.Join(rq.Consts, ",")
	}
	if len(rq.Deps) > 0 {
		k += " deps=" + strings.Join(rq.Deps, ",")
	}
	return k
}

// ---------------------------------------------------------------------------

type verifierEngine struct {
	p     *Prog
	rules *vRules
	vp    *vpassEngine
	sel   map[string]bool
}

func newVerifierEngine(p *Prog) (*verifierEngine, error) {
	r, err := loadVRules()
	if err != nil {
		return nil, err
	}
	return &verifierEngine{p: p, rules: r, vp: newVpassEngine(p)}, nil
}

func idxSet(xs []int) map[int]bool {
	m := map[int]bool{}
	for _, x := range xs {
		m[x] = true
	}
	return m
}

// RunTargets evaluates all targets that serve property prop; rules selects among "pass","cover","guard-idx","guard-len","err".
func (e *verifierEngine) RunTargets(prop string, r *Report, rules ...string) {
	e.sel = map[string]bool{}
	for _, s := range rules {
		e.sel[s] = true
	}
	for ti := range e.rules.Targets {
		t := &e.rules.Targets[ti]
		serves := false
		for _, pp := range t.Properties {
			if pp == prop {
				serves = true
			}
		}
		if !serves {
			continue
		}
		fns := e.p.FuncsMatching(t.Func)
		if len(fns) < t.Instances {
			r.Fail("UNRESOLVED", "-", t.Func, "target:"+t.ID, "-", fmt.Sprintf("anchor function resolves to %d instance(s), confirmed %d", len(fns), t.Instances))
		}
		for _, fn := range fns {
			// an exported entry point that only forwards its parameters to an unexported implementation
			// (func Verify(a, b, c) error { return verify(a, b, c) }) is analysed through the implementation
			for d := 0; d < 2; d++ {
				if impl := forwardsTo(fn); impl != nil {
					fn = impl
				} else {
					break
				}
			}
			e.runTarget(t, fn, prop, r)
		}
	}
}

// forwardsTo: fn consists of one call of a same-package function with exactly fn's parameters, in order, whose
// results it returns unchanged.
func forwardsTo(fn *ssa.Function) *ssa.Function {
	if len(fn.Blocks) != 1 {
		return nil
	}
	var call *ssa.Call
	for _, ins := range fn.Blocks[0].Instrs {
		switch x := ins.(type) {
		case *ssa.Call:
			if call != nil {
				return nil
			}
			call = x
		case *ssa.Return, *ssa.Extract, *ssa.DebugRef:
		default:
			return nil
		}
	}
	if call == nil {
		return nil
	}
	cal := call.Call.StaticCallee()
	if cal == nil || cal.Blocks == nil || FuncPkg(cal) == nil || FuncPkg(fn) == nil || FuncPkg(cal).Path() != FuncPkg(fn).Path() || len(call.Call.Args) != len(fn.Params) {
		return nil
	}
	for i, a := range call.Call.Args {
		if a != fn.Params[i] {
			return nil
		}
	}
	return cal
}

func (e *verifierEngine) runTarget(t *vTarget, fn *ssa.Function, prop string, r *Report) {
	pkg := FuncPkg(fn).Path()
	fname := FuncName(fn)
	cfg := vpassCfg{untrusted: idxSet(t.Untrusted)}
	res := e.vp.Analyze(fn, cfg, 0)
	pos := e.p.Pos(FuncPos(fn))
	// V-PASS: every required event present with sufficient status
	used := map[*Event]bool{}
	for ri := range t.Required {
		if !e.sel["pass"] {
			break
		}
		rq := &t.Required[ri]
		cnt := rq.Count
		if cnt == 0 {
			cnt = 1
		}
		for k := 0; k < cnt; k++ {
			var hit *Event
			var weaker *Event
			for _, ev := range res.events {
				if used[ev] {
					continue
				}
				if matchReq(rq, ev) {
					hit = ev
					break
				}
				if ev.Callee == rq.Callee && weaker == nil {
					tmp := *rq
					tmp.Status = ""
					if matchReq(&tmp, ev) {
						weaker = ev
					}
				}
			}
			key := reqKey(rq)
			if cnt > 1 {
				key += fmt.Sprintf(" #%d", k+1)
			}
			if hit != nil {
				used[hit] = true
				det := fmt.Sprintf("check event %s is %s-pass on every accepting exit", hit.Callee, hit.Status)
				if len(hit.Conds) > 0 {
					det += " (bypass only under trusted condition(s) " + strings.Join(hit.Conds, " ; ") + ")"
				}
				r.Pass("V-PASS", pkg, fname, key, e.p.Pos(hit.Pos), det, true)
				continue
			}
			det := "required check event is absent from the function (callee/argument provenance not found): " + rq.Why
			p2 := pos
			if weaker != nil {
				det = fmt.Sprintf("check event present but only %s (required %s): %s", weaker.Status, rq.Status, weaker.Why)
				if weaker.Status == "cond" {
					det += " bypass conditions " + strings.Join(weaker.Conds, " ; ")
				}
				p2 = e.p.Pos(weaker.Pos)
			} else {
				// same callee but dependencies differ?
				for _, ev := range res.events {
					if ev.Callee == rq.Callee && !used[ev] {
						var miss []string
						for _, d := range rq.Deps {
							if !depSatisfied(d, ev.Direct) {
								miss = append(miss, d)
							}
						}
						for _, d := range rq.DepsAny {
							if !depSatisfied(d, ev.Deps) {
								miss = append(miss, d)
							}
						}
						if len(miss) == 0 {
							continue
						}
						det = fmt.Sprintf("check event %s no longer depends on %v (has %v)", rq.Callee, miss, ev.Direct)
						p2 = e.p.Pos(ev.Pos)
						break
					}
				}
			}
			r.Fail("V-PASS", pkg, fname, key, p2, det)
		}
	}
	if t.Cover && e.sel["cover"] {
		e.cover(t, fn, res, r)
	}
	if t.Guard && (e.sel["guard-idx"] || e.sel["guard-len"]) {
		e.guard(t, fn, res, r)
	}
	if e.sel["err"] {
		e.errDiscipline(t, fn, r)
	}
}

// ---------------------------------------------------------------------------
// V-COVER

func leafPaths(prefix string, t types.Type, depth int, out *[]string) {
	t = deref(t)
	if depth > 6 {
		*out = append(*out, prefix)
		return
	}
	recurse := false
	if n, ok := t.(*types.Named); ok {
		if pk := n.Obj().Pkg(); pk != nil {
			pp := pk.Path()
			if inModule(pp) || strings.HasSuffix(pp, "/kzg") {
				recurse = true
			}
		}
	} else if _, ok := t.(*types.Struct); ok {
		recurse = true
	}
	switch u := t.Underlying().(type) {
	case *types.Struct:
		if !recurse {
			*out = append(*out, prefix)
			return
		}
		for i := 0; i < u.NumFields(); i++ {
			leafPaths(prefix+"."+u.Field(i).Name(), u.Field(i).Type(), depth+1, out)
		}
	case *types.Array:
		if _, isStruct := deref(u.Elem()).Underlying().(*types.Struct); isStruct {
			if n, ok := deref(u.Elem()).(*types.Named); ok && n.Obj().Pkg() != nil && inModule(n.Obj().Pkg().Path()) {
				leafPaths(prefix+"[]", u.Elem(), depth+1, out)
				return
			}
		}
		*out = append(*out, prefix)
	case *types.Slice:
		if n, ok := deref(u.Elem()).(*types.Named); ok && n.Obj().Pkg() != nil && inModule(n.Obj().Pkg().Path()) {
			if _, isStruct := n.Underlying().(*types.Struct); isStruct {
				leafPaths(prefix+"[]", u.Elem(), depth+1, out)
				return
			}
		}
		*out = append(*out, prefix)
	default:
		*out = append(*out, prefix)
	}
}

func (e *verifierEngine) cover(t *vTarget, fn *ssa.Function, res *vpassResult, r *Report) {
	pkg := FuncPkg(fn).Path()
	fname := FuncName(fn)
	var all []string
	for _, ev := range res.events {
		if statusRank(ev.Status) == 0 {
			continue
		}
		// in-module call events whose content has been lifted do not count by themselves
		if ev.Kind == "call" && ev.Lifted == "" {
			if c, ok := ev.Origin.(*ssa.Call); ok {
				if cal := c.Call.StaticCallee(); cal != nil && cal.Blocks != nil && FuncPkg(cal) != nil && inModule(FuncPkg(cal).Path()) {
					continue
				}
			}
		}
		all = append(all, ev.Deps...)
	}
	sort.Strings(all)
	all = uniq(all)
	skip := map[string]bool{}
	for _, s := range t.CoverSkip {
		skip[s] = true
	}
	for _, i := range t.Untrusted {
		if i >= len(fn.Params) {
			continue
		}
		pt := fn.Params[i].Type()
		if _, ok := deref(pt).Underlying().(*types.Struct); !ok {
			// non-struct untrusted parameter (e.g. the witness vector): the parameter itself
			p := fmt.Sprintf("$%d", i)
			e.coverOne(p, all, skip, pkg, fname, fn, r)
			continue
		}
		var leaves []string
		leafPaths(fmt.Sprintf("$%d", i), pt, 0, &leaves)
		for _, l := range leaves {
			e.coverOne(l, all, skip, pkg, fname, fn, r)
		}
	}
}

func (e *verifierEngine) coverOne(leaf string, all []string, skip map[string]bool, pkg, fname string, fn *ssa.Function, r *Report) {
	if skip[leaf] {
		return
	}
	for _, d := range all {
		dn := strings.ReplaceAll(d, "[]", "")
		ln := strings.ReplaceAll(leaf, "[]", "")
		dn = constIdxStrip(dn)
		if dn == ln || isPathPrefix(dn, ln) || isPathPrefix(ln, dn) {
			r.Pass("V-COVER", pkg, fname, "field:"+leaf, e.p.Pos(FuncPos(fn)), "untrusted field flows into a must/cond check event via "+d, true)
			return
		}
	}
	r.Fail("V-COVER", pkg, fname, "field:"+leaf, e.p.Pos(FuncPos(fn)), "untrusted field "+leaf+" is not consumed by any check event on the accepting paths")
}

var constIdxAny = regexp.MustCompile(`\[(\d+|\d*:\d*)\]`)

func constIdxStrip(s string) string { return constIdxAny.ReplaceAllString(s, "") }

// ---------------------------------------------------------------------------
// V-GUARD

// growRoot looks through phis and append calls: for a variable that starts as value R and is only ever reassigned
// to append(itself, ...), it returns R (its length is >= len(R) everywhere). nil when v is not of that shape.
func growRoot(v ssa.Value) ssa.Value {
	if _, ok := v.(*ssa.Phi); !ok {
		if c, ok := v.(*ssa.Call); !ok || !isBuiltinCall(c, "append") {
			return nil
		}
	}
	seen := map[ssa.Value]bool{}
	var root ssa.Value
	fail := false
	var walk func(x ssa.Value)
	walk = func(x ssa.Value) {
		if fail || seen[x] {
			return
		}
		seen[x] = true
		switch y := x.(type) {
		case *ssa.Phi:
			for _, e := range y.Edges {
				walk(e)
			}
		case *ssa.Call:
			if isBuiltinCall(y, "append") && len(y.Call.Args) > 0 {
				walk(y.Call.Args[0])
				return
			}
			fail = true
		default:
			if root != nil && root != x {
				fail = true
			}
			root = x
		}
	}
	walk(v)
	if fail {
		return nil
	}
	return root
}

func isBuiltinCall(c *ssa.Call, name string) bool {
	b, ok := c.Call.Value.(*ssa.Builtin)
	return ok && b.Name() == name
}

type sliceUse struct {
	ins   ssa.Instruction
	base  ssa.Value
	index ssa.Value // nil for slicing
	kind  string
}

func (e *verifierEngine) guard(t *vTarget, fn *ssa.Function, res *vpassResult, r *Report) {
	pkg := FuncPkg(fn).Path()
	fname := FuncName(fn)
	cfg := vpassCfg{untrusted: idxSet(t.Untrusted)}
	// length-fixing events
	type fixer struct {
		ev    *Event
		paths []string
	}
	var fixers []fixer
	for _, ev := range res.events {
		if ev.Lifted != "" && !(ev.Kind == "lenguard" && ev.PassBlk != nil && ev.Status == "must") {
			continue
		}
		if ev.Kind == "lenguard" {
			fixers = append(fixers, fixer{ev, ev.LenPaths})
			continue
		}
		if c, ok := ev.Origin.(*ssa.Call); ok && (ev.Kind == "call" || strings.HasPrefix(ev.Kind, "returned")) {
			name := CalleeName(&c.Call)
			for _, lf := range e.rules.LenFixers {
				if lf.Callee != name {
					continue
				}
				var args []ssa.Value
				if c.Call.IsInvoke() {
					args = append(args, c.Call.Value)
				}
				args = append(args, c.Call.Args...)
				if lf.Arg < len(args) {
					d := normIdx(Desc(args[lf.Arg])) + lf.Field
					fixers = append(fixers, fixer{ev, []string{d}})
				}
			}
		}
	}
	// collect uses in fn and its closures
	var uses []sliceUse
	var walk func(f *ssa.Function)
	walk = func(f *ssa.Function) {
		for _, b := range f.Blocks {
			for _, ins := range b.Instrs {
				switch x := ins.(type) {
				case *ssa.IndexAddr:
					uses = append(uses, sliceUse{ins, x.X, x.Index, "index"})
				case *ssa.Index:
					uses = append(uses, sliceUse{ins, x.X, x.Index, "index"})
				case *ssa.Slice:
					if x.Low != nil || x.High != nil {
						uses = append(uses, sliceUse{ins, x.X, nil, "slice"})
					}
				}
			}
		}
		for _, a := range f.AnonFuncs {
			walk(a)
		}
	}
	walk(fn)
	lenNeeded := map[string]token.Pos{}
	for _, u := range uses {
		if _, ok := u.base.Type().Underlying().(*types.Slice); !ok {
			continue // arrays and pointers to arrays are type-fixed
		}
		// a slice that only grows by append (x = append(x, ...) in a loop) is at least as long as its root
		if g := growRoot(u.base); g != nil {
			u.base = g
		}
		d := normIdx(Desc(u.base))
		if !pureParamPath.MatchString(d) {
			continue
		}
		if !e.vp.untrustedDep(u.base, fn, cfg, nil) {
			continue
		}
		if _, seen := lenNeeded[d]; !seen {
			lenNeeded[d] = u.ins.Pos()
		}
		blk := u.ins.Block()
		key := u.kind + ":" + normIdxKeepVar(Desc(valueOfUse(u)))
		// (a)/(b): dominated by a length-fixing event on the same path
		ok := false
		why := ""
		if u.ins.Parent() == fn {
			for _, fx := range fixers {
				for _, p := range fx.paths {
					if p != d {
						continue
					}
					if fx.ev.PassBlk != nil && len(fx.ev.PassBlk.Preds) == 1 && (fx.ev.PassBlk == blk || fx.ev.PassBlk.Dominates(blk)) {
						ok = true
						why = "dominated by length-fixing check " + fx.ev.Callee + " at " + e.p.Pos(fx.ev.Pos)
					}
				}
			}
		}
		// (c): index bounded by a loop over the same slice
		if !ok && u.index != nil {
			if boundedByLen(u.index, u.base, blk) {
				ok = true
				why = "index bounded by a loop condition i < len(" + d + ")"
			}
		}
		if !e.sel["guard-idx"] {
			continue
		}
		if ok {
			r.Pass("V-GUARD-IDX", pkg, fname, key, e.p.Pos(u.ins.Pos()), why, true)
		} else {
			r.Fail("V-GUARD-IDX", pkg, fname, key, e.p.Pos(u.ins.Pos()), "index/slice of untrusted slice "+d+" is not dominated by a length check that returns an error (out-of-range panic reachable from decodable input)")
		}
	}
	// loops ranging over untrusted slices also need their length fixed
	walkLoops := func(f *ssa.Function) {
		for _, b := range f.Blocks {
			iff, ok := lastInstr(b).(*ssa.If)
			if !ok {
				continue
			}
			bo, ok := iff.Cond.(*ssa.BinOp)
			if !ok || bo.Op != token.LSS {
				continue
			}
			if c, ok := bo.Y.(*ssa.Call); ok {
				if bi, ok := c.Call.Value.(*ssa.Builtin); ok && bi.Name() == "len" {
					d := normIdx(Desc(c.Call.Args[0]))
					if pureParamPath.MatchString(d) && e.vp.untrustedDep(c.Call.Args[0], fn, cfg, nil) {
						if _, isSl := c.Call.Args[0].Type().Underlying().(*types.Slice); isSl {
							if _, seen := lenNeeded[d]; !seen {
								lenNeeded[d] = iff.Cond.Pos()
							}
						}
					}
				}
			}
		}
	}
	walkLoops(fn)
	for _, a := range fn.AnonFuncs {
		walkLoops(a)
	}
	// V-GUARD-LEN: every untrusted slice that is indexed or ranged over has its length fixed on all accepting paths
	var ds []string
	for d := range lenNeeded {
		ds = append(ds, d)
	}
	sort.Strings(ds)
	for _, d := range ds {
		if !e.sel["guard-len"] {
			break
		}
		best := ""
		bestRank := -1
		var bev *Event
		for _, fx := range fixers {
			for _, p := range fx.paths {
				if p == d && statusRank(fx.ev.Status) > bestRank {
					bestRank = statusRank(fx.ev.Status)
					best = fx.ev.Callee
					bev = fx.ev
				}
			}
		}
		switch {
		case bestRank == 2:
			r.Pass("V-GUARD-LEN", pkg, fname, "len:"+d, e.p.Pos(bev.Pos), "length fixed on every accepting path by "+best, true)
		case bestRank == 1:
			r.Fail("V-GUARD-LEN", pkg, fname, "len:"+d, e.p.Pos(lenNeeded[d]), fmt.Sprintf("length of untrusted slice %s is fixed only when %s holds (check %s is bypassed otherwise): a proof with a surplus/short list is accepted or indexed", d, strings.Join(bev.Conds, ";"), best))
		default:
			r.Fail("V-GUARD-LEN", pkg, fname, "len:"+d, e.p.Pos(lenNeeded[d]), "length of untrusted slice "+d+" is never compared with a trusted length on the accepting paths")
		}
	}
}

func valueOfUse(u sliceUse) ssa.Value {
	if v, ok := u.ins.(ssa.Value); ok {
		return v
	}
	return u.base
}

// normIdxKeepVar: constant indices kept, variable indices collapsed.
func normIdxKeepVar(s string) string { return normIdx(s) }

// boundedByLen: idx is an induction variable tested `idx < len(base')` by a dominating branch where base' denotes the same slice.
func boundedByLen(idx ssa.Value, base ssa.Value, blk *ssa.BasicBlock) bool {
	bd := normIdx(Desc(base))
	for d := blk; d != nil; d = d.Idom() {
		iff, ok := lastInstr(d).(*ssa.If)
		if !ok {
			continue
		}
		bo, ok := iff.Cond.(*ssa.BinOp)
		if !ok || bo.Op != token.LSS || bo.X != idx {
			continue
		}
		c, ok := bo.Y.(*ssa.Call)
		if !ok {
			continue
		}
		bi, ok := c.Call.Value.(*ssa.Builtin)
		if !ok || bi.Name() != "len" {
			continue
		}
		if normIdx(Desc(c.Call.Args[0])) != bd {
			continue
		}
		s := d.Succs[0]
		if s == blk || s.Dominates(blk) {
			return true
		}
	}
	return false
}

// ---------------------------------------------------------------------------
// V-ERR

func (e *verifierEngine) errDiscipline(t *vTarget, fn *ssa.Function, r *Report) {
	e.errDisciplineFn(fn, fn, r)
}

func (e *verifierEngine) errDisciplineFn(top, fn *ssa.Function, r *Report) {
	pkg := FuncPkg(top).Path()
	fname := FuncName(top)
	ord := map[string]int{}
	for _, b := range fn.Blocks {
		for _, ins := range b.Instrs {
			var cc *ssa.CallCommon
			var val ssa.Value
			switch x := ins.(type) {
			case *ssa.Call:
				cc, val = &x.Call, x
			case *ssa.Go:
				cc = &x.Call
			case *ssa.Defer:
				cc = &x.Call
			}
			if cc == nil {
				continue
			}
			sig := cc.Signature()
			if sig == nil || sig.Results().Len() == 0 {
				continue
			}
			n := sig.Results().Len()
			if !isErrorType(sig.Results().At(n - 1).Type()) {
				continue
			}
			name := CalleeName(cc)
			ord[name]++
			key := fmt.Sprintf("%s#%d", name, ord[name])
			if why, ok := e.rules.ErrExempt[name]; ok {
				r.Add(&Obligation{Rule: "V-ERR", Pkg: pkg, Func: fname, Key: key, Pos: e.p.Pos(ins.Pos()), OK: true, Detail: "exempt: " + why})
				continue
			}
			used := false
			if val != nil {
				if n == 1 {
					used = hasRealUse(val)
				} else {
					for _, rr := range *val.Referrers() {
						if ex, ok := rr.(*ssa.Extract); ok && ex.Index == n-1 && hasRealUse(ex) {
							used = true
						}
					}
				}
			}
			if used {
				r.Pass("V-ERR", pkg, fname, key, e.p.Pos(ins.Pos()), "error result is consumed (tested / returned / sent)", true)
			} else {
				r.Fail("V-ERR", pkg, fname, key, e.p.Pos(ins.Pos()), "error result of "+name+" is discarded")
			}
		}
	}
	for _, a := range fn.AnonFuncs {
		e.errDisciplineFn(top, a, r)
	}
}

func hasRealUse(v ssa.Value) bool {
	refs := v.Referrers()
	if refs == nil {
		return false
	}
	for _, r := range *refs {
		if _, ok := r.(*ssa.DebugRef); ok {
			continue
		}
		return true
	}
	return false
}

// ---------------------------------------------------------------------------
// emit (developer mode): print the events of a function as a reference-table stanza

func emitTarget(p *Prog, fnPat string, untr map[int]bool) {
	eng := newVpassEngine(p)
	fns := p.FuncsMatching(fnPat)
	if len(fns) == 0 {
		fmt.Println("no function matches", fnPat)
		return
	}
	// events present (by signature) in every sibling
	type sigT struct {
		rq reqEvent
		n  int
	}
	count := map[string]*sigT{}
	for _, fn := range fns {
		res := eng.Analyze(fn, vpassCfg{untrusted: untr}, 0)
		seen := map[string]int{}
		for _, ev := range res.events {
			if statusRank(ev.Status) == 0 {
				continue
			}
			if ev.Kind == "call" && ev.Lifted == "" {
				if c, ok := ev.Origin.(*ssa.Call); ok {
					if cal := c.Call.StaticCallee(); cal != nil && cal.Blocks != nil && FuncPkg(cal) != nil && inModule(FuncPkg(cal).Path()) {
						// keep only if nothing was lifted from it
						sub := eng.Analyze(cal, vpassCfg{untrusted: map[int]bool{}}, 1)
						if len(sub.events) > 0 {
							continue
						}
					}
				}
			}
			rq := reqEvent{Callee: ev.Callee, Deps: ev.Direct, Consts: eventConsts(ev), Status: ev.Status}
			k := reqKey(&rq) + "|" + rq.Status
			seen[k]++
			kk := fmt.Sprintf("%s|%d", k, seen[k])
			if count[kk] == nil {
				count[kk] = &sigT{rq: rq}
			}
			count[kk].n++
		}
	}
	var keys []string
	for k := range count {
		keys = append(keys, k)
	}
	sort.Strings(keys)
	var reqs []reqEvent
	for _, k := range keys {
		if count[k].n == len(fns) {
			reqs = append(reqs, count[k].rq)
		} else {
			fmt.Printf("// not in all siblings (%d/%d): %s\n", count[k].n, len(fns), k)
		}
	}
	var ut []int
	for i := range untr {
		ut = append(ut, i)
	}
	sort.Ints(ut)
	t := vTarget{ID: "?", Func: fnPat, Untrusted: ut, Instances: len(fns), Required: reqs}
	b, _ := json.MarshalIndent(t, "", " ")
	fmt.Println(string(b))
}
