package main

import (
	"os"
	"fmt"
	"go/constant"
	"go/token"
	"go/types"
	"regexp"
	"sort"
	"strings"

	"golang.org/x/tools/go/ssa"
)

// ---------------------------------------------------------------------------
// Acceptance graph: CFG whose return blocks are split per incoming phi edge, with every
// end classified as accepting / rejecting / "accepting iff call c succeeds".

type endClass int

const (
	endNone endClass = iota
	endAccept
	endReject
	endEvent
)

type accNode struct {
	id    int
	blk   *ssa.BasicBlock
	via   *ssa.BasicBlock // virtual node: return block entered from this predecessor
	succs []int
	preds []int
	class endClass
	ev    ssa.Value // endEvent: the call (or recv) whose success decides acceptance
	retv  ssa.Value
}

type accGraph struct {
	p     *Prog
	fn    *ssa.Function
	kind  string // "error" | "bool"
	nodes []*accNode
	// edgeTo[from block index][succ position] = node id
	edgeTo [][]int
}

func resultKind(fn *ssa.Function) string {
	res := fn.Signature.Results()
	if res.Len() == 0 {
		return ""
	}
	last := res.At(res.Len() - 1).Type()
	if isErrorType(last) {
		return "error"
	}
	if res.Len() == 1 && isBoolType(last) {
		return "bool"
	}
	return ""
}

var rejectCtors = map[string]bool{
	"fmt.Errorf": true, "errors.New": true, "errors.Join": true,
}

// knownNonNil: is v known to be non-nil (resp. known false/true for bools: not handled) at block blk,
// because a dominating branch tested it.
func knownNonNil(v ssa.Value, blk *ssa.BasicBlock) bool {
	for d := blk.Idom(); d != nil; d = d.Idom() {
		iff, ok := lastInstr(d).(*ssa.If)
		if !ok {
			continue
		}
		bo, ok := iff.Cond.(*ssa.BinOp)
		if !ok {
			continue
		}
		var other ssa.Value
		if bo.X == v {
			other = bo.Y
		} else if bo.Y == v {
			other = bo.X
		} else {
			continue
		}
		if !isNilConst(other) {
			continue
		}
		var s *ssa.BasicBlock
		switch bo.Op {
		case token.NEQ:
			s = d.Succs[0]
		case token.EQL:
			s = d.Succs[1]
		default:
			continue
		}
		if len(s.Preds) == 1 && (s == blk || s.Dominates(blk)) {
			return true
		}
	}
	return false
}

func (g *accGraph) classify(v ssa.Value, at *ssa.BasicBlock, depth int) (endClass, ssa.Value) {
	if depth > 6 {
		return endAccept, nil
	}
	if g.kind == "error" && knownNonNil(v, at) {
		return endReject, nil
	}
	switch x := v.(type) {
	case *ssa.Const:
		if g.kind == "error" {
			if x.Value == nil {
				return endAccept, nil
			}
			return endReject, nil
		}
		if x.Value != nil && x.Value.String() == "false" {
			return endReject, nil
		}
		return endAccept, nil
	case *ssa.Phi:
		// phi not in the return block: reject only if every edge rejects
		all := true
		for i, e := range x.Edges {
			c, _ := g.classify(e, x.Block().Preds[i], depth+1)
			if c != endReject {
				all = false
			}
		}
		if all {
			return endReject, nil
		}
		return endAccept, nil
	case *ssa.MakeInterface:
		if g.kind == "error" {
			return endReject, nil // concrete error value
		}
	case *ssa.UnOp:
		if x.Op == token.MUL {
			if _, ok := x.X.(*ssa.Global); ok && g.kind == "error" {
				return endReject, nil // sentinel error variable
			}
		}
		if x.Op == token.ARROW {
			return endEvent, x
		}
	case *ssa.Call:
		if f := x.Call.StaticCallee(); f != nil {
			if rejectCtors[strings.TrimPrefix(FuncName(f), "")] || rejectCtors[shortFuncName(f)] {
				return endReject, nil
			}
		}
		return endEvent, x
	case *ssa.Extract:
		if c, ok := x.Tuple.(*ssa.Call); ok {
			return endEvent, c
		}
	}
	return endAccept, nil
}

func shortFuncName(f *ssa.Function) string {
	if f.Pkg != nil {
		return f.Pkg.Pkg.Name() + "." + f.Name()
	}
	return f.Name()
}

func buildAccGraph(p *Prog, fn *ssa.Function, kind string) *accGraph {
	g := &accGraph{p: p, fn: fn, kind: kind}
	n := len(fn.Blocks)
	for _, b := range fn.Blocks {
		g.nodes = append(g.nodes, &accNode{id: b.Index, blk: b})
	}
	g.edgeTo = make([][]int, n)
	// classify return blocks
	split := map[*ssa.BasicBlock]*ssa.Phi{}
	for _, b := range fn.Blocks {
		switch t := lastInstr(b).(type) {
		case *ssa.Return:
			var rv ssa.Value
			if len(t.Results) > 0 {
				if kind == "error" {
					rv = t.Results[len(t.Results)-1]
				} else {
					rv = t.Results[0]
				}
			}
			rv = unspillReturn(rv, b)
			nd := g.nodes[b.Index]
			nd.retv = rv
			if phi, ok := rv.(*ssa.Phi); ok && phi.Block() == b && len(b.Preds) > 1 {
				split[b] = phi
			} else if rv != nil {
				nd.class, nd.ev = g.classify(rv, b, 0)
			} else {
				nd.class = endAccept
			}
		case *ssa.Panic:
			g.nodes[b.Index].class = endReject
		default:
			if len(b.Succs) == 0 {
				g.nodes[b.Index].class = endReject
			}
		}
	}
	for _, b := range fn.Blocks {
		g.edgeTo[b.Index] = make([]int, len(b.Succs))
		for k, s := range b.Succs {
			tgt := s.Index
			if phi, ok := split[s]; ok {
				// which pred index? k-th occurrence handling
				pi := -1
				occ := 0
				for kk := 0; kk < k; kk++ {
					if b.Succs[kk] == s {
						occ++
					}
				}
				for i, pr := range s.Preds {
					if pr == b {
						if occ == 0 {
							pi = i
							break
						}
						occ--
					}
				}
				v := &accNode{id: len(g.nodes), blk: s, via: b}
				if pi >= 0 {
					v.retv = phi.Edges[pi]
					v.class, v.ev = g.classify(phi.Edges[pi], b, 0)
				} else {
					v.class = endAccept
				}
				g.nodes = append(g.nodes, v)
				tgt = v.id
			}
			g.edgeTo[b.Index][k] = tgt
			g.nodes[b.Index].succs = append(g.nodes[b.Index].succs, tgt)
			g.nodes[tgt].preds = append(g.nodes[tgt].preds, b.Index)
		}
	}
	return g
}

// forward reachability from node `from`, skipping edge (skipFrom->skipTo) and node skipNode.
func (g *accGraph) forward(from int, skipFrom, skipTo, skipNode int) []bool {
	seen := make([]bool, len(g.nodes))
	if from == skipNode {
		return seen
	}
	seen[from] = true
	work := []int{from}
	for len(work) > 0 {
		x := work[len(work)-1]
		work = work[:len(work)-1]
		for _, y := range g.nodes[x].succs {
			if x == skipFrom && y == skipTo {
				continue
			}
			if y == skipNode || seen[y] {
				continue
			}
			seen[y] = true
			work = append(work, y)
		}
	}
	return seen
}

// backward reachability: nodes that can reach any node in targets.
func (g *accGraph) backward(targets []int) []bool {
	seen := make([]bool, len(g.nodes))
	work := []int{}
	for _, t := range targets {
		if !seen[t] {
			seen[t] = true
			work = append(work, t)
		}
	}
	for len(work) > 0 {
		x := work[len(work)-1]
		work = work[:len(work)-1]
		for _, y := range g.nodes[x].preds {
			if !seen[y] {
				seen[y] = true
				work = append(work, y)
			}
		}
	}
	return seen
}

func (g *accGraph) acceptingEnds() []int {
	var out []int
	for _, n := range g.nodes {
		if n.class == endAccept || n.class == endEvent {
			out = append(out, n.id)
		}
	}
	return out
}

// ---------------------------------------------------------------------------
// Events

type Event struct {
	Callee  string   // callee (abstracted) or cmp/lenguard/recv
	Deps    []string // param-rooted paths the checked operands may depend on, objects shared between calls included
	Direct  []string // same without the shared-object expansion (value dependencies only)
	Consts  []string // string-constant arguments of the call ("$i" placeholders are substituted when lifted)
	Key     string   // canonical key
	Kind    string   // call | cmp | lenguard | recv | returned
	Status  string   // must | cond | optional
	Conds   []string // trusted bypass conditions (Status==cond)
	Pos     token.Pos
	Fn      *ssa.Function
	Origin  ssa.Value
	Block   *ssa.BasicBlock // If block (nil for returned events)
	PassBlk *ssa.BasicBlock // successor taken when the check passes
	Lifted  string          // non-empty: lifted from callee (name)
	Why     string          // for optional: the untrusted deciding condition
	// for lenguard: untrusted len paths fixed by this guard
	LenPaths []string
}

type vpassCfg struct {
	untrusted  map[int]bool // parameter indices (incl. receiver) that are untrusted
	lenTrusted map[int]bool // untrusted parameters whose *length* is nevertheless fixed by the caller (slice literals)
	fixedIn    map[string]bool // paths (callee parameter space) whose length the caller has already fixed against trusted data
}

type vpassResult struct {
	fn     *ssa.Function
	kind   string
	g      *accGraph
	events []*Event
	notes  []string
}

// condOrigin strips negations and nil/bool-constant comparisons.
func condOrigin(c ssa.Value) ssa.Value {
	for i := 0; i < 8; i++ {
		switch x := c.(type) {
		case *ssa.UnOp:
			if x.Op == token.NOT {
				c = x.X
				continue
			}
		case *ssa.BinOp:
			if x.Op == token.EQL || x.Op == token.NEQ {
				if _, ok := x.Y.(*ssa.Const); ok && (isNilConst(x.Y) || isBoolType(x.Y.Type())) {
					c = x.X
					continue
				}
				if _, ok := x.X.(*ssa.Const); ok && (isNilConst(x.X) || isBoolType(x.X.Type())) {
					c = x.Y
					continue
				}
			}
		}
		break
	}
	return c
}

var dollarRe = regexp.MustCompile(`(^|[^a-z])\$(\d+)`)

func substKey(key string, args []string) string {
	return dollarRe.ReplaceAllStringFunc(key, func(m string) string {
		sm := dollarRe.FindStringSubmatch(m)
		var i int
		fmt.Sscanf(sm[2], "%d", &i)
		if i < len(args) {
			return sm[1] + args[i]
		}
		return m
	})
}

// lenPathsOf returns descriptors of slices whose len() occurs in v (bounded walk over arithmetic).
func lenPathsOf(v ssa.Value, depth int, out *[]ssa.Value) {
	if depth > 8 || v == nil {
		return
	}
	switch x := v.(type) {
	case *ssa.Call:
		if b, ok := x.Call.Value.(*ssa.Builtin); ok && b.Name() == "len" {
			*out = append(*out, x.Call.Args[0])
		}
	case *ssa.BinOp:
		lenPathsOf(x.X, depth+1, out)
		lenPathsOf(x.Y, depth+1, out)
	case *ssa.Convert:
		lenPathsOf(x.X, depth+1, out)
	case *ssa.UnOp:
		lenPathsOf(x.X, depth+1, out)
	}
}

type vpassEngine struct {
	p     *Prog
	cache map[string]*vpassResult
}

func newVpassEngine(p *Prog) *vpassEngine {
	return &vpassEngine{p: p, cache: map[string]*vpassResult{}}
}

func (e *vpassEngine) untrustedDep(v ssa.Value, fn *ssa.Function, cfg vpassCfg, fixed map[string]bool) bool {
	top := fn
	for top.Parent() != nil {
		top = top.Parent()
	}
	stop := func(x ssa.Value) bool {
		if c, ok := x.(*ssa.Call); ok {
			if b, ok := c.Call.Value.(*ssa.Builtin); ok && b.Name() == "len" {
				if fixed[Desc(c.Call.Args[0])] || lenIsStructural(c.Call.Args[0]) {
					return true
				}
				if pm, ok := c.Call.Args[0].(*ssa.Parameter); ok && pm.Parent() == top && cfg.lenTrusted[paramIndex(pm)] {
					return true
				}
			}
		}
		return false
	}
	// a parameter handed on as a whole (possibly through the cell it was spilled into because a closure captures
	// it): its trust is that of the parameter, whatever else shares memory with it
	if pm := paramRoot(v); pm != nil && pm.Parent() == top {
		if _, isPtr := v.(*ssa.Parameter); isPtr || true {
			return cfg.untrusted[paramIndex(pm)]
		}
	}
	return dependsOnParams(v, top, cfg.untrusted, stop)
}

// Analyze computes the check events of fn and their must-pass status.
func (e *vpassEngine) Analyze(fn *ssa.Function, cfg vpassCfg, depth int) *vpassResult {
	kind := resultKind(fn)
	var ut []string
	for i := range cfg.untrusted {
		ut = append(ut, fmt.Sprint(i))
	}
	for i := range cfg.lenTrusted {
		ut = append(ut, fmt.Sprintf("L%d", i))
	}
	for k := range cfg.fixedIn {
		ut = append(ut, "F"+k)
	}
	sort.Strings(ut)
	ck := FuncName(fn) + "|" + strings.Join(ut, ",")
	if fn.Origin() != nil && fn.Origin() != fn {
		ck += "|" + fn.String()
	}
	if r, ok := e.cache[ck]; ok {
		return r
	}
	res := &vpassResult{fn: fn, kind: kind}
	e.cache[ck] = res
	if kind == "" || fn.Blocks == nil {
		return res
	}
	g := buildAccGraph(e.p, fn, kind)
	res.g = g
	accEnds := g.acceptingEnds()
	canAccept := g.backward(accEnds)
	reachable := g.forward(0, -1, -1, -1)

	// pass 1: find candidate events (If blocks with exactly one non-accepting successor)
	type cand struct {
		ev       *Event
		ifNode   int
		passNode int
		endNode  int // for returned events
	}
	var cands []*cand
	for _, b := range fn.Blocks {
		if !reachable[b.Index] {
			continue
		}
		iff, ok := lastInstr(b).(*ssa.If)
		if !ok {
			continue
		}
		t0, t1 := g.edgeTo[b.Index][0], g.edgeTo[b.Index][1]
		a0, a1 := canAccept[t0], canAccept[t1]
		if a0 == a1 {
			continue
		}
		pass, passIdx := t0, 0
		if !a0 {
			pass, passIdx = t1, 1
		}
		org := condOrigin(iff.Cond)
		ev := &Event{Fn: fn, Block: b, PassBlk: b.Succs[passIdx], Origin: org, Pos: iff.Cond.Pos()}
		if !ev.Pos.IsValid() {
			if ins, ok := org.(ssa.Instruction); ok {
				ev.Pos = ins.Pos()
			}
		}
		e.describe(ev, org, cfg)
		cands = append(cands, &cand{ev: ev, ifNode: b.Index, passNode: pass, endNode: -1})
	}
	for _, n := range g.nodes {
		if n.class == endEvent && reachable[n.id] {
			ev := &Event{Fn: fn, Origin: n.ev, Kind: "returned"}
			if ins, ok := n.ev.(ssa.Instruction); ok {
				ev.Pos = ins.Pos()
			}
			e.describe(ev, n.ev, cfg)
			ev.Kind = "returned:" + ev.Kind
			cands = append(cands, &cand{ev: ev, ifNode: -1, passNode: -1, endNode: n.id})
		}
	}
	// fixed-length guard set: lenguard events (evaluated first, position-insensitively by dominance)
	type lg struct {
		blk   *ssa.BasicBlock
		pass  *ssa.BasicBlock
		paths []string
	}
	var lgs []lg
	for _, c := range cands {
		if c.ev.Kind == "lenguard" {
			lgs = append(lgs, lg{c.ev.Block, c.ev.PassBlk, c.ev.LenPaths})
		}
	}
	if depth < 3 {
		for _, c := range cands {
			call, ok := c.ev.Origin.(*ssa.Call)
			if !ok || c.ev.PassBlk == nil {
				continue
			}
			callee := call.Call.StaticCallee()
			if callee == nil || callee.Blocks == nil || FuncPkg(callee) == nil || !inModule(FuncPkg(callee).Path()) {
				continue
			}
			ccfg := vpassCfg{untrusted: map[int]bool{}, lenTrusted: map[int]bool{}, fixedIn: map[string]bool{}}
			var argDescs []string
			for i, a := range call.Call.Args {
				argDescs = append(argDescs, Desc(a))
				if e.untrustedDep(a, fn, cfg, nil) {
					ccfg.untrusted[i] = true
				}
			}
			sub := e.Analyze(callee, ccfg, depth+1)
			for _, se := range sub.events {
				if se.Kind == "lenguard" && se.Status == "must" {
					var ps []string
					for _, lp := range substAll(se.LenPaths, argDescs) {
						ps = append(ps, normIdx(lp))
					}
					lgs = append(lgs, lg{c.ev.Block, c.ev.PassBlk, ps})
				}
			}
		}
	}
	fixedAt := func(b *ssa.BasicBlock) map[string]bool {
		m := map[string]bool{}
		for k := range cfg.fixedIn {
			m[k] = true
		}
		for _, l := range lgs {
			if len(l.pass.Preds) == 1 && (l.pass == b || l.pass.Dominates(b)) {
				for _, p := range l.paths {
					m[p] = true
				}
			}
		}
		return m
	}
	// pass 2: must-pass status
	for _, c := range cands {
		var reachE []bool
		var fw []bool
		if c.endNode >= 0 {
			reachE = g.backward([]int{c.endNode})
			fw = g.forward(0, -1, -1, c.endNode)
		} else {
			reachE = g.backward([]int{c.ifNode})
			fw = g.forward(0, c.ifNode, c.passNode, -1)
		}
		bypass := false
		for _, a := range accEnds {
			if fw[a] && a != c.endNode {
				bypass = true
			}
		}
		if !bypass {
			c.ev.Status = "must"
			res.events = append(res.events, c.ev)
			continue
		}
		// deciding edges
		status := "cond"
		condSet := map[string]bool{}
		for _, x := range g.nodes {
			if !fw[x.id] || !reachE[x.id] || x.via != nil {
				continue
			}
			for k, y := range x.succs {
				if x.id == c.ifNode && y == c.passNode {
					continue
				}
				if y == c.endNode {
					continue
				}
				if reachE[y] || !canAccept[y] {
					continue
				}
				// x -> y leaves the region from which the event is reachable, towards acceptance
				iff, ok := lastInstr(x.blk).(*ssa.If)
				if !ok {
					status = "optional"
					c.ev.Why = "non-branch edge at " + e.p.Pos(x.blk.Instrs[0].Pos())
					continue
				}
				if e.untrustedDep(iff.Cond, fn, cfg, fixedAt(x.blk)) {
					status = "optional"
					c.ev.Why = fmt.Sprintf("bypass decided by untrusted condition %s at %s", Desc(iff.Cond), e.p.Pos(iff.Cond.Pos()))
					continue
				}
				pol := ""
				if k == 1 {
					pol = "!"
				}
				condSet[pol+Desc(iff.Cond)] = true
			}
		}
		c.ev.Status = status
		for k := range condSet {
			c.ev.Conds = append(c.ev.Conds, k)
		}
		sort.Strings(c.ev.Conds)
		res.events = append(res.events, c.ev)
	}
	// pass 3: lift events of in-module callees
	if depth < 3 {
		var lifted []*Event
		for _, ev := range res.events {
			call, ok := ev.Origin.(*ssa.Call)
			if !ok {
				continue
			}
			callee := call.Call.StaticCallee()
			if callee == nil || callee.Blocks == nil {
				continue
			}
			pk := FuncPkg(callee)
			if pk == nil || !inModule(pk.Path()) {
				continue
			}
			// trust of callee parameters from the call-site arguments
			ccfg := vpassCfg{untrusted: map[int]bool{}, lenTrusted: map[int]bool{}, fixedIn: map[string]bool{}}
			// lengths already fixed by the caller, rewritten into the callee's parameter space
			for fp := range fixedAt(call.Block()) {
				for i, a := range call.Call.Args {
					ad := Desc(a)
					if fp == ad {
						ccfg.fixedIn[fmt.Sprintf("$%d", i)] = true
					} else if isPathPrefix(ad, fp) && pureParamPath.MatchString(normIdx(ad)) {
						ccfg.fixedIn[fmt.Sprintf("$%d", i)+fp[len(ad):]] = true
					}
				}
			}
			var argDescs []string
			for i, a := range call.Call.Args {
				argDescs = append(argDescs, Desc(a))
				if e.untrustedDep(a, fn, cfg, nil) {
					ccfg.untrusted[i] = true
					fx := fixedAt(call.Block())
					if lenIsStructural(a) || fx[Desc(a)] {
						ccfg.lenTrusted[i] = true
					} else if ms, ok := a.(*ssa.MakeSlice); ok && !e.untrustedDep(ms.Len, fn, cfg, fx) {
						ccfg.lenTrusted[i] = true
					}
				}
			}
			sub := e.Analyze(callee, ccfg, depth+1)
			if os.Getenv("GNARKLINT_DEBUG") == "lift" {
				fmt.Printf("  lift %s -> %s: %d events, cfg untrusted=%v lenTrusted=%v fixedIn=%v\n", funcBaseName(fn), funcBaseName(callee), len(sub.events), ccfg.untrusted, ccfg.lenTrusted, ccfg.fixedIn)
				for _, se := range sub.events {
					fmt.Printf("     %s %s %s\n", se.Status, se.Kind, se.Key[:min(len(se.Key), 80)])
				}
			}
			for _, se := range sub.events {
				if se.Status == "optional" {
					continue
				}
				le := *se
				le.Key = substKey(se.Key, argDescs)
				le.Consts = nil
				for _, c := range se.Consts {
					if strings.HasPrefix(c, "$") {
						var i int
						fmt.Sscanf(c[1:], "%d", &i)
						if i < len(call.Call.Args) {
							if k, ok := call.Call.Args[i].(*ssa.Const); ok && k.Value != nil && k.Value.Kind() == constant.String {
								le.Consts = append(le.Consts, fmt.Sprintf("%q", constant.StringVal(k.Value)))
							} else if pm, ok := call.Call.Args[i].(*ssa.Parameter); ok {
								le.Consts = append(le.Consts, fmt.Sprintf("$%d", paramIndex(pm)))
							}
						}
					} else {
						le.Consts = append(le.Consts, c)
					}
				}
				le.Deps = substDeps(se.Deps, call.Call.Args, false)
				le.Direct = substDeps(se.Direct, call.Call.Args, true)
				if se.Kind == "lenguard" {
					// a length check performed by a helper fixes the length in the caller once the helper's error
					// result has been tested: same passing edge as the call-site check, paths in caller terms
					le.PassBlk = ev.PassBlk
					le.Block = ev.Block
					le.LenPaths = nil
					for _, lp := range substAll(se.LenPaths, argDescs) {
						le.LenPaths = append(le.LenPaths, normIdx(lp))
					}
				}
				le.Lifted = Abstract(FuncName(callee))
				if se.Lifted != "" {
					le.Lifted += "<-" + se.Lifted
				}
				le.Fn = fn
				// status: weakest of call-site and callee-internal
				switch {
				case ev.Status == "optional":
					le.Status = "optional"
					le.Why = ev.Why
				case ev.Status == "cond" || se.Status == "cond":
					le.Status = "cond"
					le.Conds = append(append([]string{}, ev.Conds...), substAll(se.Conds, argDescs)...)
				default:
					le.Status = "must"
				}
				le.Pos = ev.Pos
				lifted = append(lifted, &le)
			}
		}
		res.events = append(res.events, lifted...)
	}
	sort.SliceStable(res.events, func(i, j int) bool { return res.events[i].Key < res.events[j].Key })
	return res
}

func substAll(ss []string, args []string) []string {
	out := make([]string, len(ss))
	for i, s := range ss {
		out[i] = substKey(s, args)
	}
	return out
}

// describe fills Kind / Key / Callee / Deps / LenPaths of an event from its origin value.
func (e *vpassEngine) describe(ev *Event, org ssa.Value, cfg vpassCfg) {
	e.describe0(ev, org, cfg)
	switch {
	case ev.Kind == "call":
		c := ev.Origin.(*ssa.Call)
		ev.Callee = CalleeName(&c.Call)
		var vals []ssa.Value
		if c.Call.IsInvoke() {
			vals = append(vals, c.Call.Value)
		}
		vals = append(vals, c.Call.Args...)
		ev.Deps = depsOf(vals...)
		ev.Direct = depsOfM(true, vals...)
		for _, a := range vals {
			switch x := a.(type) {
			case *ssa.Const:
				if x.Value != nil && x.Value.Kind() == constant.String {
					ev.Consts = append(ev.Consts, fmt.Sprintf("%q", constant.StringVal(x.Value)))
				}
			case *ssa.Parameter:
				if b, ok := x.Type().Underlying().(*types.Basic); ok && b.Kind() == types.String {
					ev.Consts = append(ev.Consts, fmt.Sprintf("$%d", paramIndex(x)))
				}
			}
		}
	case ev.Kind == "recv":
		ev.Callee = "recv"
		ev.Deps = depsOf(org)
		ev.Direct = depsOfM(true, org)
		// name the callee(s) whose result is sent
		s := SliceOf(org)
		var cs []string
		for c := range s.calls {
			if _, isB := c.Call.Value.(*ssa.Builtin); !isB && isSentCall(c) {
				cs = append(cs, CalleeName(&c.Call))
			}
		}
		if len(cs) == 0 {
			// the sender is a goroutine started as a named function (go f(..., ch)): describe what it sends in the
			// caller's terms
			if u, ok := org.(*ssa.UnOp); ok && u.Op == token.ARROW {
				ncs, deps, direct := namedSenders(u.X)
				cs = ncs
				ev.Deps = uniq(append(ev.Deps, deps...))
				ev.Direct = uniq(append(ev.Direct, direct...))
				sort.Strings(ev.Deps)
				sort.Strings(ev.Direct)
			}
		}
		sort.Strings(cs)
		ev.Callee = "recv<-" + strings.Join(uniq(cs), "+")
	default:
		ev.Callee = ev.Kind
		ev.Deps = depsOf(org)
		ev.Direct = depsOfM(true, org)
	}
}

// isSentCall: the call's result (or an extract of it) is the operand of a Send.
func isSentCall(c *ssa.Call) bool {
	chk := func(v ssa.Value) bool {
		for _, r := range *v.Referrers() {
			if _, ok := r.(*ssa.Send); ok {
				return true
			}
		}
		return false
	}
	if chk(c) {
		return true
	}
	for _, r := range *c.Referrers() {
		if ex, ok := r.(*ssa.Extract); ok && chk(ex) {
			return true
		}
	}
	return false
}

var idxNormRe = regexp.MustCompile(`\[[^\]]*\]`)
var constIdxRe = regexp.MustCompile(`^\[(\d+|\d*:\d*)\]$`)

// normIdx keeps constant indices / constant slice bounds and collapses variable ones to [].
func normIdx(p string) string {
	return idxNormRe.ReplaceAllStringFunc(p, func(m string) string {
		if constIdxRe.MatchString(m) && m != "[:]" {
			return m
		}
		return "[]"
	})
}

// depsOf: param-rooted paths in the backward slice of vals (variable indices normalised to []).
func depsOf(vals ...ssa.Value) []string { return depsOfM(false, vals...) }

func depsOfM(noObj bool, vals ...ssa.Value) []string {
	s := newSlicer()
	s.noObj = noObj
	for _, v := range vals {
		s.visit(v)
	}
	var ps []string
	for p := range s.paths {
		if !strings.HasPrefix(p, "$") {
			continue
		}
		ps = append(ps, normIdx(p))
	}
	sort.Strings(ps)
	return uniq(ps)
}

func (e *vpassEngine) describe0(ev *Event, org ssa.Value, cfg vpassCfg) {
	switch x := org.(type) {
	case *ssa.Call:
		ev.Kind = "call"
		ev.Key = CallKey(&x.Call)
	case *ssa.Extract:
		if c, ok := x.Tuple.(*ssa.Call); ok {
			ev.Kind = "call"
			ev.Key = CallKey(&c.Call)
			ev.Origin = c
			return
		}
		ev.Kind = "other"
		ev.Key = "extract:" + Desc(x)
	case *ssa.UnOp:
		if x.Op == token.ARROW {
			ev.Kind = "recv"
			ev.Key = "recv<-" + strings.Join(sendersOf(x.X), "+")
			return
		}
		ev.Kind = "other"
		ev.Key = "val:" + Desc(x)
	case *ssa.BinOp:
		var lens []ssa.Value
		lenPathsOf(x, 0, &lens)
		var ups []string
		for _, l := range lens {
			d := Desc(l)
			if e.untrustedDep(l, ev.Fn, cfg, nil) {
				ups = append(ups, d)
			}
		}
		if len(ups) > 0 {
			sort.Strings(ups)
			ups = uniq(ups)
			ev.Kind = "lenguard"
			ev.LenPaths = ups
			ev.Key = "lenguard:" + strings.Join(ups, ",")
			return
		}
		ev.Kind = "cmp"
		s := SliceOf(x)
		var ps []string
		for p := range s.paths {
			ps = append(ps, p)
		}
		for c := range s.calls {
			if b, ok := c.Call.Value.(*ssa.Builtin); ok && (b.Name() == "len" || b.Name() == "cap") {
				continue
			}
			ps = append(ps, CalleeName(&c.Call))
		}
		sort.Strings(ps)
		ps = maximalPaths(uniq(ps))
		ev.Key = "cmp" + x.Op.String() + ":" + strings.Join(ps, ",")
	default:
		ev.Kind = "other"
		ev.Key = "val:" + Desc(org)
	}
}

func uniq(ss []string) []string {
	var out []string
	for i, s := range ss {
		if i == 0 || s != ss[i-1] {
			out = append(out, s)
		}
	}
	return out
}

// maximalPaths drops paths that are strict prefixes of another path in the (sorted) list.
func maximalPaths(ss []string) []string {
	var out []string
	for i, s := range ss {
		isPrefix := false
		for j, t := range ss {
			if i != j && strings.HasPrefix(t, s) && len(t) > len(s) && (t[len(s)] == '.' || t[len(s)] == '[') {
				isPrefix = true
			}
		}
		if !isPrefix {
			out = append(out, s)
		}
	}
	return out
}

// sendersOf: descriptors of the values sent on channel ch by the function and its closures.
func sendersOf(ch ssa.Value) []string {
	// resolve channel identity: the Alloc cell or MakeChan
	cell := chanCell(ch)
	if cell == nil {
		return []string{"?"}
	}
	var fn *ssa.Function
	if ins, ok := cell.(ssa.Instruction); ok {
		fn = ins.Parent()
	}
	if fn == nil {
		return []string{"?"}
	}
	var out []string
	var walk func(f *ssa.Function)
	walk = func(f *ssa.Function) {
		for _, b := range f.Blocks {
			for _, ins := range b.Instrs {
				if s, ok := ins.(*ssa.Send); ok && chanCell(s.Chan) == cell {
					out = append(out, Desc(s.X))
				}
				// the sending goroutine body as a named function: go f(..., ch): sends on the parameter, described
				// in the caller's terms
				if ci, ok := ins.(ssa.CallInstruction); ok {
					cal := ci.Common().StaticCallee()
					if cal == nil || cal.Blocks == nil || FuncPkg(cal) == nil || !inModule(FuncPkg(cal).Path()) {
						continue
					}
					var argDescs []string
					pi := -1
					for i, a := range ci.Common().Args {
						argDescs = append(argDescs, Desc(a))
						if chanCell(a) == cell {
							pi = i
						}
					}
					if pi < 0 || pi >= len(cal.Params) {
						continue
					}
					for _, cb := range cal.Blocks {
						for _, cins := range cb.Instrs {
							if s, ok := cins.(*ssa.Send); ok && s.Chan == ssa.Value(cal.Params[pi]) {
								out = append(out, substKey(Desc(s.X), argDescs))
							}
						}
					}
				}
			}
		}
		for _, a := range f.AnonFuncs {
			walk(a)
		}
	}
	walk(fn)
	sort.Strings(out)
	return uniq(out)
}

func chanCell(ch ssa.Value) ssa.Value {
	for i := 0; i < 8; i++ {
		switch x := ch.(type) {
		case *ssa.UnOp:
			if x.Op == token.MUL {
				ch = x.X
				continue
			}
		case *ssa.FreeVar:
			if b := closureBinding(x); b != nil {
				ch = b
				continue
			}
		case *ssa.Alloc:
			if sv := singleStore(x); sv != nil {
				if _, ok := sv.(*ssa.MakeChan); ok {
					return x
				}
			}
			return x
		case *ssa.MakeChan:
			// if stored into a cell, use the cell
			for _, r := range *x.Referrers() {
				if st, ok := r.(*ssa.Store); ok && st.Val == x {
					if a, ok := st.Addr.(*ssa.Alloc); ok {
						return a
					}
				}
			}
			return x
		case *ssa.ChangeType:
			ch = x.X
			continue
		}
		break
	}
	if _, ok := ch.Type().Underlying().(*types.Chan); ok {
		return ch
	}
	return nil
}

var pureParamPath = regexp.MustCompile(`^\$\d+([.\[][^ ]*)?$`)

// substDeps rewrites callee-space dependency paths into the caller's space.
func substDeps(deps []string, args []ssa.Value, noObj bool) []string {
	var out []string
	for _, d := range deps {
		m := dollarRe.FindStringSubmatch(d)
		if m == nil {
			continue
		}
		var i int
		fmt.Sscanf(m[2], "%d", &i)
		rest := d[len(m[0]):]
		if i >= len(args) {
			continue
		}
		ad := normIdx(Desc(args[i]))
		if pureParamPath.MatchString(ad) {
			out = append(out, ad+rest)
		} else {
			out = append(out, depsOfM(noObj, args[i])...)
		}
	}
	sort.Strings(out)
	return uniq(out)
}

// lenIsStructural: the length of slice value v is fixed by the program text (slice of an array literal,
// nil, or make with a constant size), whatever its contents.
func lenIsStructural(v ssa.Value) bool {
	switch x := v.(type) {
	case *ssa.Const:
		return x.Value == nil
	case *ssa.Slice:
		if x.Low != nil || x.High != nil {
			return false
		}
		if a, ok := x.X.(*ssa.Alloc); ok {
			_, isArr := deref(a.Type()).Underlying().(*types.Array)
			return isArr
		}
	case *ssa.MakeSlice:
		_, ok := x.Len.(*ssa.Const)
		return ok
	}
	return false
}

// unspillReturn: with deferred calls go/ssa spills named results into Alloc cells and returns a load of the
// cell; recover the value stored into the cell in the returning block (or its unique predecessor chain).
func unspillReturn(rv ssa.Value, b *ssa.BasicBlock) ssa.Value {
	u, ok := rv.(*ssa.UnOp)
	if !ok || u.Op != token.MUL {
		return rv
	}
	cell, ok := u.X.(*ssa.Alloc)
	if !ok {
		return rv
	}
	for blk, hops := b, 0; blk != nil && hops < 4; hops++ {
		for i := len(blk.Instrs) - 1; i >= 0; i-- {
			if st, ok := blk.Instrs[i].(*ssa.Store); ok && st.Addr == cell {
				return st.Val
			}
		}
		if len(blk.Preds) != 1 {
			break
		}
		blk = blk.Preds[0]
	}
	return rv
}

// namedSenders: for a channel handed to `go f(..., ch)` (f a module function): the callees whose results f sends on
// the parameter, and the dependencies of the sent values with f's parameters replaced by the call's arguments.
func namedSenders(ch ssa.Value) (callees, deps, direct []string) {
	cell := chanCell(ch)
	if cell == nil {
		return
	}
	ci0, ok := cell.(ssa.Instruction)
	if !ok || ci0.Parent() == nil {
		return
	}
	var walk func(f *ssa.Function)
	walk = func(f *ssa.Function) {
		for _, b := range f.Blocks {
			for _, ins := range b.Instrs {
				ci, ok := ins.(ssa.CallInstruction)
				if !ok {
					continue
				}
				cal := ci.Common().StaticCallee()
				if cal == nil || cal.Blocks == nil || FuncPkg(cal) == nil || !inModule(FuncPkg(cal).Path()) {
					continue
				}
				pi := -1
				for i, a := range ci.Common().Args {
					if chanCell(a) == cell {
						pi = i
					}
				}
				if pi < 0 || pi >= len(cal.Params) {
					continue
				}
				for _, cb := range cal.Blocks {
					for _, cins := range cb.Instrs {
						s, ok := cins.(*ssa.Send)
						if !ok || s.Chan != ssa.Value(cal.Params[pi]) {
							continue
						}
						sl := SliceOf(s.X)
						for c := range sl.calls {
							if _, isB := c.Call.Value.(*ssa.Builtin); !isB && isSentCall(c) {
								callees = append(callees, CalleeName(&c.Call))
							}
						}
						deps = append(deps, substDeps(depsOf(s.X), ci.Common().Args, false)...)
						direct = append(direct, substDeps(depsOfM(true, s.X), ci.Common().Args, true)...)
					}
				}
			}
		}
		for _, a := range f.AnonFuncs {
			walk(a)
		}
	}
	walk(ci0.Parent())
	return
}
