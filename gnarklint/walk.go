package main

import (
	"fmt"
	"go/ast"
	"go/constant"
	"go/token"
	"go/types"
	"sort"
	"strings"

	"golang.org/x/tools/go/ssa"
)

// walk engine (DESIGN.md 3.10, C07): schema walk discipline and witness object discipline.

func visibilityConsts(p *Prog) (pub, sec int64, ok bool) {
	pk := p.ByPth[modPath+"/frontend/schema"]
	if pk == nil {
		return 0, 0, false
	}
	get := func(n string) (int64, bool) {
		c, isC := pk.Types.Scope().Lookup(n).(*types.Const)
		if !isC {
			return 0, false
		}
		v, _ := constant.Int64Val(constant.ToInt(c.Val()))
		return v, true
	}
	a, ok1 := get("Public")
	b, ok2 := get("Secret")
	return a, b, ok1 && ok2
}

func isVisibilityType(t types.Type) bool {
	n, ok := t.(*types.Named)
	return ok && n.Obj().Name() == "Visibility" && n.Obj().Pkg() != nil && n.Obj().Pkg().Path() == modPath+"/frontend/schema"
}

// handlerVisibility: the visibility constants a walk handler filters on.
func handlerVisibility(v ssa.Value) []int64 {
	set := map[int64]bool{}
	for i := 0; i < 4; i++ {
		if ct, ok := v.(*ssa.ChangeType); ok {
			v = ct.X
			continue
		}
		if mi, ok := v.(*ssa.MakeInterface); ok {
			v = mi.X
			continue
		}
		break
	}
	switch x := v.(type) {
	case *ssa.MakeClosure:
		fn := x.Fn.(*ssa.Function)
		for _, b := range fn.Blocks {
			for _, ins := range b.Instrs {
				bo, ok := ins.(*ssa.BinOp)
				if !ok || bo.Op != token.EQL {
					continue
				}
				for _, op := range []ssa.Value{bo.X, bo.Y} {
					if c, ok := op.(*ssa.Const); ok && isVisibilityType(c.Type()) && c.Value != nil {
						n, _ := constant.Int64Val(constant.ToInt(c.Value))
						set[n] = true
					}
				}
			}
		}
		// closures capturing a visibility value (variableAdder(targetVisibility))
		for _, bnd := range x.Bindings {
			if c, ok := bnd.(*ssa.Const); ok && isVisibilityType(c.Type()) && c.Value != nil {
				n, _ := constant.Int64Val(constant.ToInt(c.Value))
				return []int64{n}
			}
		}
	case *ssa.Call:
		for _, a := range x.Call.Args {
			if c, ok := a.(*ssa.Const); ok && isVisibilityType(c.Type()) && c.Value != nil {
				n, _ := constant.Int64Val(constant.ToInt(c.Value))
				return []int64{n}
			}
		}
	case *ssa.Function:
		return handlerVisibility(&ssa.MakeClosure{Fn: x})
	}
	var out []int64
	for n := range set {
		out = append(out, n)
	}
	sort.Slice(out, func(i, j int) bool { return out[i] < out[j] })
	return out
}

// RunWalkOrder: every function that walks a circuit / assignment with visibility-filtering handlers visits
// public leaves first, secret leaves second.
func RunWalkOrder(p *Prog, r *Report) {
	pub, sec, ok := visibilityConsts(p)
	if !ok {
		r.Fail("UNRESOLVED", "-", "-", "schema.Public/Secret", "-", "visibility constants not found")
		return
	}
	n := 0
	for _, fn := range p.Funcs {
		pk := FuncPkg(fn)
		if pk == nil {
			continue
		}
		rel := strings.TrimPrefix(pk.Path(), modPath+"/")
		if rel != "frontend" && rel != "backend/witness" {
			continue
		}
		var seq []int64
		var first ssa.Instruction
		for _, b := range fn.Blocks {
			for _, ins := range b.Instrs {
				c, ok := ins.(*ssa.Call)
				if !ok {
					continue
				}
				cal := c.Call.StaticCallee()
				if cal == nil || FuncName(cal) != modPath+"/frontend/schema.Walk" || len(c.Call.Args) < 3 {
					continue
				}
				h := c.Call.Args[2]
				if isNilConst(h) {
					continue
				}
				vs := handlerVisibility(h)
				if len(vs) == 1 {
					seq = append(seq, vs[0])
					if first == nil {
						first = ins
					}
				}
			}
		}
		if len(seq) == 0 {
			continue
		}
		n++
		key := "walk-order"
		pos := p.Pos(first.Pos())
		good := seq[0] == pub && (len(seq) == 1 || seq[1] == sec)
		if good {
			r.Pass("WALK-ORDER", pk.Path(), FuncName(fn), key, pos, fmt.Sprintf("visibility-filtered walks in order %v (public=%d first, secret=%d second)", seq, pub, sec), true)
		} else {
			r.Fail("WALK-ORDER", pk.Path(), FuncName(fn), key, pos, fmt.Sprintf("visibility-filtered walks run in order %v; witness and compiler must enumerate public leaves (=%d) before secret leaves (=%d)", seq, pub, sec))
		}
	}
	if n < 4 {
		r.Fail("UNRESOLVED", "-", "-", "walk-order-sites", "-", fmt.Sprintf("%d ordered walk sites found, confirmed 4", n))
	}
}

// RunWalkVisibility: in (*walker).StructField the parent/child visibility conflict test is evaluated after every
// assignment of the field's own visibility (AST order inside the function body, on the structured statements).
func RunWalkVisibility(p *Prog, r *Report) {
	pk := p.ByPth[modPath+"/frontend/schema"]
	if pk == nil {
		r.Fail("UNRESOLVED", "-", "-", "frontend/schema", "-", "package not loaded")
		return
	}
	var fd *ast.FuncDecl
	for _, f := range pk.Syntax {
		for _, d := range f.Decls {
			if x, ok := d.(*ast.FuncDecl); ok && x.Name.Name == "StructField" && x.Recv != nil {
				fd = x
			}
		}
	}
	if fd == nil {
		r.Fail("UNRESOLVED", pk.PkgPath, "-", "StructField", "-", "(*walker).StructField not found")
		return
	}
	// positions of assignments to *.Visibility and of the conflict test (an if whose condition mentions .Visibility and whose body returns an error)
	var lastAssign, test token.Pos
	var testFound bool
	var scan func(n ast.Node, inCall bool)
	conflictInCallee := token.NoPos
	ast.Inspect(fd.Body, func(n ast.Node) bool {
		switch x := n.(type) {
		case *ast.AssignStmt:
			for _, l := range x.Lhs {
				if sel, ok := l.(*ast.SelectorExpr); ok && sel.Sel.Name == "Visibility" {
					if x.Pos() > lastAssign {
						lastAssign = x.Pos()
					}
				}
			}
		case *ast.IfStmt:
			mentions := false
			ast.Inspect(x.Cond, func(m ast.Node) bool {
				if sel, ok := m.(*ast.SelectorExpr); ok && sel.Sel.Name == "Visibility" {
					mentions = true
				}
				return true
			})
			if mentions && blockReturnsError(x.Body) {
				test = x.Pos()
				testFound = true
			}
		case *ast.CallExpr:
			// a helper performing the test: look into same-package helpers receiving the leaf info
			if sel, ok := x.Fun.(*ast.SelectorExpr); ok {
				if hf := findFuncDecl(pk.Syntax, sel.Sel.Name); hf != nil && hf != fd && helperTestsVisibility(hf) {
					conflictInCallee = x.Pos()
				}
			} else if id, ok := x.Fun.(*ast.Ident); ok {
				if hf := findFuncDecl(pk.Syntax, id.Name); hf != nil && hf != fd && helperTestsVisibility(hf) {
					conflictInCallee = x.Pos()
				}
			}
		}
		return true
	})
	_ = scan
	pos := p.Pos(fd.Pos())
	fname := modPath + "/frontend/schema.(*walker).StructField"
	if !testFound && conflictInCallee.IsValid() {
		test, testFound = conflictInCallee, true
	}
	switch {
	case !testFound:
		r.Fail("WALK-VIS", pk.PkgPath, fname, "conflict-test", pos, "the parent/child visibility conflict test is gone: a `public` field inside a `secret` struct silently changes the public part of the witness")
	case lastAssign.IsValid() && test < lastAssign:
		r.Fail("WALK-VIS", pk.PkgPath, fname, "conflict-test", p.Pos(test), "the visibility conflict test runs before the field's own public/secret option is applied (assignment at "+p.Pos(lastAssign)+"): it can never fire")
	default:
		r.Pass("WALK-VIS", pk.PkgPath, fname, "conflict-test", p.Pos(test), "conflict test is evaluated after the field's own visibility option has been applied", true)
	}
}

func blockReturnsError(b *ast.BlockStmt) bool {
	found := false
	ast.Inspect(b, func(n ast.Node) bool {
		if r, ok := n.(*ast.ReturnStmt); ok && len(r.Results) > 0 && !isNilIdent(r.Results[len(r.Results)-1]) {
			found = true
		}
		return true
	})
	return found
}

func findFuncDecl(files []*ast.File, name string) *ast.FuncDecl {
	for _, f := range files {
		for _, d := range f.Decls {
			if x, ok := d.(*ast.FuncDecl); ok && x.Name.Name == name && x.Body != nil {
				return x
			}
		}
	}
	return nil
}

func helperTestsVisibility(fd *ast.FuncDecl) bool {
	found := false
	ast.Inspect(fd.Body, func(n ast.Node) bool {
		if x, ok := n.(*ast.IfStmt); ok {
			mentions := false
			ast.Inspect(x.Cond, func(m ast.Node) bool {
				if sel, ok := m.(*ast.SelectorExpr); ok && sel.Sel.Name == "Visibility" {
					mentions = true
				}
				if id, ok := m.(*ast.Ident); ok && strings.Contains(strings.ToLower(id.Name), "visibility") {
					mentions = true
				}
				return true
			})
			if mentions && blockReturnsError(x.Body) {
				found = true
			}
		}
		return true
	})
	return found
}

// RunWitnessPure: read accessors of the witness object do not write the object.
func RunWitnessPure(p *Prog, r *Report) {
	setters := func(n string) bool {
		for _, pre := range []string{"Read", "Unmarshal", "Fill", "From", "Set", "fill", "set", "read"} {
			if strings.HasPrefix(n, pre) {
				return true
			}
		}
		return false
	}
	n := 0
	for _, fn := range p.Funcs {
		pk := FuncPkg(fn)
		if pk == nil || pk.Path() != modPath+"/backend/witness" || fn.Parent() != nil || fn.Synthetic != "" {
			continue
		}
		if fn.Signature.Recv() == nil || namedName(fn.Signature.Recv().Type()) != "witness" || len(fn.Params) == 0 {
			continue
		}
		name := funcBaseName(fn)
		if setters(name) {
			continue
		}
		n++
		if writesThroughParam(fn, fn.Params[0]) {
			r.Fail("WIT-PURE", pk.Path(), FuncName(fn), "no-receiver-write", p.Pos(FuncPos(fn)), "read accessor "+name+" stores into the witness object: results of later calls depend on the call history (stale cached values after a new decode)")
		} else {
			r.Pass("WIT-PURE", pk.Path(), FuncName(fn), "no-receiver-write", p.Pos(FuncPos(fn)), "accessor does not write the receiver", true)
		}
	}
	if n < 5 {
		r.Fail("UNRESOLVED", "-", "-", "witness-accessors", "-", fmt.Sprintf("%d accessors found, confirmed 5", n))
	}
	// the schema object is shared by every JSON conversion and witness construction of a circuit: its methods are
	// read-only (no store / map update that reaches memory shared with the caller's Schema)
	ns := 0
	for _, fn := range p.Funcs {
		pk := FuncPkg(fn)
		if pk == nil || pk.Path() != modPath+"/frontend/schema" || fn.Parent() != nil || fn.Synthetic != "" {
			continue
		}
		if fn.Signature.Recv() == nil || namedName(fn.Signature.Recv().Type()) != "Schema" || len(fn.Params) == 0 {
			continue
		}
		ns++
		if pos, ok := mutatesShared(fn, fn.Params[0]); ok {
			r.Fail("WIT-PURE", pk.Path(), FuncName(fn), "no-schema-write", p.Pos(pos), "method of the shared Schema object writes memory reachable from the receiver (field, slice element or map entry): objects or values cached there leak from one witness conversion into the next")
		} else {
			r.Pass("WIT-PURE", pk.Path(), FuncName(fn), "no-schema-write", p.Pos(FuncPos(fn)), "method does not write memory reachable from the Schema receiver", true)
		}
	}
	if ns < 2 {
		r.Fail("UNRESOLVED", "-", "-", "schema-methods", "-", fmt.Sprintf("%d Schema methods found, confirmed 2 (Instantiate, WriteSequence)", ns))
	}
}

// mutatesShared: fn stores (or map-updates) through memory reachable from parameter pm that is shared with the
// caller: anything behind a pointer parameter, and for a by-value struct parameter anything behind a slice, map or
// pointer held in it (writes to the local copy itself are harmless).
func mutatesShared(fn *ssa.Function, pm *ssa.Parameter) (token.Pos, bool) {
	_, ptr := pm.Type().Underlying().(*types.Pointer)
	var reach func(v ssa.Value, d int) (bool, bool) // (rooted at pm, crossed a reference)
	reach = func(v ssa.Value, d int) (bool, bool) {
		if d > 12 {
			return false, false
		}
		switch x := v.(type) {
		case *ssa.Parameter:
			return x == pm, ptr
		case *ssa.Alloc:
			if sv := singleStore(x); sv != nil {
				if q, ok := sv.(*ssa.Parameter); ok && q == pm {
					return true, ptr
				}
			}
			return false, false
		case *ssa.FieldAddr:
			return reach(x.X, d+1)
		case *ssa.Field:
			return reach(x.X, d+1)
		case *ssa.IndexAddr:
			return reach(x.X, d+1)
		case *ssa.Slice:
			return reach(x.X, d+1)
		case *ssa.UnOp:
			if x.Op == token.MUL {
				ok, crossed := reach(x.X, d+1)
				switch x.Type().Underlying().(type) {
				case *types.Slice, *types.Map, *types.Pointer:
					crossed = true
				}
				return ok, crossed
			}
		}
		return false, false
	}
	for _, b := range fn.Blocks {
		for _, ins := range b.Instrs {
			switch x := ins.(type) {
			case *ssa.Store:
				if ok, crossed := reach(x.Addr, 0); ok && crossed {
					return x.Pos(), true
				}
			case *ssa.MapUpdate:
				if ok, _ := reach(x.Map, 0); ok {
					return x.Pos(), true
				}
			}
		}
	}
	return token.NoPos, false
}

// RunWitnessTypeSwitches: all type switches over the witness vector have identical case sets.
func RunWitnessTypeSwitches(p *Prog, r *Report) {
	pk := p.ByPth[modPath+"/backend/witness"]
	if pk == nil {
		r.Fail("UNRESOLVED", "-", "-", "backend/witness", "-", "package not loaded")
		return
	}
	type sw struct {
		pos   token.Pos
		cases []string
		fn    string
	}
	var sws []sw
	for _, f := range pk.Syntax {
		for _, d := range f.Decls {
			fd, ok := d.(*ast.FuncDecl)
			if !ok || fd.Body == nil {
				continue
			}
			ast.Inspect(fd.Body, func(n ast.Node) bool {
				ts, ok := n.(*ast.TypeSwitchStmt)
				if !ok {
					return true
				}
				var cs []string
				for _, cl := range ts.Body.List {
					for _, e := range cl.(*ast.CaseClause).List {
						if tv, ok := pk.TypesInfo.Types[e]; ok {
							s := tv.Type.String()
							if strings.HasSuffix(s, ".Vector") {
								cs = append(cs, s)
							}
						}
					}
				}
				if len(cs) >= 3 {
					sort.Strings(cs)
					sws = append(sws, sw{ts.Pos(), cs, fd.Name.Name})
				}
				return true
			})
		}
	}
	if len(sws) < 5 {
		r.Fail("UNRESOLVED", pk.PkgPath, "-", "vector-typeswitches", "-", fmt.Sprintf("%d vector type switches found, confirmed 5", len(sws)))
		return
	}
	// reference: the largest case set
	ref := sws[0].cases
	for _, s := range sws {
		if len(s.cases) > len(ref) {
			ref = s.cases
		}
	}
	ord := map[string]int{}
	for _, s := range sws {
		ord[s.fn]++
		key := fmt.Sprintf("typeswitch:%s#%d", s.fn, ord[s.fn])
		if strings.Join(s.cases, ",") == strings.Join(ref, ",") {
			r.Pass("CODEC-TYPESWITCH", pk.PkgPath, s.fn, key, p.Pos(s.pos), fmt.Sprintf("handles all %d vector types", len(ref)), true)
		} else {
			var miss []string
			have := map[string]bool{}
			for _, c := range s.cases {
				have[c] = true
			}
			for _, c := range ref {
				if !have[c] {
					miss = append(miss, c)
				}
			}
			r.Fail("CODEC-TYPESWITCH", pk.PkgPath, s.fn, key, p.Pos(s.pos), "type switch over the witness vector does not handle "+strings.Join(miss, ", ")+" (falls into the panic / error default for a supported field)")
		}
	}
}
