package main

// WALK-BALANCE (C07): the schema walker keeps the path to the current leaf (names, inherited visibility) on a
// stack; the callbacks of the reflection walk push (StructField, SliceElem, ArrayElem) and Exit(loc) pops. The names
// and visibilities of all later leaves are right only if, in every traversal function of package reflectwalk
// specialised to the walker type, every path through a loop iteration and every path to a non-error return
// leaves the stack as deep as it found it.
//
// Found from the code: the walker type (the argument of reflectwalk.Walk in schema.Walk), its stack type (the
// field whose element methods append to / shorten the receiver), which callback methods push on their nil-return
// paths, for which Location constants Exit pops, and which optional walker interfaces the walker implements
// (type assertions in reflectwalk are folded accordingly).

import (
	"fmt"
	"go/constant"
	"go/token"
	"go/types"
	"sort"
	"strings"

	"golang.org/x/tools/go/ssa"
)

type pushSummary struct {
	onNil, onErr string // "always", "never", "mixed", "none" (no such return)
}

type walkBal struct {
	p        *Prog
	push     *ssa.Function
	pop      *ssa.Function
	summ     map[*ssa.Function]*pushSummary
	walkerT  types.Type // *walker
	popLocs  map[int64]bool
	mixedLoc []int64
}

// callsFn reports whether ins is a static call to fn.
func staticCallTo(ins ssa.Instruction) *ssa.Function {
	if c, ok := ins.(ssa.CallInstruction); ok {
		return c.Common().StaticCallee()
	}
	return nil
}

// summary computes, for a function returning error, whether the stack push happens on its nil / non-nil returns.
func (w *walkBal) summary(fn *ssa.Function, depth int) *pushSummary {
	if s, ok := w.summ[fn]; ok {
		return s
	}
	s := &pushSummary{onNil: "none", onErr: "none"}
	w.summ[fn] = s
	if fn == nil || len(fn.Blocks) == 0 || depth > 4 {
		s.onNil, s.onErr = "never", "never"
		return s
	}
	// blocks containing a definite push: a call to push, or to a same-package callee that always pushes (nil and err alike)
	pushBlock := map[*ssa.BasicBlock]bool{}
	anyPush := false
	for _, b := range fn.Blocks {
		for _, ins := range b.Instrs {
			cal := staticCallTo(ins)
			if cal == nil {
				continue
			}
			if cal == w.push {
				pushBlock[b] = true
				anyPush = true
			} else if FuncPkg(cal) == FuncPkg(fn) && cal != fn {
				cs := w.summary(cal, depth+1)
				if cs.onNil == "always" && (cs.onErr == "always" || cs.onErr == "none") {
					// tail calls are handled below; a non-tail call that always pushes counts as a push
					if !isTailCall(ins) {
						pushBlock[b] = true
						anyPush = true
					}
				}
			}
		}
	}
	merge := func(cur *string, v string) {
		if *cur == "none" {
			*cur = v
		} else if *cur != v {
			*cur = "mixed"
		}
	}
	for _, b := range fn.Blocks {
		ret, ok := lastInstr(b).(*ssa.Return)
		if !ok || len(ret.Results) == 0 {
			continue
		}
		rv := ret.Results[len(ret.Results)-1]
		// pushes before this return?
		own := "never"
		if anyPush {
			reachNoPush := reach(fn.Blocks[0], func(from, to *ssa.BasicBlock) bool { return pushBlock[from] })
			if pushBlock[b] || !reachNoPush[b] {
				own = "always"
			} else {
				// reachable without a push; is it also reachable with one?
				with := false
				for pb := range pushBlock {
					if reach(pb, nil)[b] {
						with = true
					}
				}
				if with {
					own = "mixed"
				}
			}
		}
		if c, ok := rv.(*ssa.Const); ok && c.Value == nil {
			merge(&s.onNil, own)
			continue
		}
		if call, ok := rv.(*ssa.Call); ok {
			if cal := call.Call.StaticCallee(); cal != nil && FuncPkg(cal) == FuncPkg(fn) && cal != fn {
				cs := w.summary(cal, depth+1)
				comb := func(c string) string {
					if c == "none" {
						return "none"
					}
					if own == "never" {
						return c
					}
					if own == "always" && c == "never" {
						return "always"
					}
					return "mixed" // pushes twice or on some paths
				}
				if v := comb(cs.onNil); v != "none" {
					merge(&s.onNil, v)
				}
				if v := comb(cs.onErr); v != "none" {
					merge(&s.onErr, v)
				}
				continue
			}
		}
		// anything else (sentinel, constructed error, error from a foreign callee / handler): treated as an error return;
		// a value that may also be nil (err from handler) with no push is covered by own == never
		if knownNonNilAt(rv, b) || isErrorConstruction(rv) {
			merge(&s.onErr, own)
		} else {
			merge(&s.onErr, own)
			merge(&s.onNil, own)
		}
	}
	return s
}

func isTailCall(ins ssa.Instruction) bool {
	v, ok := ins.(ssa.Value)
	if !ok {
		return false
	}
	refs := v.Referrers()
	if refs == nil || len(*refs) != 1 {
		return false
	}
	_, isRet := (*refs)[0].(*ssa.Return)
	return isRet
}

func isErrorConstruction(v ssa.Value) bool {
	switch x := v.(type) {
	case *ssa.Call:
		return true // fmt.Errorf, errors.New ...: callers treat it as non-nil only when the callee is foreign
	case *ssa.UnOp:
		if x.Op == token.MUL {
			_, isG := x.X.(*ssa.Global)
			return isG
		}
	case *ssa.MakeInterface:
		return true
	}
	return false
}

// knownNonNilAt: block b is only reached through an edge on which v was tested non-nil (v != nil true edge,
// v == nil false edge, v == *sentinel true edge).
func knownNonNilAt(v ssa.Value, b *ssa.BasicBlock) bool {
	for d := b; d != nil; d = d.Idom() {
		id := d.Idom()
		if id == nil {
			break
		}
		ifi, ok := lastInstr(id).(*ssa.If)
		if !ok || len(id.Succs) != 2 {
			continue
		}
		tEdge, fEdge := id.Succs[0], id.Succs[1]
		viaTrue := tEdge == d && len(d.Preds) == 1
		viaFalse := fEdge == d && len(d.Preds) == 1
		if !viaTrue && !viaFalse {
			continue
		}
		if nn, onTrue := nonNilTest(ifi.Cond, v); nn {
			if (onTrue && viaTrue) || (!onTrue && viaFalse) {
				return true
			}
		}
	}
	return false
}

// nonNilTest: cond establishes v non-nil on its true edge (onTrue) or its false edge.
func nonNilTest(cond ssa.Value, v ssa.Value) (ok bool, onTrue bool) {
	bo, isB := cond.(*ssa.BinOp)
	if !isB {
		return false, false
	}
	var other ssa.Value
	if bo.X == v {
		other = bo.Y
	} else if bo.Y == v {
		other = bo.X
	} else {
		return false, false
	}
	if isNilConst(other) {
		if bo.Op == token.NEQ {
			return true, true
		}
		if bo.Op == token.EQL {
			return true, false
		}
		return false, false
	}
	if u, isU := other.(*ssa.UnOp); isU && u.Op == token.MUL {
		if _, isG := u.X.(*ssa.Global); isG && bo.Op == token.EQL {
			return true, true // equal to a sentinel error variable
		}
	}
	return false, false
}

// popLocations evaluates Exit(l) for every constant of the Location type.
func (w *walkBal) popLocations(exit *ssa.Function, locT types.Type, consts map[int64]string) {
	w.popLocs = map[int64]bool{}
	if len(exit.Params) < 2 {
		return
	}
	l := exit.Params[1]
	for c := range consts {
		pops, nopops := false, false
		var walk func(b *ssa.BasicBlock, seen map[*ssa.BasicBlock]bool, popped bool)
		walk = func(b *ssa.BasicBlock, seen map[*ssa.BasicBlock]bool, popped bool) {
			if seen[b] {
				return
			}
			seen[b] = true
			for _, ins := range b.Instrs {
				if staticCallTo(ins) == w.pop {
					popped = true
				}
			}
			switch t := lastInstr(b).(type) {
			case *ssa.Return:
				if popped {
					pops = true
				} else {
					nopops = true
				}
			case *ssa.If:
				if v, ok := foldLocCond(t.Cond, l, c); ok {
					if v {
						walk(b.Succs[0], seen, popped)
					} else {
						walk(b.Succs[1], seen, popped)
					}
				} else {
					walk(b.Succs[0], seen, popped)
					walk(b.Succs[1], seen, popped)
				}
			default:
				for _, s := range b.Succs {
					walk(s, seen, popped)
				}
			}
		}
		walk(exit.Blocks[0], map[*ssa.BasicBlock]bool{}, false)
		if pops && nopops {
			w.mixedLoc = append(w.mixedLoc, c)
		}
		if pops {
			w.popLocs[c] = true
		}
	}
}

func foldLocCond(cond ssa.Value, l ssa.Value, c int64) (bool, bool) {
	bo, ok := cond.(*ssa.BinOp)
	if !ok {
		return false, false
	}
	var k *ssa.Const
	if bo.X == l {
		k, _ = bo.Y.(*ssa.Const)
	} else if bo.Y == l {
		k, _ = bo.X.(*ssa.Const)
	}
	if k == nil || k.Value == nil || k.Value.Kind() != constant.Int {
		return false, false
	}
	kv, _ := constant.Int64Val(k.Value)
	switch bo.Op {
	case token.EQL:
		return c == kv, true
	case token.NEQ:
		return c != kv, true
	}
	return false, false
}

type balState struct {
	depth  int
	undone string // sorted names of push calls already undone on this path
}

func RunWalkBalance(p *Prog, r *Report) {
	const rule = "WALK-BALANCE"
	schemaPath := modPath + "/frontend/schema"
	rwPath := schemaPath + "/internal/reflectwalk"
	unres := func(what string) {
		r.Fail("UNRESOLVED", "-", "-", "walk-balance:"+what, "-", what+" not found")
	}
	sp, rp := p.SPkg[schemaPath], p.SPkg[rwPath]
	if sp == nil || rp == nil {
		unres("packages schema / reflectwalk")
		return
	}
	// the walker type: argument of reflectwalk.Walk inside schema.Walk
	var walkerT types.Type
	if sw := p.Func(schemaPath + ".Walk"); sw != nil {
		for _, b := range sw.Blocks {
			for _, ins := range b.Instrs {
				c, ok := ins.(*ssa.Call)
				if !ok || c.Call.StaticCallee() == nil || FuncName(c.Call.StaticCallee()) != rwPath+".Walk" || len(c.Call.Args) < 2 {
					continue
				}
				if mi, ok := c.Call.Args[1].(*ssa.MakeInterface); ok {
					walkerT = mi.X.Type()
				}
			}
		}
	}
	if walkerT == nil {
		unres("walker type handed to reflectwalk.Walk by schema.Walk")
		return
	}
	w := &walkBal{p: p, summ: map[*ssa.Function]*pushSummary{}, walkerT: walkerT}
	// push / pop: methods of a slice type of package schema, used as a field of the walker, that append to / reslice *receiver
	for _, fn := range p.Funcs {
		if FuncPkg(fn) == nil || FuncPkg(fn).Path() != schemaPath || fn.Signature.Recv() == nil || fn.Parent() != nil {
			continue
		}
		pt, ok := fn.Signature.Recv().Type().(*types.Pointer)
		if !ok {
			continue
		}
		if _, isSlice := pt.Elem().Underlying().(*types.Slice); !isSlice {
			continue
		}
		grows, shrinks := false, false
		for _, b := range fn.Blocks {
			for _, ins := range b.Instrs {
				st, ok := ins.(*ssa.Store)
				if !ok || len(fn.Params) == 0 || st.Addr != fn.Params[0] {
					continue
				}
				switch v := st.Val.(type) {
				case *ssa.Call:
					if bi, ok := v.Call.Value.(*ssa.Builtin); ok && bi.Name() == "append" {
						grows = true
					}
				case *ssa.Slice:
					if v.High != nil {
						shrinks = true
					}
				}
			}
		}
		if grows && !shrinks {
			w.push = fn
		}
		if shrinks && !grows {
			w.pop = fn
		}
	}
	if w.push == nil || w.pop == nil {
		unres("push / pop methods of the walker's path stack")
		return
	}
	// Location constants
	var locT types.Type
	consts := map[int64]string{}
	for _, name := range rp.Pkg.Scope().Names() {
		if c, ok := rp.Pkg.Scope().Lookup(name).(*types.Const); ok {
			if n, ok := c.Type().(*types.Named); ok && n.Obj().Pkg() == rp.Pkg && c.Val().Kind() == constant.Int {
				if iv, ok := constant.Int64Val(c.Val()); ok {
					locT = c.Type()
					consts[iv] = name
				}
			}
		}
	}
	ms := p.SSA.MethodSets.MethodSet(walkerT)
	var exitFn *ssa.Function
	methods := map[string]*ssa.Function{}
	for i := 0; i < ms.Len(); i++ {
		sel := ms.At(i)
		fn := p.SSA.MethodValue(sel)
		if fn == nil {
			continue
		}
		methods[sel.Obj().Name()] = fn
		sig := fn.Signature
		if sig.Params().Len() == 1 && locT != nil && types.Identical(sig.Params().At(0).Type(), locT) {
			// Enter / Exit: the one that can pop
			for _, b := range fn.Blocks {
				for _, ins := range b.Instrs {
					if staticCallTo(ins) == w.pop {
						exitFn = fn
					}
				}
			}
		}
	}
	if exitFn == nil || locT == nil {
		unres("walker method that pops for a Location")
		return
	}
	w.popLocations(exitFn, locT, consts)
	if len(w.popLocs) == 0 {
		unres("locations for which Exit pops")
		return
	}
	for _, c := range w.mixedLoc {
		r.Fail(rule, schemaPath, FuncName(exitFn), "exit-pop:"+consts[c], p.Pos(FuncPos(exitFn)), fmt.Sprintf("Exit(%s) pops the path stack on some paths only", consts[c]))
	}
	// callback summaries
	pushers := map[string]bool{}
	var pushNames []string
	for name, fn := range methods {
		if fn == exitFn || len(fn.Blocks) == 0 {
			continue
		}
		res := fn.Signature.Results()
		if res.Len() == 0 || !isErrorType(res.At(res.Len()-1).Type()) {
			continue
		}
		s := w.summary(fn, 0)
		if s.onNil == "mixed" || s.onErr == "mixed" || (s.onErr == "always") {
			if s.onNil == "never" && s.onErr == "never" {
				continue
			}
			r.Fail(rule, schemaPath, FuncName(fn), "callback-push", p.Pos(FuncPos(fn)), fmt.Sprintf("walker callback pushes a path frame on nil returns: %s, on error returns: %s; the reflection walk undoes nothing after an error / skip result, so a frame must be pushed exactly when nil is returned", s.onNil, s.onErr))
			continue
		}
		if s.onNil == "always" {
			pushers[name] = true
			pushNames = append(pushNames, name)
		}
	}
	sort.Strings(pushNames)
	var popNames []string
	for c := range w.popLocs {
		popNames = append(popNames, consts[c])
	}
	sort.Strings(popNames)
	if len(pushNames) == 0 {
		unres("walker callbacks that push a path frame")
		return
	}
	r.Pass(rule, schemaPath, FuncName(exitFn), "protocol", p.Pos(FuncPos(exitFn)), fmt.Sprintf("walker %s: callbacks %v push a frame exactly on their nil returns, Exit pops for %v", walkerT.String(), pushNames, popNames), true)

	// the traversal functions of reflectwalk, specialised to the walker
	implements := func(t types.Type) (bool, bool) {
		it, ok := t.Underlying().(*types.Interface)
		if !ok {
			return false, false
		}
		return types.Implements(walkerT, it), true
	}
	nfn := 0
	var fns []*ssa.Function
	for _, fn := range p.Funcs {
		if FuncPkg(fn) != nil && FuncPkg(fn).Path() == rwPath && len(fn.Blocks) > 0 {
			fns = append(fns, fn)
		}
	}
	sort.Slice(fns, func(i, j int) bool { return FuncName(fns[i]) < FuncName(fns[j]) })
	for _, fn := range fns {
		evset := map[ssa.Instruction]bool{}
		isPushCall := func(ins ssa.Instruction) (*ssa.Call, bool) {
			c, ok := ins.(*ssa.Call)
			if !ok || !c.Call.IsInvoke() {
				return nil, false
			}
			if !pushers[c.Call.Method.Name()] {
				return nil, false
			}
			if impl, isI := implements(c.Call.Value.Type()); !isI || !impl {
				return nil, false
			}
			return c, true
		}
		isPopCall := func(ins ssa.Instruction) bool {
			c, ok := ins.(*ssa.Call)
			if !ok || !c.Call.IsInvoke() || c.Call.Method.Name() != exitFn.Name() || len(c.Call.Args) != 1 {
				return false
			}
			k, ok := c.Call.Args[0].(*ssa.Const)
			if !ok || k.Value == nil {
				return false
			}
			kv, _ := constant.Int64Val(k.Value)
			return w.popLocs[kv]
		}
		foldAssert := func(cond ssa.Value) (bool, bool) {
			neg := false
			for {
				if u, ok := cond.(*ssa.UnOp); ok && u.Op == token.NOT {
					cond = u.X
					neg = !neg
					continue
				}
				break
			}
			ex, ok := cond.(*ssa.Extract)
			if !ok || ex.Index != 1 {
				return false, false
			}
			ta, ok := ex.Tuple.(*ssa.TypeAssert)
			if !ok || !ta.CommaOk {
				return false, false
			}
			impl, isI := implements(ta.AssertedType)
			if !isI {
				return false, false
			}
			return impl != neg, true
		}
		states := map[*ssa.BasicBlock]map[balState]bool{}
		type item struct {
			b *ssa.BasicBlock
			s balState
		}
		work := []item{{fn.Blocks[0], balState{}}}
		failed := map[string]bool{}
		fail := func(key, pos, detail string) {
			if failed[key] {
				return
			}
			failed[key] = true
			r.Fail(rule, rwPath, FuncName(fn), key, pos, detail)
		}
		steps := 0
		for len(work) > 0 && steps < 20000 {
			steps++
			it := work[len(work)-1]
			work = work[:len(work)-1]
			if states[it.b] == nil {
				states[it.b] = map[balState]bool{}
			}
			if states[it.b][it.s] {
				continue
			}
			states[it.b][it.s] = true
			if len(states[it.b]) > 6 {
				continue
			}
			st := it.s
			undone := map[string]bool{}
			for _, u := range strings.Split(st.undone, ",") {
				if u != "" {
					undone[u] = true
				}
			}
			for _, ins := range it.b.Instrs {
				if c, ok := isPushCall(ins); ok {
					st.depth++
					evset[ins] = true
					delete(undone, c.Name())
				} else if isPopCall(ins) {
					st.depth--
					evset[ins] = true
				}
			}
			enc := func(m map[string]bool) string {
				var ks []string
				for k := range m {
					ks = append(ks, k)
				}
				sort.Strings(ks)
				return strings.Join(ks, ",")
			}
			switch t := lastInstr(it.b).(type) {
			case *ssa.Return:
				exempt := false
				if len(t.Results) > 0 {
					rv := t.Results[len(t.Results)-1]
					if knownNonNilAt(rv, it.b) {
						exempt = true
					} else if _, isCall := rv.(*ssa.Call); !isCall && isErrorConstruction(rv) {
						exempt = true
					}
				}
				if !exempt && st.depth != 0 {
					fail(fmt.Sprintf("return#%d", returnOrdinal(fn, it.b)), p.Pos(t.Pos()), fmt.Sprintf("a return that may report success is reached with the walker's path stack %+d frames off (pushes by %v, pops by Exit(%v)); names and inherited visibility of the leaves visited afterwards are wrong", st.depth, pushNames, popNames))
				}
			case *ssa.If:
				tv, decided := foldAssert(t.Cond)
				for si, succ := range it.b.Succs {
					if decided && ((si == 0) != tv) {
						continue
					}
					ns := balState{depth: st.depth}
					um := map[string]bool{}
					for k := range undone {
						um[k] = true
					}
					// undo the push of a callback whose error result is known non-nil on this edge
					if bo, ok := t.Cond.(*ssa.BinOp); ok {
						for _, opnd := range []ssa.Value{bo.X, bo.Y} {
							c, ok := opnd.(*ssa.Call)
							if !ok {
								continue
							}
							if _, isP := isPushCall(c); !isP {
								continue
							}
							if nn, onTrue := nonNilTest(t.Cond, c); nn && ((si == 0) == onTrue) && !um[c.Name()] {
								um[c.Name()] = true
								ns.depth--
							}
						}
					}
					ns.undone = enc(um)
					work = append(work, item{succ, ns})
				}
			default:
				for _, succ := range it.b.Succs {
					work = append(work, item{succ, balState{depth: st.depth, undone: enc(undone)}})
				}
			}
		}
		// a block reached with two different depths: some path through a loop iteration / branch is unbalanced
		var bad []*ssa.BasicBlock
		for b, ss := range states {
			ds := map[int]bool{}
			for s := range ss {
				ds[s.depth] = true
			}
			if len(ds) > 1 {
				bad = append(bad, b)
			}
		}
		sort.Slice(bad, func(i, j int) bool { return bad[i].Index < bad[j].Index })
		if len(bad) > 0 {
			b := bad[0]
			var ds []int
			seen := map[int]bool{}
			for s := range states[b] {
				if !seen[s.depth] {
					seen[s.depth] = true
					ds = append(ds, s.depth)
				}
			}
			sort.Ints(ds)
			pos := "-"
			for _, ins := range b.Instrs {
				if ins.Pos() != token.NoPos {
					pos = p.Pos(ins.Pos())
					break
				}
			}
			fail("unbalanced-path", pos, fmt.Sprintf("block %s of the traversal is reached with path-stack depths %v relative to the entry: some path through an iteration pushes a frame (callbacks %v) without the matching Exit(%v), or pops without a push", b.Comment, ds, pushNames, popNames))
		}
		events := len(evset)
		if events == 0 {
			continue
		}
		nfn++
		if len(failed) == 0 {
			r.Pass(rule, rwPath, FuncName(fn), "balanced", p.Pos(FuncPos(fn)), fmt.Sprintf("%d push/pop events; every path through every iteration and to every non-error return is balanced (type assertions folded for %s)", events, walkerT.String()), true)
		}
	}
	if nfn < 3 {
		unres(fmt.Sprintf("traversal functions with push/pop events (%d found, confirmed 3)", nfn))
	}
}

func returnOrdinal(fn *ssa.Function, b *ssa.BasicBlock) int {
	n := 0
	for _, x := range fn.Blocks {
		if _, ok := lastInstr(x).(*ssa.Return); ok {
			n++
			if x == b {
				return n
			}
		}
	}
	return 0
}
