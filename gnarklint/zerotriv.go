package main

import (
	"fmt"
	"os"
	"go/token"
	"go/types"
	"sort"
	"strings"

	"golang.org/x/tools/go/ssa"
)

// ZERO-TRIVIAL (C16, C17): a gadget that checks a relation among hint outputs must not be satisfied by the witness in
// which EVERY hint output is zero, whatever its inputs are. That happens when the asserted relation is multiplicatively
// homogeneous in the hint outputs (a·w == c^λ with w, c from a hint and nothing forcing c, w ≠ 0): then the gadget
// asserts nothing about its input.
// The rule is an abstract interpretation over SSA with the domain "provably zero when all hint outputs are zero, for
// every input" (Z). emulated.Field / frontend.API arithmetic is interpreted by name (Mul, MulConst, Square: Z if a
// factor is Z; Add, Sub, Neg, Select, Reduce: Z if all operands are; Eval: Z if every product term has a Z factor;
// DivUnchecked(x,y): Z if x is; Zero(): Z; everything else unknown); module functions (tower-field and curve
// arithmetic written in functional style) are analysed recursively with the abstract arguments; aggregates are
// field-insensitive (zero iff everything stored is zero). A function of the area that calls a hint is reported when
//   - at least one equality assertion has both operands Z (it holds trivially under the zero witness), and
//   - no assertion with a hint-dependent operand is non-trivial (0 == <not provably 0>, a checked Inverse / Div of a
//     zero value, AssertIsDifferent(0,0)), and
//   - the hint outputs do not leave the function (returned values may be constrained by the caller).
// Every approximation errs towards "not Z" / "non-trivial", i.e. towards silence.

type zv struct {
	all bool // the value (every element / field of an aggregate) is zero under the zero witness
	any bool // at least one element is (for product terms handed to Eval)
	ea  bool // aggregate of aggregates: every element has a zero element
	dep bool // depends on hint outputs
}

var zN = zv{}
var zZ = zv{all: true, any: true, ea: true, dep: true}

type zstats struct {
	trivialEq  int
	nontrivial bool
	firstTriv  token.Pos
}

type zeroEngine struct {
	p         *Prog
	memo      map[string]*zsummary
	depth     int
	tupleRets map[*ssa.Call][]zv
}

type zsummary struct {
	rets  []zv
	stats zstats
	busy  bool
}

func isHintCall(c *ssa.Call) bool {
	cc := &c.Call
	if cc.IsInvoke() {
		return strings.HasPrefix(cc.Method.Name(), "NewHint")
	}
	if cal := cc.StaticCallee(); cal != nil {
		return strings.HasPrefix(funcBaseName(cal), "NewHint")
	}
	return false
}

// primitive receivers: emulated.Field methods and frontend.API-like interfaces
func primitiveName(c *ssa.Call) (string, []ssa.Value, bool) {
	cc := &c.Call
	if cc.IsInvoke() {
		if frontendIface(cc.Value.Type()) || isAnonIface(cc.Value.Type()) {
			return cc.Method.Name(), cc.Args, true
		}
		return "", nil, false
	}
	cal := cc.StaticCallee()
	if cal == nil || cal.Signature.Recv() == nil || FuncPkg(cal) == nil {
		return "", nil, false
	}
	if FuncPkg(cal).Path() == modPath+"/std/math/emulated" && namedName(cal.Signature.Recv().Type()) == "Field" {
		return funcBaseName(cal), cc.Args[1:], true
	}
	return "", nil, false
}

type zfun struct {
	e    *zeroEngine
	fn   *ssa.Function
	val  map[ssa.Value]zv
	args []zv
	st   zstats
	top  bool
}

func meet(a, b zv) zv {
	return zv{all: a.all && b.all, any: a.any && b.any, ea: a.ea && b.ea, dep: a.dep || b.dep}
}

func (z *zfun) objRoot(a ssa.Value) ssa.Value {
	for d := 0; d < 12; d++ {
		switch x := a.(type) {
		case *ssa.FieldAddr:
			a = x.X
		case *ssa.IndexAddr:
			a = x.X
		case *ssa.Slice:
			a = x.X
		case *ssa.ChangeType:
			a = x.X
		default:
			return a
		}
	}
	return a
}

func (z *zfun) get(v ssa.Value) zv {
	switch x := v.(type) {
	case *ssa.Const:
		if x.Value != nil && x.Value.Kind().String() == "Int" && x.Value.ExactString() == "0" {
			return zv{all: true, any: true, ea: true}
		}
		return zN
	case *ssa.Parameter:
		for i, q := range z.fn.Params {
			if q == x && i < len(z.args) {
				return z.args[i]
			}
		}
		return zN
	case *ssa.FreeVar, *ssa.Global, *ssa.Function, *ssa.Builtin:
		return zN
	}
	if r, ok := z.val[v]; ok {
		return r
	}
	return zN
}

// aggregate state of an allocation: meet over everything stored into it
func (z *zfun) allocState(al ssa.Value) (zv, bool) {
	res := zv{all: true, any: false, ea: true}
	n := 0
	var visit func(addr ssa.Value, depth int) bool
	escaped := false
	visit = func(addr ssa.Value, depth int) bool {
		refs := addr.Referrers()
		if refs == nil || depth > 6 {
			return true
		}
		for _, r := range *refs {
			switch x := r.(type) {
			case *ssa.Store:
				if x.Addr == addr {
					n++
					sv := z.get(x.Val)
					res.all = res.all && sv.all
					res.any = res.any || sv.all || sv.any && isAggregate(x.Val.Type())
					res.ea = res.ea && sv.any
					res.dep = res.dep || sv.dep
				}
			case *ssa.FieldAddr:
				visit(x, depth+1)
			case *ssa.IndexAddr:
				visit(x, depth+1)
			case *ssa.Slice:
				visit(x, depth+1)
			case *ssa.Call:
				// handed to a callee that may write through it: unknown unless the callee is a pure primitive
				if _, _, prim := primitiveName(x); !prim && !isBuiltinCall(x, "len") && !isBuiltinCall(x, "cap") {
					if cal := x.Call.StaticCallee(); cal == nil || cal.Blocks == nil || !strings.HasPrefix(FuncPkg(cal).Path(), modPath+"/") {
						escaped = true
					}
				}
			}
		}
		return true
	}
	visit(al, 0)
	if n == 0 || escaped {
		return zN, false
	}
	return res, true
}

func isAggregate(t types.Type) bool {
	switch u := t.Underlying().(type) {
	case *types.Slice, *types.Array:
		return true
	case *types.Pointer:
		_, isArr := u.Elem().Underlying().(*types.Array)
		return isArr
	}
	return false
}

func (z *zfun) dataArgs(args []ssa.Value) []zv {
	var out []zv
	for _, a := range args {
		if _, isIface := a.Type().Underlying().(*types.Interface); isIface && !isVariableLike(a.Type()) {
			continue
		}
		if b, ok := a.Type().Underlying().(*types.Basic); ok && b.Info()&(types.IsInteger|types.IsBoolean|types.IsString) != 0 {
			continue
		}
		out = append(out, z.get(a))
	}
	return out
}

func (z *zfun) assertEq(a, b zv, pos token.Pos) {
	if !a.dep && !b.dep {
		return
	}
	if a.all && b.all {
		z.st.trivialEq++
		if z.st.firstTriv == token.NoPos {
			z.st.firstTriv = pos
		}
		return
	}
	z.st.nontrivial = true
	if os.Getenv("GNARKLINT_DEBUG") != "" {
		fmt.Printf("  nontrivial eq in %s at %s: %+v vs %+v\n", funcBaseName(z.fn), z.e.p.Pos(pos), a, b)
	}
}

func (z *zfun) evalCall(c *ssa.Call) zv {
	if isHintCall(c) {
		return zZ
	}
	if isBuiltinCall(c, "append") {
		r := z.get(c.Call.Args[0])
		for _, a := range c.Call.Args[1:] {
			r = meet(r, z.get(a))
		}
		return r
	}
	if name, args, ok := primitiveName(c); ok {
		da := z.dataArgs(args)
		dep := false
		for _, a := range da {
			dep = dep || a.dep
		}
		anyZ, allZ := false, len(da) > 0
		for _, a := range da {
			anyZ = anyZ || a.all
			allZ = allZ && a.all
		}
		mk := func(zero bool) zv {
			if zero {
				return zv{all: true, any: true, ea: true, dep: dep}
			}
			return zv{dep: dep}
		}
		switch name {
		case "Mul", "MulMod", "MulNoReduce", "MulConst", "Square", "MulAcc":
			if name == "MulAcc" && len(da) == 3 { // a + b*c
				return mk(da[0].all && (da[1].all || da[2].all))
			}
			return mk(anyZ)
		case "Add", "Sub", "Neg", "Reduce", "ReduceStrict", "Sum":
			return mk(allZ)
		case "Select":
			if len(da) == 3 {
				return mk(da[1].all && da[2].all)
			}
			return mk(false)
		case "Zero":
			return zv{all: true, any: true, ea: true}
		case "Eval":
			if len(args) >= 1 {
				at := z.get(args[0])
				return zv{all: at.ea, any: at.ea, ea: at.ea, dep: at.dep}
			}
		case "DivUnchecked":
			if len(da) == 2 {
				return mk(da[0].all)
			}
		case "Div", "Inverse":
			for _, a := range da {
				if a.dep {
					z.st.nontrivial = true // a checked inversion fails on zero
				}
			}
			return mk(false)
		case "AssertIsEqual":
			if len(da) == 2 {
				z.assertEq(da[0], da[1], c.Pos())
			}
			return zN
		case "AssertIsDifferent", "AssertIsLessOrEqual", "AssertIsInRange", "AssertIsCrumb":
			if dep {
				z.st.nontrivial = true
			}
			return zN
		case "AssertIsBoolean", "Check", "enforceWidthConditional":
			for _, a := range da {
				if a.dep && !a.all {
					z.st.nontrivial = true
				}
			}
			return zN
		}
		return mk(false)
	}
	cal := calleeOf(c)
	if cal == nil || cal.Blocks == nil || FuncPkg(cal) == nil || !strings.HasPrefix(FuncPkg(cal).Path(), modPath+"/") {
		dep := false
		for _, a := range c.Call.Args {
			dep = dep || z.get(a).dep
		}
		// an unknown callee that receives hint-dependent data may constrain it
		if dep {
			z.st.nontrivial = true
			if os.Getenv("GNARKLINT_DEBUG") != "" {
				fmt.Printf("  unknown callee with dep args in %s at %s: %s\n", funcBaseName(z.fn), z.e.p.Pos(c.Pos()), CalleeName(&c.Call))
			}
		}
		return zv{dep: dep}
	}
	var args []zv
	for _, a := range c.Call.Args {
		args = append(args, z.get(a))
	}
	sum := z.e.analyse(cal, args)
	if sum == nil {
		dep := false
		for _, a := range args {
			dep = dep || a.dep
		}
		if dep {
			z.st.nontrivial = true
			if os.Getenv("GNARKLINT_DEBUG") != "" {
				fmt.Printf("  unanalysable callee in %s at %s: %s\n", funcBaseName(z.fn), z.e.p.Pos(c.Pos()), CalleeName(&c.Call))
			}
		}
		return zv{dep: dep}
	}
	z.st.trivialEq += sum.stats.trivialEq
	if z.st.firstTriv == token.NoPos {
		z.st.firstTriv = sum.stats.firstTriv
	}
	z.st.nontrivial = z.st.nontrivial || sum.stats.nontrivial
	if len(sum.rets) == 1 {
		return sum.rets[0]
	}
	// tuple results are fetched by Extract through tupleRets
	z.e.tupleRets[c] = sum.rets
	dep := false
	for _, r := range sum.rets {
		dep = dep || r.dep
	}
	return zv{dep: dep}
}

func (e *zeroEngine) analyse(fn *ssa.Function, args []zv) *zsummary {
	key := fmt.Sprintf("%p", fn)
	for _, a := range args {
		key += fmt.Sprintf("|%v%v%v%v", a.all, a.any, a.ea, a.dep)
	}
	if s, ok := e.memo[key]; ok {
		if s.busy {
			return nil
		}
		return s
	}
	if e.depth > 12 {
		return nil
	}
	s := &zsummary{busy: true}
	e.memo[key] = s
	e.depth++
	defer func() { e.depth-- }()
	z := &zfun{e: e, fn: fn, val: map[ssa.Value]zv{}, args: args}
	z.run()
	if os.Getenv("GNARKLINT_DEBUG") == funcBaseName(fn) {
		for _, b := range fn.Blocks {
			for _, ins := range b.Instrs {
				if c, ok := ins.(*ssa.Call); ok {
					var as []string
					for _, a := range c.Call.Args {
						as = append(as, fmt.Sprintf("%v", z.get(a).all))
					}
					fmt.Printf("  [%s] %s: %s(%s) -> %+v\n", funcBaseName(fn), e.p.Pos(c.Pos()), CalleeName(&c.Call), strings.Join(as, ","), z.get(c))
				}
			}
		}
	}
	s.busy = false
	s.stats = z.st
	for _, b := range fn.Blocks {
		if ret, ok := lastInstr(b).(*ssa.Return); ok {
			for i, rv := range ret.Results {
				v := z.get(rv)
				if i >= len(s.rets) {
					s.rets = append(s.rets, v)
				} else {
					s.rets[i] = meet(s.rets[i], v)
				}
			}
		}
	}
	return s
}

func (z *zfun) run() {
	// optimistic start (everything zero), then descend to the greatest fixpoint; dep ascends
	for _, b := range z.fn.Blocks {
		for _, ins := range b.Instrs {
			if v, ok := ins.(ssa.Value); ok {
				z.val[v] = zv{all: true, any: true, ea: true}
			}
		}
	}
	for iter := 0; iter < 40; iter++ {
		changed := false
		saved := z.st
		z.st = zstats{}
		set := func(v ssa.Value, n zv) {
			if old, ok := z.val[v]; !ok || old != n {
				z.val[v] = n
				changed = true
			}
		}
		for _, b := range z.fn.Blocks {
			for _, ins := range b.Instrs {
				switch x := ins.(type) {
				case *ssa.Alloc:
					st, ok := z.allocState(x)
					if !ok {
						st = zN
					}
					set(x, st)
				case *ssa.MakeSlice:
					st, ok := z.allocState(x)
					if !ok {
						st = zN
					}
					set(x, st)
				case *ssa.Phi:
					r := zv{all: true, any: true, ea: true}
					for _, e := range x.Edges {
						if e == x {
							continue
						}
						r = meet(r, z.get(e))
					}
					set(x, r)
				case *ssa.UnOp:
					if x.Op == token.MUL {
						root := z.objRoot(x.X)
						rv := z.get(root)
						// an element / field read out of an aggregate is zero iff everything in it is
						set(x, zv{all: rv.all, any: rv.all || rv.any && isAggregate(x.Type()), ea: rv.ea && isAggregate(x.Type()) || rv.all, dep: rv.dep})
					} else {
						set(x, zv{dep: z.get(x.X).dep})
					}
				case *ssa.FieldAddr, *ssa.IndexAddr, *ssa.Slice, *ssa.ChangeType, *ssa.Convert, *ssa.MakeInterface, *ssa.Field, *ssa.Index:
					var op ssa.Value
					switch y := x.(type) {
					case *ssa.FieldAddr:
						op = y.X
					case *ssa.IndexAddr:
						op = y.X
					case *ssa.Slice:
						op = y.X
					case *ssa.ChangeType:
						op = y.X
					case *ssa.Convert:
						op = y.X
					case *ssa.MakeInterface:
						op = y.X
					case *ssa.Field:
						op = y.X
					case *ssa.Index:
						op = y.X
					}
					set(x.(ssa.Value), z.get(op))
				case *ssa.Extract:
					if c, ok := x.Tuple.(*ssa.Call); ok {
						if isHintCall(c) {
							if x.Index == 0 {
								set(x, zZ)
							} else {
								set(x, zN)
							}
							continue
						}
						if rs, ok := z.e.tupleRets[c]; ok && x.Index < len(rs) {
							set(x, rs[x.Index])
							continue
						}
					}
					set(x, zv{dep: z.get(x.Tuple).dep})
				case *ssa.Call:
					set(x, z.evalCall(x))
				case *ssa.BinOp:
					set(x, zv{dep: z.get(x.X).dep || z.get(x.Y).dep})
				}
			}
		}
		if !changed {
			return
		}
		_ = saved
	}
	// no fixpoint within the bound: nothing may be claimed zero
	for v := range z.val {
		z.val[v] = zv{dep: true}
	}
	z.st = zstats{nontrivial: true}
}

func RunZeroTrivial(p *Prog, r *Report, scope func(string) bool) {
	e := &zeroEngine{p: p, memo: map[string]*zsummary{}, tupleRets: map[*ssa.Call][]zv{}}
	var fns []*ssa.Function
	for _, fn := range p.Funcs {
		pk := FuncPkg(fn)
		if pk == nil || fn.Blocks == nil || fn.Parent() != nil || fn.Synthetic != "" || !scope(pk.Path()) {
			continue
		}
		if fn.TypeParams().Len() > 0 && len(fn.TypeArgs()) == 0 {
			continue
		}
		direct := false
		for _, b := range fn.Blocks {
			for _, ins := range b.Instrs {
				if c, ok := ins.(*ssa.Call); ok && isHintCall(c) {
					direct = true
				}
			}
		}
		if direct {
			fns = append(fns, fn)
		}
	}
	sort.Slice(fns, func(i, j int) bool { return FuncName(fns[i]) < FuncName(fns[j]) })
	seen := map[string]bool{}
	n := 0
	for _, fn := range fns {
		k := Abstract(FuncName(fn))
		if seen[k] {
			continue
		}
		seen[k] = true
		args := make([]zv, len(fn.Params))
		sum := e.analyse(fn, args)
		if sum == nil {
			continue
		}
		escapes := false
		for _, rv := range sum.rets {
			if rv.dep {
				escapes = true // hint-dependent values are returned: the caller may constrain them
			}
		}
		if escapes {
			continue
		}
		n++
		pkg := FuncPkg(fn).Path()
		switch {
		case sum.stats.trivialEq > 0 && !sum.stats.nontrivial:
			r.Fail("ZERO-TRIVIAL", pkg, FuncName(fn), "zero-witness", p.Pos(FuncPos(fn)), fmt.Sprintf("with every hint output set to zero all %d equality assertion(s) on hint-dependent values read 0 == 0 (first at %s) and nothing forces a hint output to be non-zero: the relation is homogeneous in the hint outputs and holds for ANY input — the function asserts nothing", sum.stats.trivialEq, p.Pos(sum.stats.firstTriv)))
		case sum.stats.nontrivial:
			r.Pass("ZERO-TRIVIAL", pkg, FuncName(fn), "zero-witness", p.Pos(FuncPos(fn)), "the all-zero hint witness does not satisfy the function's assertions for arbitrary inputs (a comparison with a value that is not provably zero, a checked inversion, or an unknown callee receives hint-dependent data)", true)
		default:
			r.Pass("ZERO-TRIVIAL", pkg, FuncName(fn), "zero-witness", p.Pos(FuncPos(fn)), "no equality assertion on hint-dependent values is trivially true under the all-zero hint witness", false)
		}
	}
	r.Extra["zero_trivial_functions"] = n
}

func init() {
	devHooks["zerotriv"] = func(p *Prog, fnPat, untr string) int {
		r := NewReport("DEV", "quick", 0)
		RunZeroTrivial(p, r, func(pk string) bool { return strings.Contains(pk, "/std/") })
		for _, o := range r.Obls {
			if !o.OK || fnPat == "all" {
				fmt.Printf("%v %s | %s | %s\n", o.OK, o.Pos, strings.TrimPrefix(o.Func, modPath+"/"), o.Detail)
			}
		}
		fmt.Println("functions analysed:", r.Extra["zero_trivial_functions"])
		return 0
	}
}
