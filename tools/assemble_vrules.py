#!/usr/bin/env python3
"""Assemble rules/verifier_events.json from the stanzas emitted by `gnarklint -dev vemit` on the pinned tree
(rules/emit/*.txt), after the pruning decided by hand review:
  - events on option plumbing (callee 'dynamic', NewVerifierConfig) are not verification checks -> dropped
  - dependency on $3 (the options slice) is dropped from every event
  - 'why' texts added by hand below.
The output file is the frozen Tier-II reference; this script is only run when the reference is re-reviewed."""
import json, os, re
here = os.path.dirname(os.path.abspath(__file__))
R = os.path.join(here, '..', 'rules')

def load(name):
    t = open(os.path.join(R, 'emit', name)).read()
    return json.loads(t[t.index('{'):])

def prune(st, drop_param=None):
    out = []
    for r in st['required']:
        if r['callee'] in ('dynamic',) or r['callee'].endswith('backend.NewVerifierConfig'):
            continue
        deps = [d for d in r.get('deps', []) if drop_param is None or not (d == drop_param or d.startswith(drop_param + '.') or d.startswith(drop_param+'['))]
        r2 = {'callee': r['callee'], 'status': r['status']}
        if deps: r2['deps'] = deps
        if r.get('consts'): r2['consts'] = r['consts']
        out.append(r2)
    return out

WHY = {
 'IsInSubGroup': 'subgroup membership of a proof point',
 'MultiExp': 'public-input / linearised-digest multi-exponentiation feeding the final check',
 'MillerLoop': 'pairing product of the verification equation',
 'fptower.(*GT).Equal': 'final pairing equality e(..) == e(alpha,beta)',
 'BatchVerifyMultiVk': 'Pedersen proof of knowledge of the commitments; also fixes len(proof.Commitments)==len(vk.CommitmentKeys)',
 'fr.Hash': 'folding challenge for the batched proof of knowledge',
 'lenguard': 'length of an untrusted list fixed against the key',
 'fr.(*Element).Equal': 'algebraic relation: opening of the linearised polynomial equals minus the constant term',
 'kzg.FoldProof': 'KZG fold of the batched opening (checks len(ClaimedValues)==len(digests))',
 'kzg.BatchVerifyMultiPoints': 'KZG batch opening verification at zeta and omega*zeta',
 'Transcript).Bind': 'Fiat-Shamir binding of a key digest / public input / prover message',
 'Transcript).ComputeChallenge': 'Fiat-Shamir challenge derivation',
 'UpdateProof).Verify': 'update proof of knowledge tied to the previous contribution hash and the parameter pair',
 'SameRatioMany': 'same-ratio batch check over all power vectors',
}
def why(r):
    for k, v in WHY.items():
        if k in r['callee']:
            r['why'] = v
    return r

targets = []
g = load('groth16_verify.txt')
targets.append({'id': 'groth16.Verify', 'func': g['func'], 'untrusted': [0, 2], 'instances': 7, 'properties': ['C01', 'C08'],
                'guard': True, 'cover': True, 'required': [why(r) for r in prune(g, '$3')]})
p = load('plonk_verify.txt')
targets.append({'id': 'plonk.Verify', 'func': p['func'], 'untrusted': [0, 2], 'instances': 7, 'properties': ['C02', 'C08'],
                'guard': True, 'cover': True, 'required': [why(r) for r in prune(p, '$3')]})
p1 = load('phase1_verify.txt')
targets.append({'id': 'mpcsetup.Phase1.Verify', 'func': p1['func'], 'untrusted': [1], 'instances': 7, 'properties': ['C18'],
                'guard': False, 'cover': True, 'cover_skip': ['$1.Challenge'], 'required': [why(r) for r in prune(p1)]})
p2 = load('phase2_verify.txt')
targets.append({'id': 'mpcsetup.Phase2.Verify', 'func': p2['func'], 'untrusted': [1], 'instances': 7, 'properties': ['C18'],
                'guard': False, 'cover': True, 'cover_skip': ['$1.Challenge'], 'required': [why(r) for r in prune(p2)]})

rules = {
 'comment': 'Tier-II reference of required check events per verifier (DESIGN.md 3.1). Extracted with `gnarklint -dev vemit` on the pinned tree, pruned and reviewed by hand; read-only at run time. $i = i-th parameter (receiver first).',
 'targets': targets,
 'len_fixers': [
  {'callee': 'github.com/consensys/gnark-crypto/ecc/<curve>/fr/pedersen.BatchVerifyMultiVk', 'arg': 1, 'why': 'returns an error unless len(commitments)==len(vk) (pedersen.go: "commitments length mismatch")'},
  {'callee': 'github.com/consensys/gnark-crypto/ecc/<curve>/kzg.FoldProof', 'arg': 1, 'field': '.ClaimedValues', 'why': 'returns ErrInvalidNbDigests unless len(digests)==len(batchOpeningProof.ClaimedValues)'},
 ],
 'err_exempt': {
  'invoke:hash.Hash.Write': 'hash.Hash.Write never returns an error (package hash documentation)',
  'invoke:io.Writer.Write': 'only hash.Hash values are written in the verifiers',
 },
}
json.dump(rules, open(os.path.join(R, 'verifier_events.json'), 'w'), indent=1)
print('targets', len(targets), 'events', sum(len(t['required']) for t in targets))
