#!/bin/bash
# usage: confirm_seed.sh <PROP> <variant>   e.g. C18 a
# Confirms a sub-agent's seeded change in a scratch worktree of /repo HEAD: demo passes without the change,
# fails with it, and the touched packages' existing tests still pass with it. Stores it under /verif/seeded/<PROP><v>/.
export GOFLAGS=-mod=mod GOPROXY=off GOSUMDB=off GOTOOLCHAIN=local GOWORK=off
P=$1; V=$2; ID=$P$V
SRC=/tmp/seedwork/$P/out
WT=/tmp/confirm/$ID
DST=/verif/seeded/$ID
mkdir -p /tmp/confirm $DST
meta=$SRC/$ID.meta.json
demo_path=$(python3 -c "import json;print(json.load(open('$meta'))['demo_path'])")
demo_cmd=$(python3 -c "import json;print(json.load(open('$meta'))['demo_cmd'])")
demo_src=$(ls $SRC/${ID}_demo_test.go 2>/dev/null || ls -d $SRC/${ID}_demo* | head -1)
git -C /repo worktree remove --force $WT 2>/dev/null
git -C /repo worktree add --detach $WT HEAD >/dev/null 2>&1 || { echo "worktree failed"; exit 2; }
cd $WT
log=$DST/confirm.log; : > $log
mkdir -p $(dirname $WT/$demo_path); cp $demo_src $WT/$demo_path
echo "== demo on unchanged tree ($(git rev-parse --short HEAD)): $demo_cmd" >> $log
( timeout 1500 bash -c "$demo_cmd" ) >> $log 2>&1; r0=$?
echo "exit=$r0" >> $log
if ! git apply --3way $SRC/$ID.patch.diff >> $log 2>&1; then echo "PATCH DOES NOT APPLY" >> $log; r1=99; else
git reset -q
echo "== demo with change" >> $log
( timeout 1500 bash -c "$demo_cmd" ) >> $log 2>&1; r1=$?
echo "exit=$r1" >> $log
fi
rm -f $WT/$demo_path
pkgs=$(git diff --name-only | grep '\.go$' | xargs -n1 dirname | sort -u | sed 's#^#./#' | tr '\n' ' ')
echo "== existing tests of touched packages with change: $pkgs" >> $log
go build ./... >> $log 2>&1; rb=$?
timeout 5000 go test -count=1 -vet=off -timeout 80m $pkgs > $DST/tests.log 2>&1
tail -40 $DST/tests.log >> $log
if grep -q "^FAIL\|^--- FAIL\|^panic:" $DST/tests.log; then rt=1; else rt=0; fi
echo "build=$rb tests_fail=$rt" >> $log
git diff > $DST/patch.diff
cp $demo_src $DST/
cp $meta $DST/agent_meta.json
python3 - <<PY
import json
m=json.load(open('$meta'))
out={"property":"$P","id":"$ID","summary":m.get("summary"),"needs":m.get("needs"),"demo_path":"$demo_path","demo_cmd":"""$demo_cmd""",
 "confirmed":{"base_commit":"$(git -C /repo rev-parse --short HEAD)","demo_unchanged_exit":$r0,"demo_changed_exit":$r1,"build_exit":$rb,"touched_pkg_tests_fail":$rt,"touched_pkgs":"$pkgs".split()},
 "ok": ($r0==0 and $r1 not in (0,99) and $rb==0 and $rt==0)}
json.dump(out,open('$DST/meta.json','w'),indent=1)
print("$ID", "OK" if out["ok"] else "NOT-CONFIRMED", out["confirmed"])
PY
cd /; git -C /repo worktree remove --force $WT
