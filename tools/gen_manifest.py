#!/usr/bin/env python3
"""Generate MANIFEST.json from the table below (kept in one place so that the manifest stays valid)."""
import json, os
here = os.path.dirname(os.path.abspath(__file__))
ENV = "export GOFLAGS=-mod=mod GOPROXY=off GOSUMDB=off GOTOOLCHAIN=local GOWORK=off; "
checks = {
 "C01": ("verifier", "must-pass-through (dominator/CFG) + backward dependency slice + length-guard dominance over SSA of the 7 Groth16 Verify functions", "3.1, 4/C01"),
 "C02": ("verifier", "must-pass-through + dependency slice + length-guard dominance over SSA of the 7 PLONK Verify functions", "3.1, 4/C02"),
 "C08": ("verifier", "length-guard dominance (V-GUARD) and error discipline over SSA of both verifiers x 7 curves", "3.1, 4/C08"),
 "C18": ("verifier", "must-pass-through + argument-provenance slice over SSA of Phase1/Phase2.Verify x 7 curves", "3.1, 4/C18"),
}
texts = {
 "C01": "Decides structural necessary conditions of Groth16 verifier soundness on every path of the current source: each reviewed check is on every accepting path with the reviewed argument provenance, every proof field is consumed by a check, every proof-supplied list is length-fixed against the key, no error is dropped. It does not decide the algebra (that the checked equation is the right one).",
 "C02": "Same for the PLONK verifier: subgroup checks of every proof point, Fiat-Shamir bindings, algebraic relation, linearised digest MSM, KZG fold and batch verification are must-pass with reviewed provenance; proof fields covered; lists length-fixed.",
 "C08": "Decides that every index/slice of a proof- or witness-supplied slice in the verifiers is dominated by an error-returning length check, and that wrong list lengths are rejected on all accepting paths. Does not decide panics inside gnark-crypto.",
 "C18": "Decides that every accepting exit of the contribution verifiers passes every update-proof check, size guard and the same-ratio check, each tied to the previous contribution's hash and to the reviewed parameter pairs, and that every parameter vector of the contribution is consumed by a check. Does not decide the cryptography of the update proofs.",
}
na = {
 "C03": "not yet implemented in this round (conc engine pending)",
 "C04": "not yet implemented in this round (coeffid/codec engines pending)",
 "C05": "not yet implemented in this round (flow engine pending)",
 "C06": "not yet implemented in this round",
 "C07": "not yet implemented in this round",
 "C09": "not yet implemented in this round",
 "C10": "not yet implemented in this round",
 "C11": "not yet implemented in this round",
 "C12": "not yet implemented in this round",
 "C13": "not yet implemented in this round",
 "C14": "not yet implemented in this round",
 "C15": "equality of two hash functions over all message lengths and contents is a value-level property selected by runtime lengths; no dataflow/typestate/effect/table-agreement rule is a genuine necessary condition beyond what every test vector already exercises (DESIGN.md 4/C15)",
 "C16": "not yet implemented in this round",
 "C17": "not yet implemented in this round",
 "C19": "not yet implemented in this round",
 "C20": "not yet implemented in this round",
}
import importlib.util
ov = os.path.join(here, 'manifest_table.py')
if os.path.exists(ov):
    spec = importlib.util.spec_from_file_location('mt', ov); mt = importlib.util.module_from_spec(spec); spec.loader.exec_module(mt)
    checks, texts, na = mt.checks, mt.texts, mt.na
m = {
 "version": 1,
 "setup_cmd": ENV + "cd /verif/gnarklint && go build -o /verif/bin/gnarklint .",
 "hooks": {"guard": "verif", "enable": "no hooks: the checks are static analyses of /repo's working tree; nothing is compiled into the repository", "baseline_off_cmd": "cd /repo && export GOFLAGS=-mod=mod GOPROXY=off GOSUMDB=off GOTOOLCHAIN=local && go test -json -vet=off -count=1 -timeout 25m ./...", "source_commits": [], "add_only": True},
 "engines": [
  {"name": "gnarklint", "path": "gnarklint/", "serves_properties": sorted(checks.keys()), "kind_free_text": "custom static analyzer over go/packages + go/ssa (x/tools v0.29.0): must-pass-through, dominance, dependency slicing, value-flow, effect and determinism rules specific to gnark; reference tables under rules/"},
 ],
 "checks": [],
 "notes": "All checks are static (no code of /repo is executed). fix: commits in /repo: 675f065 (groth16 commitment count), 8bd1081 (plonk claimed values count). See DESIGN.md and known_findings.json.",
 "not_applicable": [{"property_id": k, "reason": v} for k, v in sorted(na.items()) if k not in checks],
}
for pid in sorted(checks):
    eng, tech, ref = checks[pid]
    m["checks"].append({
     "property_id": pid,
     "quick_cmd": ENV + f"test -x /verif/bin/gnarklint || (cd /verif/gnarklint && go build -o /verif/bin/gnarklint .); /verif/bin/gnarklint -property {pid} -tier quick",
     "thorough_cmd": ENV + f"test -x /verif/bin/gnarklint || (cd /verif/gnarklint && go build -o /verif/bin/gnarklint .); /verif/bin/gnarklint -property {pid} -tier thorough",
     "evidence_file": f"/verif/evidence/{pid}.json",
     "replay_cmd_template": "/verif/bin/gnarklint -replay {path}",
     "engine": "gnarklint/" + eng,
     "level_claimed": {"category": "other", "text": texts[pid], "design_ref": ref},
     "level_note": "Trusted base: Go type checker, golang.org/x/tools v0.29.0 (go/packages, go/ssa), the reviewed reference tables under /verif/rules, and the contracts of gnark-crypto callees quoted there. Structural necessary conditions only; the behavioural statement as a whole is not decided.",
     "technique": "static analysis: " + tech,
    })
json.dump(m, open(os.path.join(here, '..', 'MANIFEST.json'), 'w'), indent=1)
print("checks", len(m["checks"]), "n/a", len(m["not_applicable"]))
