#!/usr/bin/env python3
"""Generate MANIFEST.json from the table below (kept in one place so that the manifest stays valid)."""
import json, os
here = os.path.dirname(os.path.abspath(__file__))
ENV = "export GOFLAGS=-mod=mod GOPROXY=off GOSUMDB=off GOTOOLCHAIN=local GOWORK=off; "
checks = {
 "C01": ("verifier", "must-pass-through (dominator/CFG) + backward dependency slice + length-guard dominance over SSA of the 7 Groth16 Verify functions", "3.1, 4/C01"),
 "C02": ("verifier", "must-pass-through + dependency slice + length-guard dominance over SSA of the 7 PLONK Verify functions", "3.1, 4/C02"),
 "C08": ("verifier", "length-guard dominance (V-GUARD) and error discipline over SSA of both verifiers x 7 curves; forward taint of decoded header counts to index/slice bounds (V-HDR-BOUND); grown-slice roots", "3.1, 4/C08"),
 "C18": ("verifier", "must-pass-through + argument-provenance slice over SSA of Phase1/Phase2.Verify x 7 curves", "3.1, 4/C18"),
 "C03": ("conc", "channel-protocol rules (select/ctx pairing, single close on success paths, acyclic wait-for graph, signal on every exit) over SSA/CFG of the 14 provers + error discipline + sibling agreement", "3.6, 4/C03"),
 "C10": ("effects", "effect analysis over the restricted call graph (no store into shared system/key/blueprint objects from Solve/Prove/Verify), option-slice aliasing, reset-before-run ordering, lock discipline; pooled-object ownership (POOL-UAF: no use after release, no escape), double-checked-locking pre-checks (EFF-DCL), typestate of caller-supplied hashers (HASH-CLEAN / HASH-FRESH), prover/verifier hash-to-field agreement", "3.5, 4/C10"),
 "C04": ("coeffid", "symbolic interpretation (polynomial effects) of every special-coefficient switch on the syntax tree + coefficient-table slot checks", "3.4, 4/C04"),
 "C05": ("flow", "interprocedural value-flow (per-function summaries over SSA, field-based heap): every hint output / internal wire of the builders reaches a constraint; operands of API operations reach their reviewed sinks; per-function constraint-path counts (FLOW-FN), reviewed users of constraint-relaxing options (OPT-RELAX), provably empty copy destinations (COPY-NOOP), hash typestate (HASH-KILL)", "3.8, 4/C05"),
 "C12": ("flow", "interprocedural value-flow: emulated-arithmetic hint outputs reach width enforcement, the deferred identity check and the commitment; per-piece width constraint of hint results (EMU-WIDTH), trust-flag discipline (EMU-FLAG), reviewed users of constraint-relaxing options (OPT-RELAX), per-function constraint-path counts (FLOW-FN)", "3.8, 4/C12"),
 "C13": ("flow", "interprocedural value-flow: limb / multiplicity / lookup-result wires reach the log-derivative equality and the commitment; per-function constraint-path counts (FLOW-FN), reviewed users of constraint-relaxing options (OPT-RELAX), provably empty copy destinations (COPY-NOOP), hash typestate (HASH-KILL)", "3.8, 4/C13"),
 "C14": ("flow", "interprocedural value-flow: indicator / mask / partition / byte hint outputs reach their reviewed assertions; per-function constraint-path counts (FLOW-FN), reviewed users of constraint-relaxing options (OPT-RELAX), provably empty copy destinations (COPY-NOOP), hash typestate (HASH-KILL)", "3.8, 4/C14"),
 "C16": ("flow", "interprocedural value-flow: curve, pairing and tower-field hint outputs and gadget operands reach assertions; per-function constraint-path counts (FLOW-FN), reviewed users of constraint-relaxing options (OPT-RELAX), provably empty copy destinations (COPY-NOOP), hash typestate (HASH-KILL)", "3.8, 4/C16"),
 "C17": ("flow", "interprocedural value-flow: every field of the inner proof / verifying key / witness operands of the in-circuit verifiers reaches its reviewed assertion sinks; per-function constraint-path counts (FLOW-FN), reviewed users of constraint-relaxing options (OPT-RELAX), provably empty copy destinations (COPY-NOOP), hash typestate (HASH-KILL)", "3.8, 4/C17"),
 "C19": ("flow", "interprocedural value-flow: GKR solving / proving hint outputs and verifier operands reach the in-circuit verifier's assertions; per-function constraint-path counts (FLOW-FN), reviewed users of constraint-relaxing options (OPT-RELAX), provably empty copy destinations (COPY-NOOP), hash typestate (HASH-KILL)", "3.8, 4/C19"),
 "C06": ("gate", "symbolic interpretation of the sparse-gate blueprints (assigned wire makes the gate polynomial vanish as a rational function), coefficient fast-path equivalence, must-pass rules on solveR1C / run, sibling agreement; definite assignment of the reused decoder scratch (OUT-DEF), reset-before-run ordering (EFF-RESET)", "3.3, 3.4, 4/C06"),
 "C09": ("codec", "writer/reader item-sequence agreement extracted from SSA, struct-field coverage of encoders, must-pass of Precompute on decode, gate calldata codec agreement, sibling agreement", "3.3, 4/C09"),
 "C07": ("walk", "schema-walk ordering (public pass before secret pass through one walker), visibility-conflict test ordering, witness accessor purity (no receiver writes), witness codec sequence and vector type-switch exhaustiveness; purity of the shared schema.Schema object", "3.10, 4/C07"),
 "C20": ("randflow", "provenance of blinding: flow-insensitive backward slices from each blinded proof element to SetRandom receivers (element-wise model of batch scalar multiplication), in-place randomiser writes, must-pass of the commitment mask hint, sibling agreement; dominance of every Groth16 draw over every successful return", "3.9, 4/C20"),
 "C11": ("determinism", "map-iteration order-sensitivity classification + package-level state and nondeterminism-source reachability over the compile-time call graph; pooled-buffer ownership (POOL-UAF) and cached-state reset pairing (STATE-RESET) in compile-time code", "3.7, 4/C11"),
}
texts = {
 "C01": "Decides structural necessary conditions of Groth16 verifier soundness on every path of the current source: each reviewed check is on every accepting path with the reviewed argument provenance, every proof field is consumed by a check, every proof-supplied list is length-fixed against the key, no error is dropped. It does not decide the algebra (that the checked equation is the right one).",
 "C02": "Same for the PLONK verifier: subgroup checks of every proof point, Fiat-Shamir bindings, algebraic relation, linearised digest MSM, KZG fold and batch verification are must-pass with reviewed provenance; proof fields covered; lists length-fixed.",
 "C08": "Decides that every index/slice of a proof- or witness-supplied slice in the verifiers is dominated by an error-returning length check, and that wrong list lengths are rejected on all accepting paths. Does not decide panics inside gnark-crypto. Also decides that counts decoded from the witness header never bound an index or slice expression without a dominating comparison with the payload length.",
 "C04": "Narrow: decides that every special-coefficient fast path (solver, Groth16 setup, MPC phase 2) equals the table path for the value its id stands for, and that the coefficient tables hold those values. Does not decide constant folding / merging / splitting / compression semantics.",
 "C05": "Decides that no hint output or internal wire of the builders and bit-decomposition gadgets is left unconstrained, and that each operand of each API operation still reaches the reviewed constraint sites (kind, strength, number of sites). Does not decide that the emitted constraints are sufficient.",
 "C12": "Decides that every emulated-arithmetic hint output reaches limb-width enforcement, the deferred multiplication check and the commitment. Does not decide overflow bookkeeping or integer semantics. Also decides that every limb group sliced out of a hint result is itself range-checked (reports the unconstrained carry limbs of mulHint / polyMvHint as known finding F6) and that the trust flag modReduced is only set behind the comparison with the modulus.",
 "C13": "Decides that every limb, multiplicity and lookup-result wire reaches the log-derivative equality and the commitment. Does not decide the algebra of the argument nor which limbs are looked up.",
 "C14": "Decides that every indicator / mask / partition / byte hint output reaches its reviewed assertions and that gadget operands reach theirs. Does not decide exact arithmetic semantics or thresholds.",
 "C16": "Decides that every decomposition / point / line / inverse / residue hint output of the curve and pairing gadgets, and every gadget operand, reaches the reviewed assertions. Does not decide formula correctness or exceptional cases.",
 "C17": "Decides that every field of the inner proof, key and witness handed to the in-circuit verifiers reaches the reviewed assertion sinks (field-level coverage with site counts). Does not decide accept-set equality with the native verifiers.",
 "C19": "Decides that the GKR hint outputs and the operands of the in-circuit GKR verifier reach the verifier's assertions and the challenge commitment. Does not decide the sum-check algebra.",
 "C06": "Decides, by symbolic interpretation of the source, that every accepting path of each sparse-gate Solve assigns a value satisfying the gate identically or checks the gate, that the gate codecs agree, that the solver's special-coefficient fast paths equal the table path, that solveR1C returns nil only after comparing or computing, and that run checks that all wires are assigned. Does not decide level scheduling, hint results, or the R1C division formulas. Also decides that every Decompress* method assigns every field of the reused scratch object on every path and that blueprint state is reset before each run.",
 "C09": "Decides that every writer and its reader encode and decode the same fields in the same order, that every struct field is encoded (or recomputed on decode), that the verifying-key decoder always recomputes its cached pairing, and that gate calldata codecs agree. Does not decide byte-level encoder behaviour, CBOR limits, or functional equivalence of decoded systems.",
 "C07": "Decides that compile and witness paths enumerate leaves through the same walker, public pass first, that the tag-conflict test is effective, that witness read accessors are pure, that the binary witness writer and reader agree and that every vector type is handled everywhere. Does not decide arbitrary struct shapes, value conversion or JSON values.",
 "C20": "Decides that each blinded proof element depends on fresh SetRandom values (Groth16: Ar and Bs on different scalars, Krs on both; PLONK: blinding polynomials, BSB22 random entries, quotient randomisers written in place) and that every Commit creates its own mask. Does not decide the quality of the randomness nor that values are not overwritten later (flow-insensitive).",
 "C03": "Decides the structural reasons why Prove terminates: no prover stage can wait forever once another failed, each stage channel is closed exactly once on the success path, the wait-for graph is acyclic, goroutines always signal, Solve errors propagate. It does not decide that honest proofs verify (algebra) nor domain sizing.",
 "C10": "Decides that nothing reachable from Solve/Prove/Verify writes memory owned by the shared compiled system, keys, blueprints or caller-owned option slices, that blueprint state is reset before each run and registries are lock-guarded. Reports the lookup-blueprint cache as a known finding. It does not decide equality of results across schedules. Also decides that objects handed back to shared pools are neither used afterwards nor escape, and that caller-supplied hashers are left clean.",
 "C11": "Decides the absence of the enumerated nondeterminism sources in compile-time code: order-sensitive effects under map iteration, package-level mutable state, clocks/randomness/goroutine order. It does not decide byte equality across processes in general. Also decides that pooled compile buffers are not used after release / do not escape, and that evaluations cached on circuit elements by the emulated-arithmetic deferred checks are cleared.",
 "C18": "Decides that every accepting exit of the contribution verifiers passes every update-proof check, size guard and the same-ratio check, each tied to the previous contribution's hash and to the reviewed parameter pairs, and that every parameter vector of the contribution is consumed by a check. Does not decide the cryptography of the update proofs.",
}
na = {
 "C15": "equality of two hash functions over all message lengths and contents is a value-level property selected by runtime lengths; no dataflow/typestate/effect/table-agreement rule is a genuine necessary condition beyond what every test vector already exercises (DESIGN.md 4/C15)",
}
import importlib.util
ov = os.path.join(here, 'manifest_table.py')
if os.path.exists(ov):
    spec = importlib.util.spec_from_file_location('mt', ov); mt = importlib.util.module_from_spec(spec); spec.loader.exec_module(mt)
    checks, texts, na = mt.checks, mt.texts, mt.na
m = {
 "version": 1,
 "setup_cmd": ENV + "cd /verif/gnarklint && go build -o /verif/bin/gnarklint .",
 "hooks": {"guard": "verif", "enable": "no hooks: the checks are static analyses of /repo's working tree; nothing is compiled into the repository", "baseline_off_cmd": "cd /repo && export GOFLAGS=-mod=mod GOPROXY=off GOSUMDB=off GOTOOLCHAIN=local && go test -json -vet=off -count=1 -timeout 25m ./...", "source_commits": [], "add_only": True},
 "engines": [
  {"name": "gnarklint", "path": "gnarklint/", "serves_properties": sorted(checks.keys()), "kind_free_text": "custom static analyzer over go/packages + go/ssa (x/tools v0.29.0): must-pass-through, dominance, dependency slicing, value-flow, effect and determinism rules specific to gnark; reference tables under rules/"},
 ],
 "checks": [],
 "notes": "All checks are static (no code of /repo is executed). fix: commits in /repo: 675f065 (groth16 commitment count), 8bd1081 (plonk claimed values count), d5689b0 (scs sorted keys), 26f7e6f (plonk solver option slice). Known findings: F4 (C10 lookup blueprint cache), F6 (C12 unconstrained emulated-multiplication carries). See DESIGN.md and known_findings.json.",
 "not_applicable": [{"property_id": k, "reason": v} for k, v in sorted(na.items()) if k not in checks],
}
for pid in sorted(checks):
    eng, tech, ref = checks[pid]
    m["checks"].append({
     "property_id": pid,
     "quick_cmd": ENV + f"test -x /verif/bin/gnarklint || (cd /verif/gnarklint && go build -o /verif/bin/gnarklint .); /verif/bin/gnarklint -property {pid} -tier quick",
     "thorough_cmd": ENV + f"test -x /verif/bin/gnarklint || (cd /verif/gnarklint && go build -o /verif/bin/gnarklint .); /verif/bin/gnarklint -property {pid} -tier thorough",
     "evidence_file": f"/verif/evidence/{pid}.json",
     "replay_cmd_template": "/verif/bin/gnarklint -replay {path}",
     "engine": "gnarklint/" + eng,
     "level_claimed": {"category": "other", "text": texts[pid], "design_ref": ref},
     "level_note": "Trusted base: Go type checker, golang.org/x/tools v0.29.0 (go/packages, go/ssa), the reviewed reference tables under /verif/rules, and the contracts of gnark-crypto callees quoted there. Structural necessary conditions only; the behavioural statement as a whole is not decided.",
     "technique": "static analysis: " + tech,
    })
json.dump(m, open(os.path.join(here, '..', 'MANIFEST.json'), 'w'), indent=1)
print("checks", len(m["checks"]), "n/a", len(m["not_applicable"]))
