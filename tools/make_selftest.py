#!/usr/bin/env python3
"""Generate selftest mutants: one small source change per rule, each breaking exactly one rule instance while
still type-checking. Patches are produced by editing a scratch worktree of /repo HEAD and saved under
selftest/patches/<id>.diff with selftest/mutants.json. Run once when rules or the repository change."""
import json, os, subprocess, sys, re
here = os.path.dirname(os.path.abspath(__file__)); root = os.path.join(here, '..')
WT = '/tmp/selftest_gen'
subprocess.run(['git','-C','/repo','worktree','remove','--force',WT],capture_output=True)
subprocess.check_call(['git','-C','/repo','worktree','add','--detach',WT,'HEAD'],stdout=subprocess.DEVNULL,stderr=subprocess.DEVNULL)
M = []
def m(mid, prop, rules, file, old, new, count=1, note=''):
    p = os.path.join(WT, file)
    s = open(p).read()
    if s.count(old) != count:
        print('SKIP', mid, 'occurrences', s.count(old)); return
    open(p,'w').write(s.replace(old, new))
    d = subprocess.run(['git','-C',WT,'diff'],capture_output=True,text=True).stdout
    subprocess.check_call(['git','-C',WT,'checkout','--','.'])
    open(os.path.join(root,'selftest','patches',mid+'.diff'),'w').write(d)
    M.append({'id':mid,'property':prop,'expect_rules':rules,'file':file,'note':note})

g16='backend/groth16/bn254/'; pl='backend/plonk/bn254/'
m('vpass-g16-subgroup','C01',['V-PASS'],g16+'verify.go','''	if !proof.isValid() {
		return errCorrectSubgroupCheckFailed
	}
''','''	_ = proof.isValid()
''',note='subgroup check result ignored')
m('vguardlen-g16-count','C01',['V-GUARD-LEN'],'backend/groth16/bls12-381/verify.go','''	if len(proof.Commitments) != len(vk.PublicAndCommitmentCommitted) {
		return fmt.Errorf("invalid number of commitments, got %d, expected %d", len(proof.Commitments), len(vk.PublicAndCommitmentCommitted))
	}
''','',note='F1 guard removed again')
m('vpass-plonk-bind','C02',['V-PASS'],pl+'verify.go','''	if err := fs.Bind(challenge, vk.Ql.Marshal()); err != nil {
		return err
	}
''','',note='Ql no longer bound into gamma')
m('vpass-plonk-algrel','C02',['V-PASS'],pl+'verify.go','''	if !constLin.Equal(&openingLinPol) {
		return errAlgebraicRelation
	}
''','''	_ = constLin.Equal(&openingLinPol)
''')
m('vguardidx-plonk-claimed','C08',['V-GUARD-IDX'],'backend/plonk/bw6-761/verify.go','''	if len(proof.BatchedProof.ClaimedValues) != len(vk.Qcp)+6 {
		return errors.New("batched proof claimed values number mismatch")
	}
''','',note='F2 guard removed again')
m('verr-plonk-multiexp','C08',['V-ERR'],pl+'verify.go','''	if _, err := linearizedPolynomialDigest.MultiExp(points, scalars, ecc.MultiExpConfig{}); err != nil {
		return err
	}
''','''	linearizedPolynomialDigest.MultiExp(points, scalars, ecc.MultiExpConfig{})
''')
m('vpass-phase2-g2delta','C18',['V-PASS','V-COVER'],g16+'mpcsetup/phase2.go','''		{Previous: &p.Parameters.G2.Delta, Next: &next.Parameters.G2.Delta},
''','''		{Previous: &p.Parameters.G1.Delta, Next: &next.Parameters.G1.Delta},
''')
m('vpass-phase1-sameratio','C18',['V-PASS'],g16+'mpcsetup/phase1.go','''		next.parameters.G1.BetaTau,
	)''','''	)''',note='BetaTau dropped from SameRatioMany')
m('conc-ctx','C03',['CONC-CTX'],pl+'prove.go','''	// wait for solver to be done
	select {
	case <-s.ctx.Done():
		return errContextDone
	case <-s.chLRO:
	}

	for i := range s.commitmentInfo {''','''	// wait for solver to be done
	<-s.chLRO

	for i := range s.commitmentInfo {''')
m('conc-close','C03',['CONC-CLOSE'],pl+'prove.go','''	s.x[id_Qk] = qk
	close(s.chQk)
''','''	s.x[id_Qk] = qk
''')
m('conc-signal','C03',['CONC-SIGNAL'],g16+'prove.go','''		proof.Ar.FromJacobian(&ar)
		chArDone <- nil
''','''		proof.Ar.FromJacobian(&ar)
''')
m('eff-optslice','C10',['EFF-OPTSLICE'],g16+'prove.go','''	solverOpts := opt.SolverOpts[:len(opt.SolverOpts):len(opt.SolverOpts)]''','''	solverOpts := opt.SolverOpts''')
m('eff-shared','C10',['EFF-SHARED'],'constraint/bn254/system.go','''	// init the solver
	solver, err := newSolver(cs, v, opts...)''','''	cs.Logs = cs.Logs[:0]
	// init the solver
	solver, err := newSolver(cs, v, opts...)''')
m('eff-lock','C10',['EFF-LOCK'],'constraint/solver/hint_registry.go','''func GetRegisteredHint(key HintID) Hint {
	registryM.Lock()
	defer registryM.Unlock()
''','''func GetRegisteredHint(key HintID) Hint {
''')
m('det-maprange','C11',['DET-MAPRANGE'],'frontend/cs/scs/builder.go','''		sort.Ints(missing)
		for _, k := range missing {
			if k >= nbWitnessWires {''','''		for k := range lookup {
			if k >= nbWitnessWires {''',note='F5 fix reverted in GetWireConstraints')
m('det-global','C11',['DET-GLOBAL'],'frontend/compile.go','''func Compile(field *big.Int, newBuilder NewBuilder, circuit Circuit, opts ...CompileOption) (constraint.ConstraintSystem, error) {
''','''var nbCompilations int

func Compile(field *big.Int, newBuilder NewBuilder, circuit Circuit, opts ...CompileOption) (constraint.ConstraintSystem, error) {
	nbCompilations++
''')
m('coeff-switch','C04',['COEFF-SWITCH'],'constraint/bn254/solver.go','''	case constraint.CoeffIdMinusOne:
		r.Sub(r, &s.values[vID])''','''	case constraint.CoeffIdMinusOne:
		r.Add(r, &s.values[vID])''')
m('coeff-table','C04',['COEFF-TABLE'],'frontend/cs/coeff_table.go','''	st.Coeffs[constraint.CoeffIdMinusOne].SetInt64(-1)''','''	st.Coeffs[constraint.CoeffIdMinusOne].SetInt64(1)''')
m('gate-solve','C06',['GATE-SOLVE'],'constraint/blueprint_scs.go','''	m0 = s.Mul(m0, m1)

	s.SetValue(inst.Calldata[2], m0)''','''	m0 = s.Mul(m0, m1)

	s.SetValue(inst.Calldata[2], m1)''')
m('gate-codec','C06',['GATE-CODEC','GATE-SOLVE'],'constraint/blueprint_scs.go','''	*to = append(*to, c.XA, c.XB, c.XC, c.QL, c.QR, c.QC)''','''	*to = append(*to, c.XA, c.XB, c.XC, c.QR, c.QL, c.QC)''')
m('solve-r1c','C06',['SOLVE-R1C'],'constraint/bn254/solver.go','''		} else {
			// we didn't actually ensure that a * b == c
			var check fr.Element
			if !check.Mul(a, b).Equal(c) {
				return solver.wrapErrWithDebugInfo(cID, fmt.Errorf("%s ⋅ %s != %s", a.String(), b.String(), c.String()))
			}
		}
	case 2:''','''		}
	case 2:''')
m('flow-bits-bool','C05',['FLOW-REF','FLOW-PARAM'],'std/math/bits/conversion_binary.go','''		if !cfg.UnconstrainedOutputs {
			api.AssertIsBoolean(bits[i])
		}
''','')
m('flow-emulated-width','C12',['FLOW-REF','FLOW-SOME','FLOW-PARAM'],'std/math/emulated/field.go','''	e := f.newInternalElement(limbs, 0)
	f.enforceWidth(e, strict)
	return e''','''	e := f.newInternalElement(limbs, 0)
	return e''')
m('flow-logderiv-eq','C13',['FLOW-REF','FLOW-PARAM'],'std/internal/logderivarg/logderivarg.go','''		api.AssertIsEqual(lp, rp)''','''		_, _ = lp, rp''')
m('flow-selector-sum','C14',['FLOW-REF','FLOW-PARAM','FLOW-MUST','FLOW-FN'],'std/selector/multiplexer.go','''	api.AssertIsEqual(indicatorsSum, 1)''','''	_ = indicatorsSum''')
m('flow-gkr-claim','C19',['FLOW-REF','FLOW-PARAM'],'std/gkr/gkr.go','''				api.AssertIsEqual(claim.claimedEvaluations[0], evaluation)''','''				_ = evaluation''')
m('flow-rec-g16-pairing','C17',['FLOW-PARAM'],'std/recursion/groth16/verifier.go','''	v.pairing.AssertIsEqual(pairing, &vk.E)''','''	_ = pairing''')
m('codec-seq','C09',['CODEC-SEQ'],'backend/groth16/bls12-377/marshal.go','''	if err := dec.Decode(&proof.Bs); err != nil {
		return dec.BytesRead(), err
	}
	if err := dec.Decode(&proof.Krs); err != nil {''','''	if err := dec.Decode(&proof.Krs); err != nil {
		return dec.BytesRead(), err
	}
	if err := dec.Decode(&proof.Bs); err != nil {''',note='reader decodes Krs before Bs')
m('codec-precompute','C09',['CODEC-PRECOMPUTE'],g16+'marshal.go','''	if err := vk.Precompute(); err != nil {
		return n + dec.BytesRead(), fmt.Errorf("precompute: %w", err)
	}
''','''''')
m('walk-order','C07',['WALK-ORDER'],'frontend/witness.go','''			if leaf.Visibility == schema.Public {
				chValues <- tValue.Interface()
			}
			return nil
		})
		if !opt.publicOnly {
			schema.Walk(assignment, tVariable, func(leaf schema.LeafInfo, tValue reflect.Value) error {
				if leaf.Visibility == schema.Secret {''','''			if leaf.Visibility == schema.Secret {
				chValues <- tValue.Interface()
			}
			return nil
		})
		if !opt.publicOnly {
			schema.Walk(assignment, tVariable, func(leaf schema.LeafInfo, tValue reflect.Value) error {
				if leaf.Visibility == schema.Public {''')
m('wit-pure','C07',['WIT-PURE'],'backend/witness/witness.go','''func (w *witness) Public() (Witness, error) {
	v, err := newFrom(w.vector, int(w.nbPublic))''','''func (w *witness) Public() (Witness, error) {
	w.nbSecret = 0
	v, err := newFrom(w.vector, int(w.nbPublic))''')
m('rand-flow','C20',['RAND-FLOW'],'backend/groth16/bls12-381/prove.go','''		ar.AddMixed(&deltas[0])
''','')
m('rand-source','C20',['RAND-SOURCE'],pl+'prove.go','''	s.bp[id_Bz] = getRandomPolynomial(order_blinding_Z)''','''	s.bp[id_Bz] = iop.NewPolynomial(&[]fr.Element{{}, {}, {}}, iop.Form{Basis: iop.Canonical, Layout: iop.Regular})''')
m('flow-sw-emulated','C16',['FLOW-REF','FLOW-PARAM','FLOW-SOME'],'std/algebra/emulated/sw_emulated/point.go','''	c.scalarApi.AssertIsEqual(''','''	func(...any) {}(''',count=5)
m('hash-kill','C13',['HASH-KILL'],'std/internal/logderivarg/logderivarg.go','''		hasher.Reset()
		hasher.Write(i+1, commitment)''','''		hasher.Write(commitment)
		hasher.Reset()
		hasher.Write(i+1)''',note='commitment absorbed then discarded by Reset')
m('hash-clean','C03',['HASH-CLEAN'],'backend/groth16/bn254/verify.go','''		hashBts := opt.HashToFieldFn.Sum(nil)
		opt.HashToFieldFn.Reset()
''','''		hashBts := opt.HashToFieldFn.Sum(nil)
''',note='caller-supplied hasher left dirty by Verify')
m('eff-dcl','C10',['EFF-DCL'],'constraint/blueprint_logderivlookup.go','''	b.lock.Lock()
	if len(b.cachedEntries) < nbEntries {''','''	needLock := len(b.cachedEntries) < nbEntries
	if needLock {
		b.lock.Lock()
	} else {
		b.lock.Lock()
	}
	if len(b.cachedEntries) < nbEntries {''',note='lock taken behind an unlocked pre-check of the guarded field')
m('codec-cbor','C09',['CODEC-CBOR'],'constraint/marshal.go','''		MaxArrayElements: 2147483647,
''','''		MaxArrayElements: 131072,
''')
m('coeff-switch-mpc','C18',['COEFF-SWITCH'],'backend/groth16/bls12-381/mpcsetup/phase2.go','''		case constraint.CoeffIdMinusOne:
			res.Sub(res, value)''','''		case constraint.CoeffIdMinusOne:
			res.Add(res, value)''',count=2)
# ---- benign refactors: behaviour-preserving edits that must NOT raise any alarm -------------------------------
def benign_plonk_helper():
    f=os.path.join(WT,'backend/plonk/bn254/verify.go'); s=open(f).read()
    a=s.index('	// check that the points in the proof are on the curve'); b=s.index('	// transcript to derive the challenge')
    body=s[a:b].replace('	// check that the points in the proof are on the curve\n','')
    s=s[:a]+'''	// check that the points in the proof are on the curve
	if err := proof.checkSubgroups(); err != nil {
		return err
	}

'''+s[b:]
    s=s.replace('func Verify(proof *Proof,','func (proof *Proof) checkSubgroups() error {\n'+body+'	return nil\n}\n\nfunc Verify(proof *Proof,',1)
    open(f,'w').write(s)
def save(mid, prop, file, note):
    d = subprocess.run(['git','-C',WT,'diff'],capture_output=True,text=True).stdout
    subprocess.check_call(['git','-C',WT,'checkout','--','.'])
    open(os.path.join(root,'selftest','patches',mid+'.diff'),'w').write(d)
    M.append({'id':mid,'property':prop,'expect_rules':[],'benign':True,'file':file,'note':note})
benign_plonk_helper(); save('benign-plonk-helper','C02','backend/plonk/bn254/verify.go','subgroup checks extracted into a helper method, one curve only')
benign_plonk_helper(); save('benign-plonk-helper-c08','C08','backend/plonk/bn254/verify.go','same refactor, checked against C08')
def edit(file, pairs):
    f=os.path.join(WT,file); s=open(f).read()
    for o,n in pairs:
        assert s.count(o)>=1, (file,o)
        s=s.replace(o,n)
    open(f,'w').write(s)
edit('backend/groth16/bn254/verify.go',[('nbPublicVars := len(vk.G1.K) - len(vk.PublicAndCommitmentCommitted)','expectedPublic := len(vk.G1.K) - len(vk.PublicAndCommitmentCommitted)'),('if len(publicWitness) != nbPublicVars-1 {','if !(len(publicWitness) == expectedPublic-1) {'),('"invalid witness size, got %d, expected %d (public - ONE_WIRE)"','"bad witness length: got %d, want %d"')])
save('benign-g16-rename','C01','backend/groth16/bn254/verify.go','local renamed, condition rewritten as !(a==b), message changed')
edit('constraint/blueprint_scs.go',[('''	m0 = s.Mul(m0, m1)

	s.SetValue(inst.Calldata[2], m0)''','''	product := s.Mul(m0, m1)
	out := inst.Calldata[2]

	s.SetValue(out, product)''')])
save('benign-gate-temp','C06','constraint/blueprint_scs.go','temporaries introduced in the Mul gate Solve')
edit('std/math/bits/conversion_binary.go',[('''		if !cfg.UnconstrainedOutputs {
			api.AssertIsBoolean(bits[i])
		}''','''		if !cfg.UnconstrainedOutputs {
			bit := bits[i]
			api.AssertIsBoolean(bit)
		}''')])
save('benign-bits-temp','C05','std/math/bits/conversion_binary.go','temporary introduced before the booleanity assertion')
edit('frontend/cs/scs/builder.go',[('''		missing := make([]int, 0, len(lookup))
		for k := range lookup {
			missing = append(missing, k)
		}
		sort.Ints(missing)''','''		var missing []int
		for wireID := range lookup {
			missing = append(missing, wireID)
		}
		sort.Slice(missing, func(i, j int) bool { return missing[i] < missing[j] })''')])
save('benign-det-sort','C11','frontend/cs/scs/builder.go','sorted-keys idiom rewritten with sort.Slice')
edit('backend/groth16/bn254/prove.go',[('	var _r, _s, _kr fr.Element','	var _s, _r, _kr fr.Element')])
save('benign-rand-decl','C20','backend/groth16/bn254/prove.go','declaration order of the random scalars swapped')
# ---- round-2 inspired: header bounds, grown witness slice
m('hdrbound-witness-slice','C08',['V-HDR-BOUND'],'backend/witness/vector.go','''	case fr_bn254.Vector:
		a := make(fr_bn254.Vector, n)
		copy(a, wt)
		return a, nil
''','''	case fr_bn254.Vector:
		a := make(fr_bn254.Vector, n)
		copy(a, wt[:n])
		return a, nil
''',note='header count nbPublic slices the decoded vector without comparing with its length')
m('vguardidx-g16-witness-late','C08',['V-GUARD-IDX','V-GUARD-LEN'],'backend/groth16/bls12-377/verify.go','''	if len(publicWitness) != nbPublicVars-1 {
		return fmt.Errorf("invalid witness size, got %d, expected %d (public - ONE_WIRE)", len(publicWitness), len(vk.G1.K)-1)
	}
''','''	_ = nbPublicVars
''',note='public witness length check removed: the commitment loop indexes publicWitness unguarded')
edit('backend/witness/vector.go',[('''	case fr_bn254.Vector:
		a := make(fr_bn254.Vector, n)
		copy(a, wt)
		return a, nil
''','''	case fr_bn254.Vector:
		if n > len(wt) {
			return nil, errors.New("header does not match payload")
		}
		a := make(fr_bn254.Vector, n)
		copy(a, wt[:n])
		return a, nil
''')])
save('benign-hdrbound-guarded','C08','backend/witness/vector.go','header count compared with len() before slicing')
m('flowfn-glv-decomp','C16',['FLOW-FN','FLOW-REF'],'std/algebra/emulated/sw_emulated/point.go','''	// s == s3 + [λ]s4
	c.scalarApi.AssertIsEqual(
		c.scalarApi.Add(s3, c.scalarApi.Mul(s4, c.eigenvalue)),
		s,
	)

	s1bits := c.scalarApi.ToBits(s1)''','''	_, _ = s3, s4

	s1bits := c.scalarApi.ToBits(s1)''',note='GLV decomposition of the scalar no longer tied to s in scalarMulGLV')
edit('std/math/cmp/bounded.go',[('''func (bc BoundedComparator) Min(a, b frontend.Variable) frontend.Variable {
	res, err := bc.api.Compiler().NewHint(minOutputHint, 1, a, b)''','''func (bc BoundedComparator) Min(a, b frontend.Variable) frontend.Variable {
	return bc.minChecked(a, b)
}

func (bc BoundedComparator) minChecked(a, b frontend.Variable) frontend.Variable {
	res, err := bc.api.Compiler().NewHint(minOutputHint, 1, a, b)'''),('''	// (a - min) + (b - min) >= 0
	bc.assertIsNonNegative(bc.api.Add(aDiff, bDiff))
''','''	bc.minSumNonNegative(aDiff, bDiff)
'''),('''// cmpInField compares a and b''','''// (a - min) + (b - min) >= 0
func (bc BoundedComparator) minSumNonNegative(aDiff, bDiff frontend.Variable) {
	bc.assertIsNonNegative(bc.api.Add(aDiff, bDiff))
}

// cmpInField compares a and b''')])
save('benign-flow-wrapper','C14','std/math/cmp/bounded.go','Min split into an exported wrapper and an internal method, one assertion moved into a helper')
m('emuwidth-quotient','C12',['EMU-WIDTH'],'std/math/emulated/field_mul.go','''	quo = f.packLimbs(ret[:nbQuoLimbs], false)
	// remainder is always range checked when we use it as a result of''','''	quo = f.newInternalElement(ret[:nbQuoLimbs], 0)
	// remainder is always range checked when we use it as a result of''',note='quotient limbs of mulHint no longer width-checked (a new unconstrained piece besides the known carries)')
m('pooluaf-early-put','C11',['POOL-UAF'],'constraint/core.go','''	blueprint.(BlueprintR1C).CompressR1C(&c, calldata)
	cs.AddInstruction(bID, *calldata)

	// release the []uint32 to the pool
	putBuffer(calldata)
''','''	blueprint.(BlueprintR1C).CompressR1C(&c, calldata)
	data := *calldata
	// release the []uint32 to the pool
	putBuffer(calldata)
	cs.AddInstruction(bID, data)
''',note='buffer handed back to the pool before the instruction is copied out of it')
m('pooluaf-solver-q','C10',['POOL-UAF'],'constraint/bls12-381/solver.go','''	err := f(q, inputs, outputs)
''','''	pool.BigInt.Put(q)
	err := f(q, inputs, outputs)
''',note='modulus big.Int released to the shared pool before the hint function runs (double release later is harmless for the rule)')
m('optrelax-mux','C14',['OPT-RELAX'],'std/selector/multiplexer.go','''	selBits := bits.ToBinary(api, sel, bits.WithNbDigits(nbBits)) // binary decomposition ensures sel < 2^nbBits''','''	selBits := bits.ToBinary(api, sel, bits.WithNbDigits(nbBits), bits.WithUnconstrainedOutputs()) // binary decomposition ensures sel < 2^nbBits''',note='selector bits no longer constrained boolean by the decomposition')
m('statereset-mv-vals','C11',['STATE-RESET'],'std/math/emulated/field_mul.go','''	for i := range mc.vals {
		mc.vals[i].evaluation = 0
		mc.vals[i].isEvaluated = false
	}
	mc.r.evaluation = 0''','''	mc.r.evaluation = 0''',note='mvCheck no longer clears the evaluations cached on its input elements')
edit('std/math/emulated/field_mul.go',[('''	mc.a.evaluation = 0
	mc.a.isEvaluated = false
	mc.b.evaluation = 0
	mc.b.isEvaluated = false
	mc.r.evaluation = 0
	mc.r.isEvaluated = false
	mc.k.evaluation = 0
	mc.k.isEvaluated = false
	mc.c.evaluation = 0
	mc.c.isEvaluated = false
	if mc.p != nil {
		mc.p.evaluation = 0
		mc.p.isEvaluated = false
	}''','''	for _, e := range []*Element[T]{mc.a, mc.b, mc.r, mc.k, mc.c, mc.p} {
		if e != nil {
			e.evaluation = 0
			e.isEvaluated = false
		}
	}''')])
save('benign-statereset-loop','C11','std/math/emulated/field_mul.go','cleanEvaluations rewritten as a loop over all six elements')
m('rand-conditional-s','C20',['RAND-SOURCE'],'backend/groth16/bw6-761/prove.go','''	if _, err := _s.SetRandom(); err != nil {
		return nil, err
	}
''','''	if len(pk.G1.B) > 1 {
		if _, err := _s.SetRandom(); err != nil {
			return nil, err
		}
	}
''',note='s is drawn only on one branch: zero otherwise')
m('schema-sort-fields','C07',['WIT-PURE'],'frontend/schema/schema.go','''	// first, let's replace the Field by reflect.StructField
	is := toStructField(s.Fields, leafType, omitEmpty)
''','''	// first, let's replace the Field by reflect.StructField
	for i := range s.Fields {
		s.Fields[i].Visibility = Unset
	}
	is := toStructField(s.Fields, leafType, omitEmpty)
''',note='by-value receiver, but the Fields slice is shared with the caller: Instantiate erases the visibilities of the shared schema')
m('outdef-hint-early','C06',['OUT-DEF'],'constraint/blueprint_hint.go','''	lenInputs := int(inst.Calldata[2])
	if cap(h.Inputs) >= lenInputs {''','''	lenInputs := int(inst.Calldata[2])
	if lenInputs == 0 {
		h.OutputRange.Start = inst.Calldata[3]
		h.OutputRange.End = inst.Calldata[4]
		return
	}
	if cap(h.Inputs) >= lenInputs {''',note='fast path for input-less hints leaves HintMapping.Inputs of the previous instruction in the scratch object')
m('emuflag-reduce','C12',['EMU-FLAG'],'std/math/emulated/field_reduce.go','''	// slow path - use hint to reduce value
	return f.mulMod(a, f.One(), 0, nil)''','''	// slow path - use hint to reduce value
	res := f.mulMod(a, f.One(), 0, nil)
	res.modReduced = strict
	return res''',note='strict reduction marks the hinted remainder as reduced without comparing it with the modulus')
m('copynoop-gkr-hintins','C19',['COPY-NOOP'],'std/gkr/compile.go','''	hintIns := make([]frontend.Variable, len(initialChallenges)+1) // hack''','''	hintIns := make([]frontend.Variable, 1, len(initialChallenges)+1) // hack''',note='buffer made with length 1 (capacity len+1): copy(hintIns[1:], initialChallenges) moves nothing')
edit('backend/groth16/bls12-381/prove.go',[('''	var _r, _s, _kr fr.Element
	if _, err := _r.SetRandom(); err != nil {
		return nil, err
	}
	if _, err := _s.SetRandom(); err != nil {
		return nil, err
	}
''','''	var _kr fr.Element
	_r, _s, err := sampleBlinding()
	if err != nil {
		return nil, err
	}
'''),('''// Prove generates the proof of knowledge of a r1cs with full witness (secret + public part).''','''// sampleBlinding draws the two blinding scalars r and s.
func sampleBlinding() (r, s fr.Element, err error) {
	if _, err = r.SetRandom(); err != nil {
		return
	}
	_, err = s.SetRandom()
	return
}

// Prove generates the proof of knowledge of a r1cs with full witness (secret + public part).''')])
save('benign-rand-helper','C20','backend/groth16/bls12-381/prove.go','the two SetRandom draws extracted into a helper returning (r, s, err)')
m('permagree-export','C19',['PERM-AGREE'],'std/gkr/compile.go','''	return utils.Map(s.permutations.InstancesPermutation, utils.SliceAt(s.assignments[v]))''','''	return utils.Map(s.permutations.SortedInstances, utils.SliceAt(s.assignments[v]))''',note='F7 reintroduced: Export reads through the inverse permutation')
m('argalias-divunchecked','C04',['ARG-ALIAS'],'frontend/cs/r1cs/api.go','''		return expr.NewLinearExpression(0, n2)
	}

	// v1 is not constant
	return builder.mulConstant(v1, n2, false)
}

// Div''','''		return expr.NewLinearExpression(0, n2)
	}

	// v1 is not constant
	return builder.mulConstant(v1, n2, true)
}

// Div''',note='DivUnchecked by a constant scales the caller-held dividend in place')
edit('frontend/cs/r1cs/api.go',[('''		return builder.mulConstant(v1, n2, !first)''','''		inPlace := first == false
		return builder.mulConstant(v1, n2, inPlace)''')])
save('benign-argalias-flag','C04','frontend/cs/r1cs/api.go','in-place flag computed as first == false through a local')
m('predagree-bn254-g2','C16',['PRED-AGREE'],'std/algebra/emulated/sw_bn254/pairing.go','''	isInSubgroup := pr.g2.IsEqual(Q, _Q)''','''	isInSubgroup := pr.g2.IsEqual(_Q, _Q)''',note='IsOnG2 compares the short-vector image with itself instead of with Q')
m('flowmust-decoder-sum','C14',['FLOW-MUST'],'std/selector/multiplexer.go','''	api.AssertIsEqual(indicatorsSum, 1)
	return indicators''','''	if len(indicators) > 1 {
		api.AssertIsEqual(indicatorsSum, 1)
	}
	return indicators''',note='the one-hot sum assertion of the decoder made conditional')
edit('std/selector/multiplexer.go',[('''	api.AssertIsEqual(indicatorsSum, 1)
	return indicators
}''','''	assertOneHot(api, indicatorsSum)
	return indicators
}

func assertOneHot(api frontend.API, sum frontend.Variable) {
	api.AssertIsEqual(sum, 1)
}''')])
save('benign-flowmust-helper','C14','std/selector/multiplexer.go','the one-hot sum assertion extracted into a helper called unconditionally')
m('stateclose-multicommit','C13',['STATE-CLOSE'],'std/multicommit/nativecommit.go','''	// close collecting input in case anyone wants to check more variables to commit to.
	mct.closed = true
	if len(mct.cbs) == 0 {''','''	if len(mct.vars) == 0 && len(mct.cbs) == 1 {
		return mct.cbs[0](api, 0)
	}
	// close collecting input in case anyone wants to check more variables to commit to.
	mct.closed = true
	if len(mct.cbs) == 0 {''',note='fast path of the multicommitter returns before marking it closed')
edit('std/math/emulated/field_mul.go',[('''	for i := range mc.vals {
		mc.vals[i].evaluation = 0
		mc.vals[i].isEvaluated = false
	}
	mc.r.evaluation = 0
	mc.r.isEvaluated = false
	mc.k.evaluation = 0
	mc.k.isEvaluated = false
	mc.c.evaluation = 0
	mc.c.isEvaluated = false
}''','''	for i := range mc.vals {
		resetEvaluation(mc.vals[i])
	}
	resetEvaluation(mc.r)
	resetEvaluation(mc.k)
	resetEvaluation(mc.c)
}

func resetEvaluation[T FieldParams](e *Element[T]) {
	e.evaluation = 0
	e.isEvaluated = false
}''')])
save('benign-statereset-helper','C11','std/math/emulated/field_mul.go','mvCheck.cleanEvaluations clears the cached evaluations through a helper')
m('relaxuse-uints-add','C14',['RELAX-USE','OPT-RELAX'],'std/math/uints/uint8.go','''	vreslow, _ := bitslice.Partition(bf.api, vres, uint(tLen), bitslice.WithNbDigits(maxBitlen))''','''	vreslow, _ := bitslice.Partition(bf.api, vres, uint(tLen), bitslice.WithNbDigits(maxBitlen), bitslice.WithUnconstrainedOutputs())''',note='F9 reintroduced')
m('zerotriv-bw6-finalexp','C16',['ZERO-TRIVIAL'],'std/algebra/emulated/sw_bw6761/pairing.go','''	t0 = pr.Ext6.Mul(t0, t1)

	pr.AssertIsEqual(t0, x)
}''','''	t0 = pr.Ext6.Mul(t0, t1)

	// compare after scaling both sides by the residue witness
	pr.AssertIsEqual(pr.Ext6.Mul(t0, &residueWitness), pr.Ext6.Mul(x, &residueWitness))
}''',note='both sides multiplied by the hinted residue witness: the zero witness satisfies the relation for any x')
edit('std/algebra/emulated/sw_bls12381/g2.go',[('''	s1bits := g2.fr.ToBits(s1)
	s2bits := g2.fr.ToBits(s2)
''','''	s1bits := g2.fr.ToBits(s1)
	s2bits := g2.fr.ToBits(s2)
	// the sub-scalars have at most 130 bits
	for i := 130; i < len(s1bits); i++ {
		g2.api.AssertIsEqual(s1bits[i], 0)
	}
	for i := 130; i < len(s2bits); i++ {
		g2.api.AssertIsEqual(s2bits[i], 0)
	}
''')])
save('benign-bitscover-repair','C16','std/algebra/emulated/sw_bls12381/g2.go','the unread high bits of the GLV sub-scalars asserted zero (the repair of F11-S4): the two BITS-COVER findings of this function disappear and nothing else fires')
rw='frontend/schema/internal/reflectwalk/reflectwalk.go'
m('walkbalance-slice-exit','C07',['WALK-BALANCE'],rw,'''		if ok {
			ew.Exit(SliceElem)
		}
''','',note='the slice-element frame pushed by SliceElem is never popped')
m('walkbalance-exit-pop','C07',['WALK-BALANCE'],'frontend/schema/walk.go','''	if l == reflectwalk.StructField || l == reflectwalk.ArrayElem || l == reflectwalk.SliceElem {''','''	if l == reflectwalk.StructField || l == reflectwalk.ArrayElem {''',note='Exit no longer pops the frames of slice elements')
m('walkbalance-push-on-skip','C07',['WALK-BALANCE'],'frontend/schema/walk.go','''	if ok && tag == string(TagOptOmit) {
		return reflectwalk.ErrSkipEntry // skipping "-"
	}
''','''	if ok && tag == string(TagOptOmit) {
		w.path.push(LeafInfo{name: sf.Name, Visibility: w.visibility()})
		return reflectwalk.ErrSkipEntry // skipping "-"
	}
''',note='an omitted field leaves its frame on the path stack')
edit(rw,[('''		ew, ok := w.(EnterExitWalker)
		if ok {
			ew.Enter(SliceElem)
		}
''','''		if ok {
			ew.Enter(SliceElem)
		}
'''),('''			if sf.Anonymous { // TODO @gbotrel check this
				err = walk(f, w)
				if err != nil && err != ErrSkipEntry {
					return
				}
				continue
			}
''','''			if sf.Anonymous { // TODO @gbotrel check this
				if err = walk(f, w); err == nil || err == ErrSkipEntry {
					continue
				}
				return
			}
''')])
save('benign-walkbalance-hoist','C07',rw,'the EnterExitWalker assertion of walkSlice hoisted out of the loop, the embedded-field branch of walkStruct rewritten with the inverse condition')
m('setuptoxic-gamma-copy','C01',['SETUP-TOXIC'],'backend/groth16/bls12-381/setup.go','''	for res.gamma.IsZero() {
		if _, err := res.gamma.SetRandom(); err != nil {
			return res, err
		}
	}
''','''	res.gamma.Square(&res.delta)
''',note='gamma derived from delta instead of drawn: the verifying key still works, the trapdoor relation gamma = delta^2 is public')
m('setuptoxic-unchecked','C01',['SETUP-TOXIC'],'backend/groth16/bw6-761/setup.go','''	for res.alpha.IsZero() {
		if _, err := res.alpha.SetRandom(); err != nil {
			return res, err
		}
	}
''','''	res.alpha.SetRandom()
''',note='error of the alpha draw ignored')
edit('backend/groth16/bn254/setup.go',[('''	for res.beta.IsZero() {
		if _, err := res.beta.SetRandom(); err != nil {
			return res, err
		}
	}
''','''	for {
		_, err := res.beta.SetRandom()
		if err != nil {
			return res, err
		}
		if !res.beta.IsZero() {
			break
		}
	}
''')])
save('benign-setuptoxic-loop','C01','backend/groth16/bn254/setup.go','the beta draw loop rewritten as draw-then-test')
cb='std/math/bits/conversion_binary.go'
m('ordguard-tobinary','C05',['ORDER-GUARD'],cb,'''omitReducednessCheck := cfg.omitModulusCheck || cfg.NbDigits < api.Compiler().FieldBitLen()''','''omitReducednessCheck := cfg.omitModulusCheck || cfg.NbDigits != api.Compiler().FieldBitLen()''',note='the comparison with p-1 is skipped for requests wider than the field, which are clamped to the full width afterwards')
edit(cb,[('''	omitReducednessCheck := cfg.omitModulusCheck || cfg.NbDigits < api.Compiler().FieldBitLen()
''',''''''),('''	var paddingBits int
	if cfg.NbDigits > api.Compiler().FieldBitLen() {
		paddingBits = cfg.NbDigits - api.Compiler().FieldBitLen()
		cfg.NbDigits = api.Compiler().FieldBitLen()
	}
''','''	var paddingBits int
	nbFieldBits := api.Compiler().FieldBitLen()
	if cfg.NbDigits > nbFieldBits {
		paddingBits = cfg.NbDigits - nbFieldBits
		cfg.NbDigits = nbFieldBits
	}
	checkReducedness := !cfg.omitModulusCheck && !(cfg.NbDigits < nbFieldBits)
'''),('''	if !omitReducednessCheck {''','''	if checkReducedness {''')])
save('benign-ordguard-tobinary','C05',cb,'the modulus-check flag computed after the clamp, with the inverse polarity and a hoisted FieldBitLen')
m('ordguard-partition','C14',['ORDER-GUARD'],'std/math/bitslice/partition.go','''	if opt.digits == 0 || opt.digits >= api.Compiler().FieldBitLen() {''','''	if opt.digits == 0 || opt.digits > api.Compiler().FieldBitLen() {''',note='a bound of exactly the field size takes the hinted path, where the recomposition only holds modulo p')
edit('std/math/bitslice/partition.go',[('''	if opt.digits == 0 || opt.digits >= api.Compiler().FieldBitLen() {''','''	if bounded := opt.digits > 0 && opt.digits < api.Compiler().FieldBitLen(); !bounded {''')])
save('benign-ordguard-partition','C14','std/math/bitslice/partition.go','the fallback condition of Partition rewritten through a named negation')
m('ordguard-domain','C03',['ORDER-GUARD'],'backend/plonk/bls12-381/prove.go','''	if sizeSystem < 6 {''','''	if sizeSystem < 3 {''',note='quotient domain too small for systems of size 3 and 4')
for cv in ['bn254','bls12-377','bls12-381','bls24-315','bls24-317','bw6-633','bw6-761']:
  edit('backend/plonk/'+cv+'/prove.go',[('''	if sizeSystem < 6 {
		s.domain1 = fft.NewDomain(8*sizeSystem, fft.WithoutPrecompute())
	} else {
		s.domain1 = fft.NewDomain(4*sizeSystem, fft.WithoutPrecompute())
	}
''','''	factor := uint64(4)
	if sizeSystem <= 5 {
		factor = 8
	}
	s.domain1 = fft.NewDomain(factor*sizeSystem, fft.WithoutPrecompute())
''')])
save('benign-ordguard-domain','C03','backend/plonk/bn254/prove.go','the quotient-domain factor chosen first, one NewDomain call (all seven curves)')
sb='frontend/cs/scs/builder.go'
m('memoemit-splitsum','C04',['MEMO-EMIT'],sb,'''	o, found := builder.addConstraintExist(acc, r[0], qC)
	if !found {
		o = builder.newInternalVariable()
		builder.addAddGate(acc, r[0], uint32(o.VID), qC)
	}
''','''	o, found := builder.addConstraintExist(acc, r[0], qC)
	if !found {
		if r[0].VID == acc.VID && k == nil {
			// acc + c*acc: a term on the same wire, no gate needed
			o = expr.NewTerm(acc.VID, builder.cs.Add(acc.Coeff, r[0].Coeff))
		} else {
			o = builder.newInternalVariable()
			builder.addAddGate(acc, r[0], uint32(o.VID), qC)
		}
	}
''',note='a shortcut in the not-found branch returns a term without emitting the gate that addConstraintExist has already recorded')
m('memokey-vid','C05',['MEMO-KEY'],sb,'''	_, ok := builder.mtBooleans[v.(expr.Term[E])]
	return ok''','''	_, ok := builder.mtBooleans[expr.NewTerm(v.(expr.Term[E]).VID, builder.tOne)]
	return ok''',note='IsBoolean looks the wire up with a unit coefficient: every multiple of a boolean wire is reported boolean')
edit(sb,[('''	_, ok := builder.mtBooleans[v.(expr.Term[E])]
	return ok''','''	t := v.(expr.Term[E])
	if _, ok := builder.mtBooleans[t]; ok {
		return true
	}
	return false'''),('''	builder.mtBooleans[v.(expr.Term[E])] = struct{}{}''','''	key := v.(expr.Term[E])
	builder.mtBooleans[key] = struct{}{}''')])
save('benign-memokey-temp','C05',sb,'the boolean-table accesses rewritten with temporaries and an explicit branch')
m('optparam-gkr','C10',['EFF-OPTSLICE'],'constraint/bls12-381/solver.go','''		opts = append(opts[:len(opts):len(opts)],
''','''		opts = append(opts,
''',note='F13 reintroduced: GKR overrides appended in place to the option slice received from the caller')
m('permcycle-skip','C02',['PERM-CYCLE'],'backend/plonk/bls12-377/setup.go','''	for i := 0; i < len(lro); i++ {
		if cycle[lro[i]] != -1 {''','''	for i := 0; i < len(lro); i++ {
		if i >= sizeSolution && lro[i] == 0 {
			continue // unused R / O slots default to wire 0
		}
		if cycle[lro[i]] != -1 {''',note='R and O positions holding wire 0 are skipped by the cycle construction')
for cv in ['bn254','bls12-377','bls12-381','bls24-315','bls24-317','bw6-633','bw6-761']:
  edit('backend/plonk/'+cv+'/setup.go',[('''	for i := 0; i < len(permutation); i++ {
		permutation[i] = -1
	}
''','''	for i := range permutation {
		permutation[i] = -1
	}
'''),('''		if cycle[lro[i]] != -1 {
			// if != -1, it means we already encountered this value
			// so we need to set the corresponding permutation index.
			permutation[i] = cycle[lro[i]]
		}
		cycle[lro[i]] = int64(i)''','''		wire := lro[i]
		if last := cycle[wire]; last != -1 {
			// we already encountered this value: chain the position to the previous one
			permutation[i] = last
		}
		cycle[wire] = int64(i)''')])
save('benign-permcycle-locals','C02','backend/plonk/bn254/setup.go','buildPermutation with range loop and named temporaries (all seven curves)')
m('globalref-registry','C10',['EFF-GLOBALREF'],'constraint/solver/hint_registry.go','''	return maps.Clone(registry)''','''	if len(registry) < 64 {
		return maps.Clone(registry)
	}
	return registry // large registries are shared''',note='the solver configuration receives the global hint registry itself instead of a copy once it is large')
m('resetdef-reuse','C06',['RESET-DEF'],'constraint/blueprint_logderivlookup.go','''	b.cachedEntries = make([]E, 0, capacity)
	b.cachedOffset = 0
''','''	if cap(b.cachedEntries) >= capacity {
		// reuse the allocation of the previous solve
		b.cachedEntries = b.cachedEntries[:0]
		return
	}
	b.cachedEntries = make([]E, 0, capacity)
	b.cachedOffset = 0
''',note='Reset reuses the previous allocation and returns before clearing cachedOffset')
m('loopmust-uints-lastbyte','C14',['LOOP-MUST'],'std/math/uints/uint8.go','''	for i := range bts {
		r[i] = bf.ByteValueOf(bts[i])
	}
	expectedValue := bf.ToValue(r)''','''	for i := range bts {
		if i == len(bts)-1 {
			// the top byte is bounded by the recomposition
			r[i] = U8{Val: bts[i], internal: true}
			continue
		}
		r[i] = bf.ByteValueOf(bts[i])
	}
	expectedValue := bf.ToValue(r)''',note='the most significant hinted byte is no longer range checked')
edit('std/selector/slice.go',[('''	for i := 1; i < len(out); i++ {
		// (out[i] - out[i-1]) * (i - stepPosition) == 0
		api.AssertIsEqual(api.Mul(api.Sub(out[i], out[i-1]), api.Sub(i, stepPosition)), 0)
	}
	return out
}
''','''	assertStepShape(api, out, stepPosition)
	return out
}

// assertStepShape adds the constraints for the form of a step function that steps at stepPosition.
func assertStepShape(api frontend.API, out []frontend.Variable, stepPosition frontend.Variable) {
	for i := 1; i < len(out); i++ {
		// (out[i] - out[i-1]) * (i - stepPosition) == 0
		assertStepAt(api, out, i, stepPosition)
	}
}

func assertStepAt(api frontend.API, out []frontend.Variable, i int, stepPosition frontend.Variable) {
	api.AssertIsEqual(api.Mul(api.Sub(out[i], out[i-1]), api.Sub(i, stepPosition)), 0)
}
''')])
save('benign-loopmust-helper','C14','std/selector/slice.go','the step-shape loop of stepMask moved into a helper, its body into a second helper')
m('mulaccown-dot','C14',['MULACC-OWN'],'std/selector/multiplexer.go','''	out := frontend.Variable(0)
	for i := 0; i < len(a); i++ {
		// out += indicators[i] * values[i]
		out = api.MulAcc(out, a[i], b[i])
	}
	return out''','''	if len(b) == 0 {
		return 0
	}
	// start from the last value and correct it: out = b[n-1] + sum a[i]*(b[i]-b[n-1])
	out := b[len(b)-1]
	for i := 0; i < len(a)-1; i++ {
		out = api.MulAcc(out, a[i], api.Sub(b[i], b[len(b)-1]))
	}
	return out''',note='the accumulator of MulAcc starts as the caller own variable')
m('pooldouble-q','C10',['POOL-DOUBLE'],'constraint/bw6-633/solver.go','''	q := pool.BigInt.Get()
	q.Set(s.q)

	for i := 0; i < nbInputs; i++ {''','''	q := pool.BigInt.Get()
	defer pool.BigInt.Put(q)
	q.Set(s.q)

	for i := 0; i < nbInputs; i++ {''',note='a deferred release of the modulus copy added, the explicit release at the end kept')
edit('backend/groth16/bls12-381/marshal.go',[('''	"fmt"
	"io"
''','''	"bufio"
	"fmt"
	"io"
'''),('''func (proof *Proof) ReadFrom(r io.Reader) (n int64, err error) {

	dec := curve.NewDecoder(r)
''','''func (proof *Proof) ReadFrom(r io.Reader) (n int64, err error) {

	dec := curve.NewDecoder(bufio.NewReader(r))
''')])
d = subprocess.run(['git','-C',WT,'diff'],capture_output=True,text=True).stdout
subprocess.check_call(['git','-C',WT,'checkout','--','.'])
open(os.path.join(root,'selftest','patches','codecexact-proof.diff'),'w').write(d)
M.append({'id':'codecexact-proof','property':'C09','expect_rules':['CODEC-EXACT'],'file':'backend/groth16/bls12-381/marshal.go','note':'the Groth16 proof decoder reads through a bufio.Reader: bytes after the proof are swallowed'})
m('statehook-modreduced','C11',['STATE-HOOK'],'std/math/emulated/element.go','''		e.internal = false // we need to constrain in later.
	}
''','''		e.internal = false // we need to constrain in later.
		e.modReduced = false
		return
	}
	if len(e.Limbs) > 0 {
		// assigned element: keep what we know about it
		return
	}
''',note='GnarkInitHook keeps the modReduced trust flag of elements that already have limbs')
edit('constraint/blueprint_logderivlookup.go',[('''	b.cachedEntries = make([]E, 0, capacity)
	b.cachedOffset = 0
}
''','''	b.clearCache(capacity)
}

// clearCache drops what the previous solve cached.
func (b *BlueprintLookupHint[E]) clearCache(capacity int) {
	b.cachedOffset = 0
	b.cachedEntries = make([]E, 0, capacity)
}
''')])
save('benign-resetdef-helper','C06','constraint/blueprint_logderivlookup.go','Reset delegates the two assignments to a helper method')
edit('std/algebra/emulated/sw_bw6761/pairing.go',[('''	lines := make([]lineEvaluations, len(Q))
	for i := range Q {
		if Q[i].Lines == nil {
			Qlines := pr.computeLines(&Q[i].P)
			Q[i].Lines = &Qlines
		}
		lines[i] = *Q[i].Lines
	}
	return pr.millerLoopLines(P, lines, nil, true)
''','''	lines := make([]lineEvaluations, len(Q))
	for i := range Q {
		if Q[i].Lines == nil {
			// keep the computed lines local: Q[i] may belong to the caller's circuit value
			lines[i] = pr.computeLines(&Q[i].P)
			continue
		}
		lines[i] = *Q[i].Lines
	}
	return pr.millerLoopLines(P, lines, nil, true)
''')])
save('benign-operandstate-repair','C11','std/algebra/emulated/sw_bw6761/pairing.go','the repair of F14 at one site (lines kept local): its finding disappears and nothing else fires')
m('operandstate-mux','C11',['OPERAND-STATE'],'std/algebra/emulated/sw_bn254/pairing.go','''	if inputs[0].Lines == nil {
		return &ret
	}
''','''	if inputs[0].Lines == nil {
		// compute the lines of the first input once, they are needed by most callers
		l0 := pr.computeLines(&inputs[0].P)
		inputs[0].Lines = &l0
		return &ret
	}
''',note='a new cache of computed lines on a caller-owned operand (not among the known findings)')
json.dump({'comment':'selftest mutants: each patch breaks one rule instance and must be detected by the listed rule(s) of its property; produced by tools/make_selftest.py','mutants':M}, open(os.path.join(root,'selftest','mutants.json'),'w'), indent=1)
subprocess.run(['git','-C','/repo','worktree','remove','--force',WT],capture_output=True)
print(len(M),'mutants')
