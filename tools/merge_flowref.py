#!/usr/bin/env python3
"""Merge the output of `gnarklint -dev flowemit -pkgs ./...` into rules/flow.json (sources, params, fnsites).
Usage: gnarklint -dev flowemit -pkgs ./... > /tmp/flowemit.json; tools/merge_flowref.py /tmp/flowemit.json [section ...]
Only the named sections are replaced (default: all three). 'comment' and 'exempt' are kept. Review the diff."""
import json, sys, os
root = os.path.join(os.path.dirname(os.path.abspath(__file__)), '..')
txt = open(sys.argv[1]).read()
emit = json.loads(txt[txt.index('{'):])
secs = sys.argv[2:] or ['sources', 'params', 'fnsites', 'relaxing_sites', 'fnmust']
p = os.path.join(root, 'rules', 'flow.json')
ref = json.load(open(p))
for s in secs:
    ref[s] = emit[s]
json.dump(ref, open(p, 'w'), indent=1, sort_keys=True)
print({s: sum(len(v) for v in ref[s].values()) for s in secs})
