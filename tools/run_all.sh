#!/bin/bash
# Run every registered quick (or thorough: TIER=thorough) check against /repo and print one line per property.
export GOFLAGS=-mod=mod GOPROXY=off GOSUMDB=off GOTOOLCHAIN=local GOWORK=off
TIER=${TIER:-quick}
for c in $(python3 -c "import json;print(' '.join(x['property_id'] for x in json.load(open('/verif/MANIFEST.json'))['checks']))"); do
  /verif/bin/gnarklint -property $c -tier $TIER 2>&1 | grep "^property=\|^VIOLATION\|^KNOWN" | cut -c1-200 | awk -v c=$c '{print}' | head -8
done
