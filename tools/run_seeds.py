#!/usr/bin/env python3
"""Run every kept seeded change (seeded/<id>/patch.diff) against the check of its property, in a scratch worktree
(tools/try_seed.sh), and record which rules fire. Writes seeded/RESULTS.md and updates seeded/<id>/meta.json."""
import json, os, subprocess, sys, re, glob
here = os.path.dirname(os.path.abspath(__file__))
root = os.path.join(here, '..')
extra = {'C06b': ['C10'], 'C01b': ['C03'], 'C03a': ['C01', 'C10'], 'C10a': ['C03'], 'C02a': ['C03'], 'C06c': ['C10'], 'C08d': ['C01'], 'C11d': ['C10'], 'C06e': ['C10'], 'C04f': ['C05'], 'C05e': ['C04'], 'C08f': ['C02'], 'C14e': ['C04'], 'C07e': ['C11']}
only = sys.argv[1:]
rows = []
from concurrent.futures import ThreadPoolExecutor
def one(d):
    sid = os.path.basename(os.path.dirname(d))
    mp = os.path.join(d, 'meta.json')
    if not os.path.exists(mp): return None
    m = json.load(open(mp))
    if only and sid not in only:
        return (sid, m)
    props = [m['property']] + extra.get(sid, [])
    fired = {}
    for p in props:
        out = subprocess.run([os.path.join(here, 'try_seed.sh'), os.path.join(d, 'patch.diff'), p], capture_output=True, text=True, env=dict(os.environ, HEADN='400')).stdout
        rules = sorted(set(re.findall(r'violated: rule=([A-Z0-9-]+)', out)))
        if 'patch does not apply' in out or 'worktree failed' in out:
            rules = ['ERROR-' + out.strip().splitlines()[-1][:60]]
        fired[p] = rules
    m['detected_by'] = fired
    m['detected'] = any(v for v in fired.values())
    json.dump(m, open(mp, 'w'), indent=1)
    print(sid, fired, flush=True)
    return (sid, m)
with ThreadPoolExecutor(int(os.environ.get('JOBS', '4'))) as ex:
    rows = [x for x in ex.map(one, sorted(glob.glob(os.path.join(root, 'seeded', '*', '')))) if x]
with open(os.path.join(root, 'seeded', 'RESULTS.md'), 'w') as f:
    f.write('# Seeded changes: which checks catch which\n\nEach change was written by an independent sub-agent from the property text only, confirmed in a scratch worktree (tools/confirm_seed.sh: demonstration passes on the unchanged tree, fails with the change, existing tests of the touched packages still pass) and run against the checks with tools/run_seeds.py.\n\n| id | confirmed | detected | rules that fire | what it needs to manifest |\n|---|---|---|---|---|\n')
    for sid, m in rows:
        det = m.get('detected_by', {})
        rules = '; '.join(f"{p}: {', '.join(r) if r else '-'}" for p, r in det.items())
        needs = (m.get('needs') or '').replace('\n', ' ').replace('|', '/')[:160]
        f.write(f"| {sid} | {'yes' if m.get('ok') else 'NO'} | {'yes' if m.get('detected') else 'no'} | {rules} | {needs} |\n")
    n = sum(1 for _, m in rows if m.get('ok')); k = sum(1 for _, m in rows if m.get('ok') and m.get('detected'))
    f.write(f"\nConfirmed: {n}; detected: {k}.\n")
