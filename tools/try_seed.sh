#!/bin/bash
# usage: try_seed.sh <patch.diff> <property>...   applies the patch in a scratch worktree of /repo HEAD (never in /repo),
# runs the quick checks against it, removes the worktree.
export GOFLAGS=-mod=mod GOPROXY=off GOSUMDB=off GOTOOLCHAIN=local GOWORK=off
patch=$1; shift
id=$(basename $patch .patch.diff)
WT=/tmp/seedtry/$id.$$
mkdir -p /tmp/seedtry /tmp/seedrun/evidence
ln -sfn /verif/rules /tmp/seedrun/rules; ln -sf /verif/known_findings.json /tmp/seedrun/known_findings.json; ln -sf /verif/properties.jsonl /tmp/seedrun/properties.jsonl
git -C /repo worktree add --detach $WT HEAD >/dev/null 2>&1 || { echo "worktree failed"; exit 2; }
cd $WT
if ! git apply --3way "$patch" 2>/tmp/apply.$$.err; then echo "patch does not apply: $(head -3 /tmp/apply.$$.err)"; cd /; git -C /repo worktree remove --force $WT; exit 2; fi
for p in "$@"; do
  echo "--- $p on $(basename $patch)"
  mkdir -p /tmp/seedrun/$id
  GNARKLINT_VERIF=/tmp/seedrun GNARKLINT_REPO=$WT /verif/bin/gnarklint -property $p 2>&1 | grep -v '^VIOLATION' | cut -c1-420 | head -${HEADN:-12}
done
cd /; git -C /repo worktree remove --force $WT
