#!/bin/bash
# usage: try_seed.sh <patch.diff> <property>...   applies the patch to /repo, runs the quick checks, reverts.
export GOFLAGS=-mod=mod GOPROXY=off GOSUMDB=off GOTOOLCHAIN=local GOWORK=off
patch=$1; shift
cd /repo || exit 2
if [ -n "$(git status --porcelain)" ]; then echo "/repo not clean"; exit 2; fi
if ! git apply --3way "$patch" 2>/tmp/apply.err; then echo "patch does not apply: $(cat /tmp/apply.err | head -3)"; git checkout -- . ; exit 2; fi
git reset -q
for p in "$@"; do
  echo "--- $p on $(basename $patch)"
  GNARKLINT_VERIF=/tmp/seedrun /verif/bin/gnarklint -property $p 2>&1 | grep -v '^VIOLATION' | cut -c1-420 | head -${HEADN:-12}
done
git checkout -- . ; git clean -fdq
