#!/bin/bash
# usage: tryq.sh <patch> <property>...  — like try_seed.sh but prints one line per property: fired rules with counts
p=$1; shift
for prop in "$@"; do
  HEADN=2000 /verif/tools/try_seed.sh $p $prop 2>&1 | grep -a "^property=\|violated: rule=\|patch does not apply" | sed -E 's/.*violated: rule=([A-Z0-9-]+).*/\1/' | sort | uniq -c | tr '\n' ';' | cut -c1-600
  echo
done
